"""Anchored source files per property and their fingerprints on the tree the model was validated against.

`anchors.json` (committed) holds, for every anchored file, the sha256 of its normalised AST (comments and layout do not
count; for non-Python files: of the bytes).  A check whose anchored files differ from that record runs its random search at a
multiple of the usual size (`Run.boost`): the differential tie is made deeper exactly when the code it ties to has changed.
A difference is never a verdict by itself.   usage: anchors.py --record   (after /repo changed on purpose, e.g. a fix: commit)"""
from __future__ import annotations

import ast
import hashlib
import json
import os
import sys

VERIF = os.path.dirname(os.path.dirname(os.path.abspath(__file__)))
REPO = os.environ.get("RBACX_REPO", "/repo")
RECORD = os.path.join(VERIF, "anchors.json")

EXTRA = {"C01": ["src/rbacx/core/helpers.py"], "C11": ["src/rbacx/core/helpers.py"],
         "C18": ["src/rbacx/core/helpers.py"], "C20": ["src/rbacx/core/helpers.py"], "C03": ["src/rbacx/core/policyset.py"],
         "C05": ["src/rbacx/core/policyset.py"], "C19": ["src/rbacx/core/engine.py"], "C13": ["src/rbacx/core/compiler.py"], "C04": ["src/rbacx/core/compiler.py", "src/rbacx/core/engine.py"],
         "C02": ["src/rbacx/core/compiler.py"], "C07": ["src/rbacx/core/helpers.py"], "C08": ["src/rbacx/core/roles.py"], "C12": [], "C15": []}


def files_of(prop: str) -> list[str]:
    for line in open(os.path.join(VERIF, "properties.jsonl"), encoding="utf-8"):
        p = json.loads(line)
        if p["id"] == prop:
            fs = [f for f in p["anchors"]["files"] if not f.startswith("docs/") and not f.endswith(".md")]
            return sorted(set(fs + EXTRA.get(prop, [])))
    return []


def fingerprint(path: str) -> str:
    try:
        data = open(path, "rb").read()
    except OSError:
        return "missing"
    if path.endswith(".py"):
        try:
            return hashlib.sha256(ast.dump(ast.parse(data.decode("utf-8"))).encode()).hexdigest()
        except Exception:  # noqa: BLE001
            return "unparsable:" + hashlib.sha256(data).hexdigest()
    return hashlib.sha256(data).hexdigest()


def all_files() -> list[str]:
    out: set[str] = set()
    for i in range(1, 21):
        out.update(files_of(f"C{i:02d}"))
    return sorted(out)


def changed(prop: str) -> list[str]:
    try:
        rec = json.load(open(RECORD))["files"]
    except Exception:  # noqa: BLE001
        return []
    return [f for f in files_of(prop) if rec.get(f) != fingerprint(os.path.join(REPO, f))]


if __name__ == "__main__":
    if "--record" in sys.argv:
        json.dump({"note": "normalised-AST fingerprints of the anchored files of the tree the checks were validated on (harness/anchors.py --record)",
                   "files": {f: fingerprint(os.path.join(REPO, f)) for f in all_files()}}, open(RECORD, "w"), indent=1)
    for i in range(1, 21):
        print(f"C{i:02d}", changed(f"C{i:02d}"))
