"""Syscall-level tracing and fault injection for `rbacx.store.file_store.atomic_write` (C16).

The module under test keeps calling `tempfile.mkstemp`, `os.fdopen`, `f.write`, the `with` exit,
`os.replace`, `os.unlink` – but through proxies installed as *its* module globals `os`, `tempfile`
and `open` (nothing global is patched, so other threads and the harness itself are unaffected).
Every call is logged with the path it touched (temp / target / other) and the region of
`atomic_write`'s `try / with / finally` statement it was made from (found from the line the
`atomic_write` frame is executing and the function's AST).  A `Fault` makes step `n` raise, or kills
the process there, after `k` bytes of it.

Used by harness/extract.py (the step list = the program the Lean model runs) and by
harness/props/c16.py (fault injection at every extracted step).  Also runnable as a child process:
`python awtrace.py child '<json>'`.
"""
from __future__ import annotations

import ast
import builtins
import importlib
import json
import os
import signal
import sys
import tempfile
from typing import Any

REGIONS = ("outside", "body", "withBody", "withExit", "fin")


class Fault:
    def __init__(self, kind: str, n: int, k: int = 0, exc: str = "OSError"):
        self.kind, self.n, self.k, self.exc = kind, n, k, exc   # kind: raise | exit | kill

    def to_json(self) -> dict:
        return {"kind": self.kind, "n": self.n, "k": self.k, "exc": self.exc}

    @staticmethod
    def from_json(j: dict | None) -> "Fault | None":
        return None if not j else Fault(j["kind"], j["n"], j.get("k", 0), j.get("exc", "OSError"))


class Injected(OSError):
    """marker mixed into injected OSErrors so that the harness can tell them from natural ones"""


def _make_exc(name: str) -> BaseException:
    if name == "KeyboardInterrupt":
        return KeyboardInterrupt("injected")
    if name == "MemoryError":
        return MemoryError("injected")
    return Injected(28, "injected: No space left on device")


def region_map(fn: ast.FunctionDef) -> dict[int, str]:
    """line number → region of the first `try` statement of `fn` (see Rbacx.FileSrc.Region)"""
    regions: dict[int, str] = {}

    def mark(stmts: list[ast.stmt], region: str) -> None:
        for st in stmts:
            for ln in range(st.lineno, (st.end_lineno or st.lineno) + 1):
                regions[ln] = region
            if isinstance(st, ast.Try):
                mark(st.body, "body" if region == "outside" else region)
                for h in st.handlers:
                    mark(h.body, "outside" if region == "outside" else region)
                mark(st.orelse, "body" if region == "outside" else region)
                mark(st.finalbody, "fin" if region == "outside" else region)
            elif isinstance(st, (ast.With, ast.AsyncWith)):
                mark(st.body, "withBody" if region == "body" else region)
            else:
                for field in ("body", "orelse"):
                    sub = getattr(st, field, None)
                    if isinstance(sub, list) and sub and isinstance(sub[0], ast.stmt):
                        mark(sub, region)

    mark(fn.body, "outside")
    return regions


class Tracer:
    """Context manager: installs the proxies in `mod` (rbacx.store.file_store), records `steps`."""

    def __init__(self, mod: Any, target: str, data: str | None = None, fault: Fault | None = None, on_step=None):
        self.mod, self.fault, self.data = mod, fault, data
        self.on_step = on_step      # called with the step index before each step runs (a reader at that instant)
        self.target = os.path.abspath(target)
        self.tmp: str | None = None
        self.tmp_fd: int | None = None
        self.steps: list[dict] = []
        self.fired = False
        self.code = mod.atomic_write.__code__
        src = open(mod.__file__, encoding="utf-8").read()
        fn = next(n for n in ast.walk(ast.parse(src)) if isinstance(n, ast.FunctionDef) and n.name == "atomic_write")
        self.regions = region_map(fn)

    # -- bookkeeping

    def _line_region(self) -> str:
        f = sys._getframe(1)
        while f is not None:
            if f.f_code is self.code:
                return self.regions.get(f.f_lineno, "outside")
            f = f.f_back
        return "outside"

    def loc(self, path: Any) -> str:
        try:
            p = os.path.abspath(os.fspath(path))
        except TypeError:
            return "other"
        if p == self.target:
            return "target"
        if self.tmp is not None and p == os.path.abspath(self.tmp):
            return "temp"
        return "other"

    def begin(self, step: dict, partial=None) -> None:
        """log the step; if the fault sits here: do `k` bytes of it (`partial(k)`), then raise / die"""
        step.setdefault("region", self._line_region())
        idx = len(self.steps)
        self.steps.append(step)
        if self.on_step is not None:
            self.on_step(idx)
        ft = self.fault
        if ft is None or self.fired or ft.n != idx:
            return
        self.fired = True
        if partial is not None:
            partial(ft.k)
        if ft.kind == "raise":
            raise _make_exc(ft.exc)
        if ft.kind == "exit":
            os._exit(9)
        if ft.kind == "kill":
            os.kill(os.getpid(), signal.SIGKILL)
            signal.pause()

    # -- proxies

    def __enter__(self) -> "Tracer":
        tr = self
        real_os, real_tempfile = os, tempfile

        class FileProxy:
            def __init__(self, f, loc):
                self._f, self._loc, self._entered = f, loc, False

            def write(self, s):
                chunk = 0 if (tr.data is None or s == tr.data) else 1 + sum(1 for x in tr.steps if x["op"] == "write")
                tr.begin({"op": "write", "loc": self._loc, "chunk": chunk}, partial=lambda k: self._f.write(s[:k]))
                return self._f.write(s)

            def _close_partial(self, k):
                # a failing / interrupted close: the descriptor is closed, the flush may be incomplete (unobservable:
                # only the temp file is affected); if the process is about to die nothing is flushed by us
                if tr.fault is not None and tr.fault.kind == "raise":
                    try:
                        self._f.close()
                    except Exception:  # noqa: BLE001
                        pass

            def close(self):
                tr.begin({"op": "close", "loc": self._loc}, partial=self._close_partial)
                return self._f.close()

            def __enter__(self):
                self._entered = True
                self._f.__enter__()
                return self

            def __exit__(self, *a):
                reg = tr._line_region()
                tr.begin({"op": "close", "loc": self._loc, "region": "withExit" if reg in ("body", "withBody") else reg},
                         partial=self._close_partial)
                return self._f.__exit__(*a)

            def __getattr__(self, name):
                return getattr(self._f, name)

        class TempfileProxy:
            def __getattr__(self, name):
                return getattr(real_tempfile, name)

            def mkstemp(self, *a, **kw):
                step = {"op": "mkstemp", "same_dir": None}
                tr.begin(step)
                fd, tmp = real_tempfile.mkstemp(*a, **kw)
                tr.tmp, tr.tmp_fd = tmp, fd
                step["same_dir"] = os.path.dirname(os.path.abspath(tmp)) == os.path.dirname(tr.target)
                return fd, tmp

        class OsProxy:
            def __getattr__(self, name):
                return getattr(real_os, name)

            def fdopen(self, fd, *a, **kw):
                loc = "temp" if fd == tr.tmp_fd else "other"
                tr.begin({"op": "fdopen", "loc": loc})
                return FileProxy(real_os.fdopen(fd, *a, **kw), loc)

            def replace(self, src, dst, **kw):
                tr.begin({"op": "replace", "src": tr.loc(src), "dst": tr.loc(dst)})
                return real_os.replace(src, dst, **kw)

            rename = replace

            def unlink(self, p, **kw):
                step = {"op": "unlink", "loc": tr.loc(p), "swallow": False}
                tr.begin(step)
                try:
                    return real_os.unlink(p, **kw)
                except FileNotFoundError:
                    step["_fnf"] = True
                    raise

            remove = unlink

            def open(self, p, flags, *a, **kw):
                tr.begin({"op": "other", "loc": tr.loc(p), "what": "os.open"})
                return real_os.open(p, flags, *a, **kw)

            def truncate(self, p, *a, **kw):
                tr.begin({"op": "other", "loc": tr.loc(p) if not isinstance(p, int) else "other", "what": "os.truncate"})
                return real_os.truncate(p, *a, **kw)

        def open_proxy(p, mode="r", *a, **kw):
            if isinstance(p, int):
                loc = "temp" if p == tr.tmp_fd else "other"
                tr.begin({"op": "fdopen", "loc": loc})
                return FileProxy(builtins.open(p, mode, *a, **kw), loc)
            loc = tr.loc(p)
            if any(c in mode for c in "wxa+"):
                tr.begin({"op": "openTrunc" if "w" in mode else "other", "loc": loc, "what": f"open({mode})"})
                return FileProxy(builtins.open(p, mode, *a, **kw), loc)
            return builtins.open(p, mode, *a, **kw)

        self._saved = {k: self.mod.__dict__.get(k, _MISSING) for k in ("os", "tempfile", "open")}
        self.mod.os, self.mod.tempfile, self.mod.open = OsProxy(), TempfileProxy(), open_proxy
        return self

    def __exit__(self, *a) -> None:
        for k, v in self._saved.items():
            if v is _MISSING:
                self.mod.__dict__.pop(k, None)
            else:
                setattr(self.mod, k, v)

    def finish(self, returned_normally: bool) -> list[dict]:
        """the cleaned step list; `swallow` = the unlink raised FileNotFoundError and the function still returned"""
        out = []
        for s in self.steps:
            s = dict(s)
            if s["op"] == "unlink":
                s["swallow"] = bool(s.pop("_fnf", False) and returned_normally)
            s.pop("what", None)
            out.append(s)
        return out


_MISSING = object()


def load_module(repo: str | None = None):
    repo = repo or os.environ.get("RBACX_REPO", "/repo")
    src = os.path.join(repo, "src")
    if src not in sys.path:
        sys.path.insert(0, src)
    return importlib.import_module("rbacx.store.file_store")


def run_write(mod, path: str, data: str, fault: Fault | None = None, encoding: str = "utf-8", on_step=None) -> dict:
    """one traced `atomic_write`; returns {outcome, exc, steps, fired}"""
    with Tracer(mod, path, data, fault, on_step) as tr:
        try:
            mod.atomic_write(path, data, encoding=encoding)
            outcome, exc = "ok", None
        except BaseException as e:  # noqa: BLE001  (KeyboardInterrupt is one of the injected kinds)
            outcome, exc = "raised", type(e).__name__
    return {"outcome": outcome, "exc": exc, "steps": tr.finish(outcome == "ok"), "fired": tr.fired}


def extract_program(mod) -> list[dict]:
    """the step list of one complete, fault-free run (in a scratch directory)"""
    with tempfile.TemporaryDirectory(prefix="rbacx-verif-c16-") as d:
        path = os.path.join(d, "policy.json")
        with open(path, "w", encoding="utf-8") as f:
            f.write("{}")
        r = run_write(mod, path, '{"rules": []}')
        if r["outcome"] != "ok":
            return r["steps"] + [{"op": "other", "loc": "target", "region": "outside"}]
        return r["steps"]


def main(argv: list[str]) -> int:
    # child mode: perform one write under a fault that kills this process
    if len(argv) >= 3 and argv[1] == "child":
        j = json.loads(argv[2])
        mod = load_module(j.get("repo"))
        r = run_write(mod, j["path"], j["data"], Fault.from_json(j.get("fault")), j.get("encoding", "utf-8"))
        sys.stdout.write(json.dumps({"outcome": r["outcome"], "exc": r["exc"]}))
        return 0
    print(json.dumps(extract_program(load_module())))
    return 0


if __name__ == "__main__":
    sys.exit(main(sys.argv))
