"""C17, tie by regeneration of the command line and the parser dispatch: outcome combinations for the EXTERNAL collaborators, the stubs
that make the REAL functions of rbacx.cli / rbacx.store.policy_loader see exactly those outcomes, and the lines for the evaluator of the
translation (lean/Rbacx/Run/SrcEvalCli.lean).

A case = (function name, arguments, ext) where `ext` maps an external (`open_read`, `stdin_read`, `bytes_decode`, `json_loads`, `import_yaml`,
`yaml_safe_load`, `_parse_require_attrs`, `validate_policy`, `analyze_policy`, `analyze_policyset`, `build_parser`, `parse_args`, `call_func`)
to rows `[arguments, outcome]`, outcome = ("ok", value) | ("err", class name).  A stub looks its arguments up (positional then keyword
arguments in call order) and returns a fresh copy of the value / raises an instance of the class; no row = `ExtMiss` on both sides."""
from __future__ import annotations

import argparse
import contextlib
import io
import itertools
import json
import random
import sys
import types

import proto


from yaml import YAMLError as _YAML_ERROR   # the real class, taken before any stub stands in for the module


class ExtMiss(Exception):
    pass


class ValidationError(Exception):       # stands for jsonschema's (a direct subclass of Exception, as the real one)
    pass


def make_exc(cls: str) -> BaseException:
    if cls.startswith("SystemExit:"):
        return SystemExit(json.loads(cls.split(":", 1)[1]))
    table = {
        "RuntimeError": lambda: RuntimeError("jsonschema is required for validation. Install rbacx[validate]."),
        "RecursionError": lambda: RecursionError("maximum recursion depth exceeded"),
        "NotImplementedError": lambda: NotImplementedError("n/i"),
        "OSError": lambda: OSError("io"),
        "FileNotFoundError": lambda: FileNotFoundError(2, "No such file or directory"),
        "PermissionError": lambda: PermissionError(13, "Permission denied"),
        "IsADirectoryError": lambda: IsADirectoryError(21, "Is a directory"),
        "ValueError": lambda: ValueError("v"),
        "JSONDecodeError": lambda: json.JSONDecodeError("Expecting value", "", 0),
        "UnicodeDecodeError": lambda: UnicodeDecodeError("utf-8", b"\xff", 0, 1, "invalid start byte"),
        "LookupError": lambda: LookupError("unknown encoding"),
        "ImportError": lambda: ImportError("no"),
        "ModuleNotFoundError": lambda: ModuleNotFoundError("No module named 'yaml'"),
        "KeyboardInterrupt": lambda: KeyboardInterrupt(),
        "SystemExit": lambda: SystemExit(3),
        "TypeError": lambda: TypeError("t"),
        "AttributeError": lambda: AttributeError("a"),
        "KeyError": lambda: KeyError("k"),
        "MemoryError": lambda: MemoryError(),
        "ValidationError": lambda: ValidationError("5 is not of type 'object'"),
        "YAMLError": lambda: _YAML_ERROR("mapping values are not allowed here"),
    }
    return table[cls]()


def key(args) -> str:
    return json.dumps([proto.enc(a) for a in args], sort_keys=False)


class Stubs:
    def __init__(self, ext: dict):
        self.tables = {name: {key(a): out for a, out in rows} for name, rows in ext.items()}
        self.calls: list = []

    def outcome(self, name: str, args: list):
        self.calls.append((name, args))
        try:
            k = key(args)
        except TypeError:
            raise ExtMiss(name) from None
        row = self.tables.get(name, {}).get(k)
        if row is None:
            raise ExtMiss(f"{name}{args!r}")
        kind, v = row
        if kind == "ok":
            return json.loads(json.dumps(v))
        raise make_exc(v)

    def fn(self, name: str):
        def stub(*a, **kw):
            return self.outcome(name, list(a) + list(kw.values()))
        stub.__name__ = name
        return stub


class StubBytes:
    def __init__(self, token: str, stubs: Stubs):
        self.token, self.stubs = token, stubs

    def decode(self, *a, **kw):
        return self.stubs.outcome("bytes_decode", [self.token] + list(a) + list(kw.values()))


class _File:
    def __init__(self, text):
        self.text = text

    def __enter__(self):
        return self

    def __exit__(self, *a):
        return False

    def read(self):
        return self.text


class _Parser:
    """what `build_parser()` returns: `parse_args(argv)` answers from the table — a dict of attributes becomes a Namespace whose `func`
    (when the dict has one) is a callable answering from the `call_func` table"""
    def __init__(self, stubs: Stubs):
        self.stubs = stubs

    def parse_args(self, argv=None):
        d = self.stubs.outcome("parse_args", [argv])
        ns = argparse.Namespace(**d) if isinstance(d, dict) else d
        if isinstance(d, dict) and "func" in d:
            ns.func = lambda a, d=d: self.stubs.outcome("call_func", [d])
        return ns

    def print_help(self):
        sys.stdout.write("usage\n")


class _YamlFinder:
    def __init__(self, stubs: Stubs):
        self.stubs = stubs

    def find_spec(self, name, path=None, target=None):
        if name == "yaml":
            self.stubs.outcome("import_yaml", [])       # raises what the case says
            raise ExtMiss("import_yaml ok is served from sys.modules")
        return None


@contextlib.contextmanager
def installed(stubs: Stubs, ext: dict):
    """the real modules see the stub collaborators; everything is put back afterwards"""
    from rbacx import cli as rcli
    from rbacx.store import policy_loader as rloader
    saved_cli = {n: getattr(rcli, n) for n in ("validate_policy", "analyze_policy", "analyze_policyset", "_parse_require_attrs", "build_parser")}
    had_open = "open" in rcli.__dict__
    saved_json, saved_yaml, saved_stdin = rloader.json, sys.modules.get("yaml"), sys.stdin
    finder = _YamlFinder(stubs)
    out = io.StringIO()
    try:
        for n in saved_cli:
            setattr(rcli, n, stubs.fn(n))

        def build_parser_stub():
            stubs.outcome("build_parser", [])
            return _Parser(stubs)
        rcli.build_parser = build_parser_stub

        def open_stub(path, mode="r", **kw):
            return _File(stubs.outcome("open_read", [path]))
        rcli.open = open_stub
        sys.stdin = types.SimpleNamespace(read=lambda: stubs.outcome("stdin_read", []))
        rloader.json = types.SimpleNamespace(loads=stubs.fn("json_loads"))
        imp = (ext.get("import_yaml") or [[[], ("err", "ExtMiss")]])[0][1]
        if imp[0] == "ok":
            fake = types.ModuleType("yaml")
            fake.safe_load = stubs.fn("yaml_safe_load")
            sys.modules["yaml"] = fake
        else:
            sys.modules.pop("yaml", None)
            sys.meta_path.insert(0, finder)
        with contextlib.redirect_stdout(out), contextlib.redirect_stderr(out):
            yield
    finally:
        if finder in sys.meta_path:
            sys.meta_path.remove(finder)
        if saved_yaml is not None:
            sys.modules["yaml"] = saved_yaml
        else:
            sys.modules.pop("yaml", None)
        rloader.json = saved_json
        sys.stdin = saved_stdin
        for n, v in saved_cli.items():
            setattr(rcli, n, v)
        if not had_open:
            del rcli.open


def run_real(fn: str, args: list, ext: dict) -> dict:
    from rbacx import cli as rcli
    from rbacx.store import policy_loader as rloader
    stubs = Stubs(ext)
    with installed(stubs, ext):
        try:
            if fn == "_parse_yaml":
                v = rloader._parse_yaml(args[0])
            elif fn == "parse_policy_text":
                v = rloader.parse_policy_text(args[0], filename=args[1], content_type=args[2], fmt=args[3])
            elif fn == "parse_policy_bytes":
                v = rloader.parse_policy_bytes(StubBytes(args[0], stubs), filename=args[1], content_type=args[2], fmt=args[3], encoding=args[4])
            elif fn == "_read_text_from_path_or_stdin":
                v = rcli._read_text_from_path_or_stdin(args[0])
            elif fn == "_load_policy_from_arg":
                v = rcli._load_policy_from_arg(args[0])
            elif fn == "_lint_doc":
                v = rcli._lint_doc(args[0], policyset=args[1], require_attrs=args[2])
            elif fn == "_validate_doc":
                v = rcli._validate_doc(args[0], policyset=args[1])
            elif fn == "main":
                v = rcli.main(args[0])
            elif fn in ("cmd_lint", "cmd_validate", "cmd_check"):
                v = getattr(rcli, fn)(argparse.Namespace(**args[0]))
            else:
                raise KeyError(fn)
            return {"ok": v}
        except BaseException as e:  # noqa: BLE001  (KeyboardInterrupt / SystemExit are outcomes here)
            return {"err": type(e).__name__}


def line(fn: str, args: list, ext: dict) -> str:
    def res(o):
        if o[0] == "ok":
            return {"ok": proto.enc(o[1])}
        e = make_exc(o[1])
        return {"err": {"cls": type(e).__name__, "msg": str(e), "code": proto.enc(getattr(e, "code", None))}}
    return json.dumps({"fn": fn, "args": [proto.enc(a) for a in args],
                       "ext": {n: [[[proto.enc(x) for x in a], res(o)] for a, o in rows] for n, rows in ext.items()}})


def project(o: dict):
    """what is compared: the value returned, or the CLASS of the exception that escaped"""
    if "ok" in o:
        return ("ok", json.dumps(proto.enc(o["ok"])))
    if "err" in o:
        return ("err", o["err"] if isinstance(o["err"], str) else o["err"].get("cls"))
    return ("error", json.dumps(o))


def project_lean(j: dict):
    if "ok" in j:
        return ("ok", json.dumps(j["ok"]))
    if "err" in j:
        return ("err", j["err"].get("cls"))
    return ("error", json.dumps(j))


# ---------------------------------------------------------------------------------------------------------------- cases

A = {"rules": [{"id": "a", "effect": "permit", "actions": ["read"], "resource": {"type": "doc"}}]}
B = {"rules": [{"id": "b", "effect": "deny", "actions": [], "resource": {}}]}
DOCS = [A, {"policies": [A, B]}, {"policies": []}, {"policies": None}, {"policies": {"k1": 1, "k2": 2}}, {"policies": 5}, [1],
        {"policies": [B]}, {"policies": "ab"}, {}, {"rules": [], "policies": [A, B, A]}]
VERDICTS = ["ok", "ValidationError", "RuntimeError", "RecursionError", "KeyboardInterrupt", "TypeError"]
LINTS = [("ok", []), ("ok", [{"code": "EMPTY_ACTIONS", "id": "b", "index": 0}]), ("err", "AttributeError"), ("ok", 5), ("ok", [{"code": "A"}, {"code": "B", "path": "x", "message": "m", "policy_index": 1}]), ("ok", "")]
ISSUE = {"code": "X"}


def validated(doc, policyset: bool) -> list:
    """the values `_validate_doc` can hand to the validator (the model's reading; a wrong guess only makes a row unused or missing —
    a miss is ExtMiss on both sides)"""
    if not policyset:
        return [doc]
    if not isinstance(doc, dict):
        return []
    ch = doc.get("policies") or []
    if isinstance(ch, (list, dict, str)):
        return list(ch)
    return []


def uniq(rows: list) -> list:
    seen, out = set(), []
    for a, o in rows:
        k = key(a)
        if k not in seen:
            seen.add(k)
            out.append([a, o])
    return out


def cli_case(cmd: str, ns: dict, read, parse, verdicts, lint, require=("ok", {})):
    """one run of a command function: `ns` the Namespace attributes, `read` / `parse` / `lint` / `require` outcomes, `verdicts` the
    validator's outcome per validated value (cycled)"""
    path = ns.get("policy")
    ext: dict = {}
    from_file = bool(path) and path != "-"
    if from_file:
        ext["open_read"] = [[[path], read]]
    else:
        ext["stdin_read"] = [[[], read]]
    yaml_hint = from_file and isinstance(path, str) and path.lower().endswith((".yaml", ".yml"))
    if yaml_hint:
        ext["import_yaml"] = [[[], ("ok", None)]]
        ext["yaml_safe_load"] = [[["TEXT"], parse]]
    else:
        ext["json_loads"] = [[["TEXT"], parse]]
    ext["_parse_require_attrs"] = [[[ns.get("require_attrs")], require]]
    doc = parse[1] if parse[0] == "ok" else None
    ps = bool(ns.get("policyset", False))
    vals = validated(doc, ps)
    ext["validate_policy"] = uniq([[[v], (("ok", None) if verdicts[i % len(verdicts)] == "ok" else ("err", verdicts[i % len(verdicts)]))]
                                   for i, v in enumerate(vals)])
    req = require[1] if require[0] == "ok" else None
    ext["analyze_policyset" if ps else "analyze_policy"] = [[[doc, req], lint]]
    return (cmd, [ns], ext)


def cli_cases(seed: int, n_random: int) -> list:
    out = []
    ok_read = ("ok", "TEXT")
    # small scope, exhaustive: command × --policyset × --strict × document × verdict per validated value × lint outcome
    for cmd in ("cmd_validate", "cmd_check", "cmd_lint"):
        for ps in (False, True):
            for strict in (False, True):
                for doc in DOCS:
                    nv = len(validated(doc, ps))
                    vsets = [["ok"]] if cmd == "cmd_lint" else ([[v] for v in VERDICTS] if nv <= 1 else
                                                               [list(p) for p in itertools.product(VERDICTS[:4], repeat=2)] + [["ok", "KeyboardInterrupt"]])
                    for vs in vsets:
                        clean = all(v == "ok" for v in vs) or nv == 0
                        lints = LINTS if (cmd == "cmd_lint" or (cmd == "cmd_check" and clean)) else LINTS[:1]
                        for lint in lints:
                            ns = {"policy": "p.json", "policyset": ps, "strict": strict, "format": "json", "require_attrs": None}
                            out.append(cli_case(cmd, ns, ok_read, ("ok", doc), vs, lint))
    # reading / parsing / Namespace variations
    r = random.Random(seed * 7919 + 1717)
    reads = [ok_read, ("err", "FileNotFoundError"), ("err", "RuntimeError"), ("err", "UnicodeDecodeError"), ("err", "IsADirectoryError"),
             ("err", "RecursionError"), ("err", "KeyboardInterrupt")]
    parses = [("ok", d) for d in DOCS] + [("ok", None), ("ok", "s"), ("ok", 7), ("err", "JSONDecodeError"), ("err", "RuntimeError"),
                                          ("err", "RecursionError"), ("err", "YAMLError"), ("err", "MemoryError")]
    paths = [None, "-", "", "p.json", "p.yaml", "dir/P.YML", "p.txt"]
    for cmd in ("cmd_validate", "cmd_check", "cmd_lint"):
        for read in reads:
            for path in paths:
                ns = {"policy": path, "policyset": False, "strict": True, "format": "text"}
                out.append(cli_case(cmd, ns, read, ("ok", A), ["ok"], LINTS[1]))
        for parse in parses:
            for path in ("p.json", "p.yaml", None):
                for ps in (False, True):
                    ns = {"policy": path, "policyset": ps, "format": "text", "strict": False}
                    out.append(cli_case(cmd, ns, ok_read, parse, ["ok", "ValidationError"], LINTS[1]))
        for require in (("ok", {"doc": ["id"]}), ("err", "AttributeError"), ("err", "RuntimeError")):
            for read in reads[:3]:
                out.append(cli_case(cmd, {"policy": "p.json", "strict": True, "require_attrs": "doc:id"}, read, ("ok", A), ["RuntimeError"], LINTS[1], require))
    for _ in range(n_random):
        cmd = r.choice(("cmd_validate", "cmd_check", "cmd_lint"))
        ns = {}
        for k, vals in (("policy", paths), ("policyset", [False, True, True, 1, 0, None, "yes"]), ("strict", [False, True, True, 1, 0, None, "", "x"]),
                        ("format", ["json", "text", None]), ("require_attrs", [None, "doc:id", ""])):
            if r.random() < 0.85:
                ns[k] = r.choice(vals)
        read = r.choice(reads) if r.random() < 0.25 else ok_read
        parse = r.choice(parses) if r.random() < 0.5 else ("ok", r.choice(DOCS))
        vs = [r.choice(VERDICTS) if r.random() < 0.4 else "ok" for _ in range(3)]
        lint = r.choice(LINTS)
        require = r.choice([("ok", {}), ("ok", {}), ("ok", {"doc": ["id"]}), ("err", "AttributeError")])
        out.append(cli_case(cmd, ns, read, parse, vs, lint, require))
    return out


def helper_cases() -> list:
    out = []
    for path in (None, "-", "", "p.json", "x.yaml"):
        for read in (("ok", "TEXT"), ("err", "FileNotFoundError"), ("ok", "")):
            ext = {"open_read": [[[path], read]], "stdin_read": [[[], read]], "json_loads": [[["TEXT"], ("ok", A)], [[""], ("err", "JSONDecodeError")]],
                   "import_yaml": [[[], ("ok", None)]], "yaml_safe_load": [[["TEXT"], ("ok", None)], [[""], ("ok", None)]]}
            out.append(("_read_text_from_path_or_stdin", [path], ext))
            out.append(("_load_policy_from_arg", [path], ext))
    for doc in DOCS:
        for ps in (False, True, None, 1, "", "x"):
            for vs in (["ok", "ok"], ["ValidationError", "ok"], ["ok", "ValidationError"], ["ValidationError", "RuntimeError"], ["MemoryError", "SystemExit"],
                       ["NotImplementedError"], ["ok", "ok", "ValidationError"]):
                vals = validated(doc, bool(ps))
                ext = {"validate_policy": uniq([[[v], (("ok", None) if vs[i % len(vs)] == "ok" else ("err", vs[i % len(vs)]))] for i, v in enumerate(vals)])}
                out.append(("_validate_doc", [doc, ps], ext))
            for lint in LINTS[:3]:
                out.append(("_lint_doc", [doc, ps, {}], {"analyze_policy": [[[doc, {}], lint]], "analyze_policyset": [[[doc, {}], ("ok", [ISSUE])]]}))
    return out


def loader_cases() -> list:
    out = []
    jsons = [("ok", {"a": 1}), ("ok", [1]), ("ok", None), ("err", "JSONDecodeError"), ("err", "RecursionError")]
    imports = [("ok", None), ("err", "ModuleNotFoundError"), ("err", "KeyboardInterrupt"), ("err", "RuntimeError")]
    yamls = [("ok", None), ("ok", {"a": 1}), ("ok", {}), ("ok", [1]), ("ok", []), ("ok", "s"), ("ok", 5), ("ok", False), ("ok", 0), ("err", "YAMLError"),
             ("err", "RecursionError")]
    hints = list(itertools.product([None, "p.json", "p.yaml", "P.YML", ""], [None, "application/json", "text/yaml; charset=utf-8"], [None, "json", "YAML", "xml"]))
    for fn, ct, fmt in hints:
        combos = [(j, imports[0], yamls[1]) for j in jsons] + [(jsons[0], i, y) for i in imports for y in (yamls if i[0] == "ok" else yamls[:2])]
        for j, i, y in combos:
            ext = {"json_loads": [[["TEXT"], j]], "import_yaml": [[[], i]], "yaml_safe_load": [[["TEXT"], y]]}
            out.append(("parse_policy_text", ["TEXT", fn, ct, fmt], ext))
    for i in imports:
        for y in yamls:
            out.append(("_parse_yaml", ["TEXT"], {"import_yaml": [[[], i]], "yaml_safe_load": [[["TEXT"], y]]}))
    for dec in (("ok", "TEXT"), ("err", "UnicodeDecodeError"), ("err", "LookupError")):
        for fn, ct, fmt in hints[::5]:
            for enc in ("utf-8", "latin-1"):
                ext = {"bytes_decode": [[["RAW", enc], dec]], "json_loads": [[["TEXT"], jsons[0]]], "import_yaml": [[[], imports[0]]],
                       "yaml_safe_load": [[["TEXT"], yamls[3]]]}
                out.append(("parse_policy_bytes", ["RAW", fn, ct, fmt, enc], ext))
    return out


def main_cases(seed: int) -> list:
    out = []
    argvs = [None, [], ["--version"], ["-v"], ["validate", "--policy", "p.json"], ["lint", "-v"], ["--help"], ["bogus"]]
    parses = [("ok", {"command": None}), ("ok", {"command": "validate", "func": "F", "policy": "p.json"}), ("err", "SystemExit:0"), ("err", "SystemExit:2"),
              ("err", "SystemExit:null"), ("err", "KeyboardInterrupt"), ("err", "RuntimeError")]
    calls = [("ok", 0), ("ok", 3), ("ok", 5), ("ok", 6), ("ok", True), ("ok", None), ("ok", [1]), ("ok", {"a": 1}), ("err", "FileNotFoundError"),
             ("err", "JSONDecodeError"), ("err", "KeyboardInterrupt"), ("err", "SystemExit:4"), ("err", "AttributeError")]
    for argv in argvs:
        for parse in parses:
            for call in (calls if parse[0] == "ok" and "func" in parse[1] else calls[:1]):
                for bp in (("ok", None),) if (argv, parse) != (None, parses[0]) else (("ok", None), ("err", "ImportError")):
                    ext = {"build_parser": [[[], bp]], "parse_args": [[[argv], parse]]}
                    if parse[0] == "ok":
                        ext["call_func"] = [[[parse[1]], call]]
                    out.append(("main", [argv], ext))
    return out
