"""Extraction of facts from /repo's current working tree into lean/Rbacx/Generated.lean (DESIGN §3.1).

Constants are obtained by *probing behaviour* where that is possible (robust against refactoring)
and by `ast` where it is not.  Everything extracted is also dumped to lean/generated.json so the
harness hands the very same values to the model driver."""
from __future__ import annotations

import ast
import json
import os
import sys

REPO = os.environ.get("RBACX_REPO", "/repo")
VERIF = os.path.dirname(os.path.dirname(os.path.abspath(__file__)))
SRC = os.path.join(REPO, "src", "rbacx")


def _probe_algo(fn) -> str:
    """Classify the combining behaviour of `fn(policy_without_algorithm)(env)` by two probes."""
    def rule(rid, eff):
        return {"id": rid, "effect": eff, "actions": ["read"], "resource": {"type": "doc"}}
    env = {"subject": {"id": "u", "roles": [], "attrs": {}}, "action": "read",
           "resource": {"type": "doc", "id": "1", "attrs": {}}, "context": {}}
    a = fn({"rules": [rule("p", "permit"), rule("d", "deny")]}, env).get("decision")
    b = fn({"rules": [rule("d", "deny"), rule("p", "permit")]}, env).get("decision")
    return {("deny", "deny"): "deny-overrides", ("permit", "permit"): "permit-overrides",
            ("permit", "deny"): "first-applicable"}.get((a, b), f"unknown:{a}/{b}")


def _lint_default() -> str:
    path = os.path.join(SRC, "dsl", "lint.py")
    tree = ast.parse(open(path, encoding="utf-8").read())
    names = {"deny-overrides", "permit-overrides", "first-applicable"}
    for node in ast.walk(tree):
        if isinstance(node, ast.FunctionDef) and node.name == "analyze_policy":
            for sub in ast.walk(node):
                if isinstance(sub, ast.Assign) and any(isinstance(t, ast.Name) and t.id in ("algorithm", "algo")
                                                       for t in sub.targets):
                    lits = [c.value for c in ast.walk(sub.value) if isinstance(c, ast.Constant) and c.value in names]
                    if lits:
                        return lits[0]
    return "unknown:lint"


def _atomic_write_program() -> list[dict]:
    """syscall-level step list of the real `atomic_write` (one traced run in a scratch directory): which
    call, which path (temp / target), which region of the try / with / finally statement (C16)"""
    import awtrace
    return awtrace.extract_program(awtrace.load_module(REPO))


def extract() -> dict:
    sys.path.insert(0, os.path.join(REPO, "src"))
    from rbacx.core import compiler, policy, policyset
    consts = {
        "interp": _probe_algo(lambda p, e: policy.evaluate(p, e)),
        "set": _probe_algo(lambda p, e: policyset.decide({"policies": [{"rules": [r]} for r in p["rules"]]}, e)),
        "compiler": _probe_algo(lambda p, e: compiler.compile(p)(e)),
        "lint": _lint_default(),
    }
    return {"consts": consts, "atomic_write_program": _atomic_write_program()}


def lean_str(s: str) -> str:
    return json.dumps(s, ensure_ascii=False)


def lean_bool(b) -> str:
    return "true" if b else "false"


def lean_aw_step(s: dict) -> str:
    """one traced step as a `Rbacx.AWStep` literal (unknown calls / regions become shape violations)"""
    loc = lambda x: "." + (x if x in ("temp", "target") else "other")  # noqa: E731
    op = s.get("op")
    if op == "mkstemp":
        o = f".mkstemp {lean_bool(s.get('same_dir'))}"
    elif op in ("fdopen", "openTrunc", "close", "other"):
        o = f".{op} {loc(s.get('loc'))}"
    elif op == "write":
        o = f".write {loc(s.get('loc'))} {int(s.get('chunk', 0))}"
    elif op == "replace":
        o = f".replace {loc(s.get('src'))} {loc(s.get('dst'))}"
    elif op == "unlink":
        o = f".unlink {loc(s.get('loc'))} {lean_bool(s.get('swallow'))}"
    else:
        o = ".other .other"
    region = s.get("region") if s.get("region") in ("outside", "body", "withBody", "withExit", "fin") else "outside"
    return f"⟨{o}, .{region}⟩"


def render(facts: dict) -> str:
    c = facts["consts"]
    aw = ",\n   ".join(lean_aw_step(s) for s in facts.get("atomic_write_program", []))
    return f"""import Rbacx.Model.Compiler
import Rbacx.Model.FileSource
/-! GENERATED on every run by harness/extract.py from /repo's working tree. Do not edit. -/
namespace Rbacx.Generated

def consts : Rbacx.Consts :=
  {{ interpDefault := {lean_str(c['interp'])}, setDefault := {lean_str(c['set'])},
    compilerDefault := {lean_str(c['compiler'])}, lintDefault := {lean_str(c['lint'])} }}

/-- the syscall-level steps of `rbacx.store.file_store.atomic_write`, traced from one real run (C16) -/
def atomicWriteProgram : List Rbacx.AWStep :=
  [{aw}]

end Rbacx.Generated
"""


def write(facts: dict) -> bool:
    """Write Generated.lean / generated.json if changed; return True if something changed."""
    changed = False
    for path, text in ((os.path.join(VERIF, "lean", "Rbacx", "Generated.lean"), render(facts)),
                       (os.path.join(VERIF, "lean", "generated.json"), json.dumps(facts, indent=1, sort_keys=True) + "\n")):
        old = open(path, encoding="utf-8").read() if os.path.exists(path) else None
        if old != text:
            with open(path, "w", encoding="utf-8") as f:
                f.write(text)
            changed = True
    return changed


if __name__ == "__main__":
    f = extract()
    write(f)
    print(json.dumps(f))
