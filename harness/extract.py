"""Extraction of facts from /repo's current working tree into lean/Rbacx/Generated.lean (DESIGN §3.1).

Each module under harness/extractors/ contributes one key: `KEY`, `IMPORTS` (Lean modules its rendering needs),
`extract(repo) -> json-able` and `render(facts) -> Lean declarations`.  Constants are obtained by *probing behaviour*
where possible (robust against refactoring) and by `ast`/tracing where not.  Everything extracted is also dumped
to lean/generated.json so the harness hands the very same values to the model driver."""
from __future__ import annotations

import importlib
import json
import os
import pkgutil
import sys

REPO = os.environ.get("RBACX_REPO", "/repo")
VERIF = os.path.dirname(os.path.dirname(os.path.abspath(__file__)))
sys.path.insert(0, os.path.dirname(os.path.abspath(__file__)))


def _one_line(msg) -> str:
    return " ".join(str(msg).split())


def _plugins():
    import extractors
    mods = []
    for m in sorted(pkgutil.iter_modules(extractors.__path__), key=lambda m: m.name):
        mods.append(importlib.import_module(f"extractors.{m.name}"))
    # alphabetical, except that a plugin whose rendering refers to the renderings of others says so with `ORDER = 1` (rendered last)
    return sorted(mods, key=lambda mod: getattr(mod, "ORDER", 0))


def extract() -> dict:
    sys.path.insert(0, os.path.join(REPO, "src"))
    facts = {}
    for mod in _plugins():
        try:
            facts[mod.KEY] = mod.extract(REPO)
        except Exception as e:  # noqa: BLE001  (an extractor that cannot read the tree is reported, never fatal here)
            # one line: the message is rendered into a `--` comment of Generated.lean (a newline would end the comment and break the file)
            facts[mod.KEY] = {"extraction_failed": " ".join(f"{type(e).__name__}: {e}".split())}
    return facts


def render(facts: dict) -> str:
    imports, bodies = ["Rbacx.Model.Compiler"], []
    for mod in _plugins():
        f = facts.get(mod.KEY)
        if isinstance(f, dict) and "extraction_failed" in f:
            bodies.append(f"-- extraction of {mod.KEY} failed: {_one_line(f['extraction_failed'])}\n")
            continue
        for i in mod.IMPORTS:
            if i not in imports:
                imports.append(i)
        bodies.append(mod.render(f))
    head = "\n".join(f"import {i}" for i in imports)
    return (head + "\n/-! GENERATED on every run by harness/extract.py from /repo's working tree. Do not edit. -/\n"
            "namespace Rbacx.Generated\n\n" + "\n".join(bodies) + "\nend Rbacx.Generated\n")


def section_of_line(facts: dict, line: int) -> str | None:
    """KEY of the plugin whose rendering contains line `line` (1-based) of the Generated.lean that `render(facts)` produces"""
    text = render(facts)
    pos = 0
    for mod in _plugins():
        f = facts.get(mod.KEY)
        body = (f"-- extraction of {mod.KEY} failed: {_one_line(f['extraction_failed'])}\n" if isinstance(f, dict) and "extraction_failed" in f
                else mod.render(f))
        at = text.find(body, pos)
        if at < 0:
            continue
        first = text.count("\n", 0, at) + 1
        last = first + body.count("\n")
        if first <= line <= last:
            return mod.KEY
        pos = at + len(body)
    return None


def write(facts: dict) -> bool:
    """Write Generated.lean / generated.json if changed; return True if something changed."""
    changed = False
    lean = os.environ.get("VERIF_LEAN_DIR") or os.path.join(VERIF, "lean")
    for path, text in ((os.path.join(lean, "Rbacx", "Generated.lean"), render(facts)),
                       (os.path.join(lean, "generated.json"), json.dumps(facts, indent=1, sort_keys=True, default=str) + "\n")):
        old = open(path, encoding="utf-8").read() if os.path.exists(path) else None
        if old != text:
            with open(path, "w", encoding="utf-8") as f:
                f.write(text)
            changed = True
    return changed


if __name__ == "__main__":
    f = extract()
    write(f)
    print(json.dumps(f, default=str)[:2000])
