"""Syscall-level step list of the real `atomic_write`, traced from one run in a scratch directory — C16."""
from __future__ import annotations

KEY = "atomic_write_program"
IMPORTS = ["Rbacx.Model.FileSource"]


def extract(repo: str) -> list:
    import awtrace
    return awtrace.extract_program(awtrace.load_module(repo))


def lean_bool(b) -> str:
    return "true" if b else "false"


def lean_aw_step(s: dict) -> str:
    """one traced step as a `Rbacx.AWStep` literal (unknown calls / regions become shape violations)"""
    loc = lambda x: "." + (x if x in ("temp", "target") else "other")  # noqa: E731
    op = s.get("op")
    if op == "mkstemp":
        o = f".mkstemp {lean_bool(s.get('same_dir'))}"
    elif op in ("fdopen", "openTrunc", "close", "other"):
        o = f".{op} {loc(s.get('loc'))}"
    elif op == "write":
        o = f".write {loc(s.get('loc'))} {int(s.get('chunk', 0))}"
    elif op == "replace":
        o = f".replace {loc(s.get('src'))} {loc(s.get('dst'))}"
    elif op == "unlink":
        o = f".unlink {loc(s.get('loc'))} {lean_bool(s.get('swallow'))}"
    else:
        o = ".other .other"
    region = s.get("region") if s.get("region") in ("outside", "body", "withBody", "withExit", "fin") else "outside"
    return f"⟨{o}, .{region}⟩"



def render(prog: list) -> str:
    aw = ",\n   ".join(lean_aw_step(s) for s in prog)
    return f"""/-- the syscall-level steps of `rbacx.store.file_store.atomic_write`, traced from one real run (C16) -/
def atomicWriteProgram : List Rbacx.AWStep :=
  [{aw}]
"""
