"""Lock discipline of DefaultInMemoryCache and its purge prefix (AST only) — C15."""
from __future__ import annotations

import ast
import json
import os

KEY = "cache"
IMPORTS: list[str] = []
_SRC = [""]

# ----------------------------------------------------------------------------- C15: cache lock discipline (AST only)

_CACHE_CLASS = "DefaultInMemoryCache"
_CACHE_FIELD = "_data"
_CACHE_LOCK = "_lock"


def _is_self_attr(node, attr: str) -> bool:
    return isinstance(node, ast.Attribute) and node.attr == attr and isinstance(node.value, ast.Name) and node.value.id == "self"


def _access_kind(parents: list, node) -> str:
    """name the operation performed on `self._data` at this occurrence"""
    par = parents[-1] if parents else None
    if isinstance(par, ast.Attribute) and par.value is node:            # self._data.<method>
        return par.attr
    if isinstance(par, ast.Subscript) and par.value is node:            # self._data[k]
        return {ast.Store: "setitem", ast.Del: "delitem"}.get(type(par.ctx), "getitem")
    if isinstance(par, ast.Call) and isinstance(par.func, ast.Name):    # len(self._data), list(self._data)
        return par.func.id
    if isinstance(par, ast.Compare):
        return "contains"
    if isinstance(node.ctx, ast.Store):
        return "rebind"
    return "use"


def _cache_lock_facts() -> dict:
    """For every method of DefaultInMemoryCache: its accesses to `self._data` in source order, each flagged
    "inside THE `with self._lock:` block of the method" (the first such block, and only if that block is not
    inside a loop; an access in any other lock block counts as not covered, so that a run of flagged accesses
    is one critical section).  Calls of private helpers are inlined at the call site: an access made by the
    helper is covered iff the call site is (or the helper takes the lock itself).  Also: the purge prefix."""
    path = os.path.join(_SRC[0], "core", "cache.py")
    tree = ast.parse(open(path, encoding="utf-8").read())
    cls = next((n for n in ast.walk(tree) if isinstance(n, ast.ClassDef) and n.name == _CACHE_CLASS), None)
    if cls is None:
        return {"methods": [["<class-not-found>", [["missing", False]]]], "detail": {}, "helper_calls": [],
                "purge_prefix": 128, "purge_prefix_note": "class not found"}
    funcs = {n.name: n for n in cls.body if isinstance(n, (ast.FunctionDef, ast.AsyncFunctionDef))}
    helper_calls: list = []

    def scan(fn, covered_by_caller: bool, depth: int, caller: str) -> list:
        out: list = []
        state = {"first_lock_seen": False}

        def visit(node, parents, in_lock, in_loop):
            if isinstance(node, (ast.With, ast.AsyncWith)):
                is_lock = any(_is_self_attr(it.context_expr, _CACHE_LOCK) for it in node.items)
                for it in node.items:
                    visit(it.context_expr, parents + [node], in_lock, in_loop)
                inner = in_lock
                if is_lock:
                    if not state["first_lock_seen"] and not in_loop:
                        inner = True
                    state["first_lock_seen"] = True
                for st in node.body:
                    visit(st, parents + [node], inner, in_loop)
                return
            if isinstance(node, (ast.FunctionDef, ast.AsyncFunctionDef, ast.Lambda)) and node is not fn:
                # a nested function may run later, outside the lock
                for ch in ast.iter_child_nodes(node):
                    visit(ch, parents + [node], False, in_loop)
                return
            if _is_self_attr(node, _CACHE_LOCK) and isinstance(node.ctx, (ast.Store, ast.Del)):
                out.append({"access": "lock-rebind", "line": node.lineno, "in": fn.name, "under_lock": False})
            if _is_self_attr(node, _CACHE_FIELD):
                out.append({"access": _access_kind(parents, node), "line": node.lineno, "in": fn.name,
                            "under_lock": bool(in_lock or covered_by_caller)})
            if isinstance(node, ast.Call) and _is_self_attr(node.func, node.func.attr if isinstance(node.func, ast.Attribute) else "") \
                    and node.func.attr in funcs and node.func.attr != fn.name:
                for a in list(node.args) + [k.value for k in node.keywords]:
                    visit(a, parents + [node], in_lock, in_loop)
                helper_calls.append({"helper": node.func.attr, "caller": caller, "line": node.lineno,
                                     "under_lock": bool(in_lock or covered_by_caller)})
                if depth < 4:
                    out.extend(scan(funcs[node.func.attr], bool(in_lock or covered_by_caller), depth + 1, caller))
                return
            loop = in_loop or isinstance(node, (ast.For, ast.AsyncFor, ast.While, ast.ListComp, ast.SetComp,
                                                ast.DictComp, ast.GeneratorExp))
            for ch in ast.iter_child_nodes(node):
                visit(ch, parents + [node], in_lock, loop)

        for st in fn.body:
            visit(st, [fn], False, False)
        return out

    detail = {}
    for name, fn in funcs.items():
        if name.startswith("_"):
            continue                     # __init__ runs before the object is shared; helpers are inlined
        detail[name] = scan(fn, False, 0, name)
    # private helpers nobody calls under the class's own methods would be reachable only from outside: list them raw
    called = {c["helper"] for c in helper_calls}
    for name, fn in funcs.items():
        if name.startswith("_") and not name.startswith("__") and name not in called:
            detail[name] = scan(fn, False, 0, name)
    methods = [[m, [[a["access"], a["under_lock"]] for a in accs]] for m, accs in sorted(detail.items())]

    # purge prefix: the `[:N]` slice the purge helper iterates over (None = whole dict, 0 = no purge at all)
    prefix, note = 128, "unrecognised purge shape; default assumed"
    purge_fn = next((f for n, f in funcs.items() if "purge" in n), None)
    set_calls_purge = any(c["caller"] == "set" and "purge" in c["helper"] for c in helper_calls)
    if purge_fn is None or not set_calls_purge:
        inline = [n for n in ast.walk(funcs["set"]) if isinstance(n, ast.For)] if "set" in funcs else []
        if not inline:
            prefix, note = 0, "set() does not purge"
    else:
        loops = [n for n in ast.walk(purge_fn) if isinstance(n, ast.For)]
        scan_loop = next((l for l in loops if any(_is_self_attr(x, _CACHE_FIELD) for x in ast.walk(l.iter))), None)
        if scan_loop is not None:
            it = scan_loop.iter
            if isinstance(it, ast.Subscript) and isinstance(it.slice, ast.Slice) and it.slice.lower is None \
                    and it.slice.step is None and isinstance(it.slice.upper, ast.Constant) \
                    and isinstance(it.slice.upper.value, int) and it.slice.upper.value >= 0:
                prefix, note = it.slice.upper.value, "slice [:N] of the scanned items"
            elif not any(isinstance(x, ast.Subscript) for x in ast.walk(it)):
                prefix, note = None, "whole dict scanned"
    return {"methods": methods, "detail": detail, "helper_calls": helper_calls, "purge_prefix": prefix,
            "purge_prefix_note": note}



def extract(repo: str) -> dict:
    _SRC[0] = os.path.join(repo, "src", "rbacx")
    return _cache_lock_facts()


def render(facts: dict) -> str:
    s = lambda x: json.dumps(x, ensure_ascii=False)  # noqa: E731
    cm = facts.get("methods", [])
    cache_methods = "[" + ",\n   ".join(
        "(" + s(m) + ", [" + ", ".join(f"({s(a)}, {'true' if b else 'false'})" for a, b in accs) + "])"
        for m, accs in cm) + "]"
    pp = facts.get("purge_prefix", 128)
    purge_prefix = "none" if pp is None else f"some {int(pp)}"
    return f"""/-- C15: per public method of DefaultInMemoryCache, its accesses to `self._data` (helpers inlined) and whether
    each lies inside the method's single `with self._lock:` block -/
def cacheMethods : List (String × List (String × Bool)) :=
  {cache_methods}

/-- C15: how many leading entries `_purge_expired_unlocked` inspects (none = all) -/
def cachePurgePrefix : Option Nat := {purge_prefix}
"""
