"""Default combining algorithms on every path, obtained by probing behaviour (robust against refactoring) — C17."""
from __future__ import annotations

import ast
import json
import os

KEY = "consts"
IMPORTS = ["Rbacx.Model.Compiler"]

def _probe_algo(fn) -> str:
    """Classify the combining behaviour of `fn(policy_without_algorithm)(env)` by two probes."""
    def rule(rid, eff):
        return {"id": rid, "effect": eff, "actions": ["read"], "resource": {"type": "doc"}}
    env = {"subject": {"id": "u", "roles": [], "attrs": {}}, "action": "read",
           "resource": {"type": "doc", "id": "1", "attrs": {}}, "context": {}}
    a = fn({"rules": [rule("p", "permit"), rule("d", "deny")]}, env).get("decision")
    b = fn({"rules": [rule("d", "deny"), rule("p", "permit")]}, env).get("decision")
    return {("deny", "deny"): "deny-overrides", ("permit", "permit"): "permit-overrides",
            ("permit", "deny"): "first-applicable"}.get((a, b), f"unknown:{a}/{b}")


_SRC = [""]


def _lint_default() -> str:
    path = os.path.join(_SRC[0], "dsl", "lint.py")
    tree = ast.parse(open(path, encoding="utf-8").read())
    names = {"deny-overrides", "permit-overrides", "first-applicable"}
    for node in ast.walk(tree):
        if isinstance(node, ast.FunctionDef) and node.name == "analyze_policy":
            for sub in ast.walk(node):
                if isinstance(sub, ast.Assign) and any(isinstance(t, ast.Name) and t.id in ("algorithm", "algo")
                                                       for t in sub.targets):
                    lits = [c.value for c in ast.walk(sub.value) if isinstance(c, ast.Constant) and c.value in names]
                    if lits:
                        return lits[0]
    return "unknown:lint"



def extract(repo: str) -> dict:
    _SRC[0] = os.path.join(repo, "src", "rbacx")
    from rbacx.core import compiler, policy, policyset
    return {
        "interp": _probe_algo(lambda p, e: policy.evaluate(p, e)),
        "set": _probe_algo(lambda p, e: policyset.decide({"policies": [{"rules": [r]} for r in p["rules"]]}, e)),
        "compiler": _probe_algo(lambda p, e: compiler.compile(p)(e)),
        "lint": _lint_default(),
    }


def render(c: dict) -> str:
    s = lambda x: json.dumps(x, ensure_ascii=False)  # noqa: E731
    return f"""def consts : Rbacx.Consts :=
  {{ interpDefault := {s(c['interp'])}, setDefault := {s(c['set'])},
    compilerDefault := {s(c['compiler'])}, lintDefault := {s(c['lint'])} }}
"""
