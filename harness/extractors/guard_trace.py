"""Per-thread shared-access sequences of the real Guard (miss path, hit path, set_policy), traced from single-threaded
runs — the programs the interleaving model of C09 runs (DESIGN §3.1)."""
from __future__ import annotations

import json

KEY = "guard_programs"
IMPORTS: list[str] = []

POL = {"algorithm": "deny-overrides", "rules": [{"id": "r", "effect": "permit", "actions": ["read"], "resource": {"type": "doc"}}]}


def extract(repo: str) -> dict:
    import threading

    import guardtrace
    from rbacx.core.cache import DefaultInMemoryCache
    from rbacx.core.engine import Guard
    from rbacx.core.model import Action, Context, Resource, Subject

    g, logs, _ = guardtrace.make_traced_guard(Guard, dict(POL), DefaultInMemoryCache(16))
    me = threading.get_ident()

    def take():
        out = list(logs.get(me, []))
        logs[me] = []
        return out
    args = (Subject("u"), Action("read"), Resource("doc", "1"), Context({}))
    take()
    g.evaluate_sync(*args)
    miss = take()
    g.evaluate_sync(*args)
    hit = take()
    g.set_policy(dict(POL, algorithm="permit-overrides"))
    upd = take()
    return {"eval_miss": miss, "eval_hit": hit, "set_policy": upd}


def render(f: dict) -> str:
    s = lambda xs: "[" + ", ".join(json.dumps(x) for x in xs) + "]"  # noqa: E731
    return f"""/-- C09: shared accesses of one evaluation (cache miss / hit) and of one set_policy call, in program order,
    traced from the real Guard -/
def guardEvalMiss : List String := {s(f.get('eval_miss', []))}
def guardEvalHit : List String := {s(f.get('eval_hit', []))}
def guardSetPolicy : List String := {s(f.get('set_policy', []))}
"""
