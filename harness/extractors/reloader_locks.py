"""Blocking skeleton (lock / helper thread / polling thread / join) of HotReloader's entry points, traced from real runs — C14."""
from __future__ import annotations

KEY = "reloader_programs"
IMPORTS = ["Rbacx.Model.Locks"]


def extract(repo: str) -> dict:
    import importlib

    import reloadertrace
    loader = importlib.import_module("rbacx.policy.loader")
    from rbacx.core.engine import Guard
    return reloadertrace.scenarios(Guard, loader)


def _op(o) -> str:
    if o == "acq":
        return ".acq"
    if o == "rel":
        return ".rel"
    if isinstance(o, (list, tuple)) and o[0] in ("wait", "spawn"):
        return f".{o[0]} {int(o[1])}"
    return ".work"


def render(f: dict) -> str:
    items = []
    for name in sorted(f):
        sc = f[name]
        progs = sc["progs"]
        arms = "\n".join(f"    | {int(t)} => [" + ", ".join(_op(o) for o in progs[t]) + "]" for t in sorted(progs, key=int))
        items.append(f"""  ({name!r}.replace("'", ""), 3, {[int(r) for r in sc['roots']]}, fun t => match t with
{arms}
    | _ => [])""".replace(f"{name!r}.replace(\"'\", \"\")", '"' + name + '"'))
    body = ",\n".join(items)
    return f"""/-- C14: per scenario (entry point × calling context): number of threads, running threads, and each thread's
    lock / spawn / wait operations in program order (0 = caller, 1 = helper thread, 2 = polling thread) -/
def reloaderPrograms : List (String × Nat × List Nat × (Nat → List Rbacx.Locks.LOp)) := [
{body}
]
"""
