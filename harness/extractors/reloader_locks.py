"""Blocking skeleton (lock / helper thread / polling thread / join) of HotReloader's entry points, traced from real runs — C14."""
from __future__ import annotations

KEY = "reloader_programs"
IMPORTS = ["Rbacx.Model.Locks"]


def extract(repo: str) -> dict:
    """each scenario is traced in its own child process under a timeout: on a broken tree a scenario may deadlock, which
    is recorded with a marker program that fails the obligation (`hung`)"""
    import json
    import os
    import subprocess
    import sys

    import reloadertrace
    out = {}
    env = dict(os.environ, RBACX_REPO=repo, PYTHONDONTWRITEBYTECODE="1")
    for name in reloadertrace.SCENARIOS:
        try:
            p = subprocess.run([sys.executable, reloadertrace.__file__, name], capture_output=True, text=True, timeout=20, env=env)
            out.update(json.loads(p.stdout.strip().splitlines()[-1]))
        except subprocess.TimeoutExpired:
            out[name] = {"roots": [0], "progs": {"0": ["acq", ["wait", 1]], "1": ["acq", "rel"], "2": []}, "hung": True}
        except Exception as e:  # noqa: BLE001
            out[name] = {"roots": [0], "progs": {"0": ["rel"], "1": [], "2": []}, "error": f"{type(e).__name__}: {e}"}
    return out


def _op(o) -> str:
    if o == "acq":
        return ".acq"
    if o == "rel":
        return ".rel"
    if o == "ext":
        return ".ext"
    if isinstance(o, (list, tuple)) and o[0] in ("wait", "spawn"):
        return f".{o[0]} {int(o[1])}"
    return ".work"


def render(f: dict) -> str:
    items = []
    for name in sorted(f):
        sc = f[name]
        progs = sc["progs"]
        arms = "\n".join(f"    | {int(t)} => [" + ", ".join(_op(o) for o in progs[t]) + "]" for t in sorted(progs, key=int))
        items.append(f"""  ({name!r}.replace("'", ""), 3, {[int(r) for r in sc['roots']]}, fun t => match t with
{arms}
    | _ => [])""".replace(f"{name!r}.replace(\"'\", \"\")", '"' + name + '"'))
    body = ",\n".join(items)
    return f"""/-- C14: per scenario (entry point × calling context): number of threads, running threads, and each thread's
    lock / spawn / wait operations in program order (0 = caller, 1 = helper thread, 2 = polling thread) -/
def reloaderPrograms : List (String × Nat × List Nat × (Nat → List Rbacx.Locks.LOp)) := [
{body}
]
"""
