"""Mechanical translation of selected pure functions of the CURRENT source text into Lean (harness/pytolean.py) — C03, C05, C02.

The per-run obligation `Run/C03_translated.lean` proves these generated definitions equal to the hand-written model functions the
theorems are about (`resourceTypes`, `hasId`, `hasAttrs`, `categorize`, `compActions`, `matchActions`, `isApplicable`)."""
from __future__ import annotations

import os

KEY = "translated_source"
IMPORTS = ["Rbacx.Model.PyLib"]

TARGETS = [
    ("src/rbacx/core/compiler.py", ["_actions", "_resource_types", "_has_id", "_has_attrs", "_type_matches", "_categorize"]),
    ("src/rbacx/core/policy.py", ["match_actions"]),
    ("src/rbacx/core/policyset.py", ["_is_applicable"]),
    ("src/rbacx/store/policy_loader.py", ["_detect_format"]),
]


def extract(repo: str) -> dict:
    import pytolean
    out = {}
    for rel, names in TARGETS:
        src = open(os.path.join(repo, rel), encoding="utf-8").read()
        for name, text in pytolean.translate(src, names).items():
            out[name] = text
    return out


def render(f: dict) -> str:
    body = "\n".join(f[name] for _, names in TARGETS for name in names)
    return ("/-! C03/C05/C02: the current source text of these functions, translated statement by statement (harness/pytolean.py) -/\n"
            "namespace Src\n\n" + body + "\nend Src\n")
