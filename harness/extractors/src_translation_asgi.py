"""Mechanical translation of the ASGI MIDDLEWARE — `RbacxMiddleware.__call__` and `_send_json` (adapters/asgi.py, property C20) — from the
CURRENT source text into Lean, as ACTION TRACES (harness/pytolean_trace.py: the list of effects in program order + how the call ended).

* `Src.asgi_send_json o send status payload_json extra_headers` — `_send_json`: the two `await send(…)` messages; `payload` is only ever
  `json.dumps`ed, so the parameter is its JSON text.
* `Src.asgi_call o build_env guard_evaluate_async self_guard self_mode self_build_env self_add_headers scope` — `__call__`:
  `scope["rbacx_guard"] = self.guard` (effect `setItem`), the enforcement test, `self.build_env(scope)` and
  `await self.guard.evaluate_async(…)` as OUTCOME parameters (`.ok v` / `.error cls`; the 4-way unpacking belongs to the raising
  point), the diagnostic headers, `await self._send_json(send, 403, {"detail": "Forbidden"}, extra_headers=headers)` with the callee's
  trace spliced in and the literal body evaluated by CPython's `json.dumps` at translation time, `await self.app(scope, receive, send)`
  (effect `call "self.app"`).

The per-run obligation `Run/C20_translated.lean` proves `Src.asgi_call` equal to the encoding of the model's `asgiCall`
(Model/Asgi.lean) and re-derives the C20 clauses about the translated source; `Run/SrcEvalAsgi.lean` evaluates it for the differential
check `translated_vs_python` in harness/props/c20.py.  A plugin of its own: a change to asgi.py cannot break the other obligations."""
from __future__ import annotations

import os

KEY = "translated_asgi"
IMPORTS = ["Rbacx.Model.PyLib", "Rbacx.Model.PyAwait", "Rbacx.Model.PyTrace"]

FILE = "src/rbacx/adapters/asgi.py"
DECISION_FILE = "src/rbacx/core/decision.py"
CLASS = "RbacxMiddleware"
ENTRY = "__call__"
# python method → Lean name, callees first
METHODS = {"_send_json": "asgi_send_json", "__call__": "asgi_call"}
EXTERNALS = {"self.build_env": "build_env", "self.guard.evaluate_async": "guard_evaluate_async"}
COLLABORATORS = {"self.app": "self.app"}
EXT_RETURNS = {"self.guard.evaluate_async": "Decision"}


def extract(repo: str) -> dict:
    import pytolean_async as pa
    import pytolean_trace as pt
    src = open(os.path.join(repo, FILE), encoding="utf-8").read()
    decision = pa.dataclass_fields(open(os.path.join(repo, DECISION_FILE), encoding="utf-8").read())
    if "Decision" not in decision:
        raise pa.Unsupported(f"{DECISION_FILE}: no frozen dataclass Decision")
    cfg = pt.TraceCfg(EXTERNALS, COLLABORATORS, EXT_RETURNS, {"Decision": decision["Decision"]})
    try:
        out = pt.translate_class(src, CLASS, ENTRY, METHODS, cfg)
    except pa.Unsupported as e:
        raise pa.Unsupported(f"{CLASS} ({FILE}): {e}") from e
    out["decision_fields"] = decision["Decision"]
    return out


def render(f: dict) -> str:
    m = f["methods"][ENTRY]
    args = (["o"] if m["oracle"] else []) \
        + ["(fun " + " ".join(["_"] * arity) + f' => ext "{param}")' for _, param, arity in m["externals"]] \
        + [f'(self "{a}")' for a in m["attrs"]] \
        + [f'(arg "{p}")' for p, kind in m["params"] if kind == "value"]
    disp = ("/-- the entry method applied to inputs given BY NAME (for Run/SrcEvalAsgi.lean, generated so that it follows the current\n"
            "    signature): `ext p` = the outcome of the external call whose parameter is `p` (whatever its arguments), `self a` = the\n"
            "    attribute `self.a`, `arg p` = the value parameter `p` -/\n"
            "def evalAsgi (o : Oracle) (ext : String → Except String PyVal) (self : String → PyVal) (arg : String → PyVal) : Rbacx.PyT.Trace :=\n"
            f"  {' '.join([m['lean_name']] + args)}\n")
    return ("/-! C20: `RbacxMiddleware.__call__` / `_send_json` (adapters/asgi.py) as the source has them now, as action traces "
            "(harness/pytolean_trace.py, translate_class) -/\n"
            "namespace Src\n\n" + f["lean"] + disp + "\nend Src\n")
