"""Mechanical translation of the BUILT-IN DECISION CACHE — the methods `get`, `set`, `delete`, `clear` and the helper
`_purge_expired_unlocked` of `DefaultInMemoryCache` (core/cache.py) — from the CURRENT source text into Lean, in state-passing style
(harness/pytolean_methods.py; meaning of the OrderedDict operations: lean/Rbacx/Model/PyOrdDict.lean).

`Src.cache_<m> maxsize now… data args… : OrdDict × Outcome`: `data` is `self._data`, `maxsize` is `self._maxsize`, the clock readings
(`time.monotonic()`) are parameters in call-site order.  The per-run obligation `Run/C15_translated.lean` proves these equal to the
hand-written model `Rbacx.Cache.step` (Model/Cache.lean) the theorems `Rbacx.C15.*` are about; `Run/SrcEvalCache.lean` evaluates them
for the differential check `translated_vs_python` in harness/props/c15.py.  Also rendered: the purge prefix as THE literal of the
source (`Src.cache_purge_prefix`, the `[:N]` of the items loop in the purge helper; `none` = no slice) and the field names of the
`_Entry` dataclass (`Src.cache_entry_fields`).

A plugin of its own so that a change to cache.py which leaves the translatable subset fails C15's obligation only."""
from __future__ import annotations

import os

KEY = "translated_cache"
IMPORTS = ["Rbacx.Model.PyOrdDict"]

FILE = "src/rbacx/core/cache.py"
CLASS, STATE, LOCK, ENTRY = "DefaultInMemoryCache", "_data", "_lock", "_Entry"
HELPER = "_purge_expired_unlocked"
METHODS = [HELPER, "get", "set", "delete", "clear"]          # callees first
PREFIX = "cache_"


def extract(repo: str) -> dict:
    import pytolean
    import pytolean_methods
    src = open(os.path.join(repo, FILE), encoding="utf-8").read()
    out = pytolean_methods.translate_class(src, CLASS, STATE, LOCK, METHODS, PREFIX)
    if out["config"] != ["_maxsize"]:
        raise pytolean.Unsupported(f"configuration fields of {CLASS}: {out['config']} (expected _maxsize only)")
    loops = sorted({(s["method"], -1 if s["prefix"] is None else s["prefix"]) for s in out["slices"]})
    if len(loops) != 1 or loops[0][0] != HELPER:
        raise pytolean.Unsupported(f"expected exactly one loop over the dict's items, in {HELPER}; found {loops}")
    out["purge_prefix"] = None if loops[0][1] < 0 else loops[0][1]
    if ENTRY not in out["dataclasses"]:
        raise pytolean.Unsupported(f"dataclass {ENTRY} not found")
    out["entry_fields"] = out["dataclasses"][ENTRY]
    return out


def render(f: dict) -> str:
    import json
    body = "\n".join(f["defs"][m] for m in METHODS)
    pp = f["purge_prefix"]
    extra = (f"/-- the `[:N]` of the items loop in `{HELPER}`, as written in the source (none = no slice) -/\n"
             f"def cache_purge_prefix : Option Nat := {'none' if pp is None else f'some {int(pp)}'}\n\n"
             f"/-- the fields of the dataclass `{ENTRY}` in declaration order -/\n"
             f"def cache_entry_fields : List String := [{', '.join(json.dumps(x) for x in f['entry_fields'])}]\n")
    import pytolean
    rows = []
    for m in METHODS:
        nows = [x["param"] for x in f["sites"][m]]
        args = [pytolean.ident(a) for a in f["params"][m]]
        call = " ".join([PREFIX + pytolean.ident(m), "maxsize"] + nows + ["data"] + args)
        rows.append(f"  | {json.dumps(m)}, [{', '.join(nows)}], [{', '.join(args)}] => some ({call})")
    extra += ("\n/-- call a translated method by its Python name: clock readings in call-site order, then the arguments (used by the\n"
              "    evaluator Run/SrcEvalCache.lean; generated with the methods so that it follows their signatures) -/\n"
              "def cache_call (maxsize : Int) (method : String) (nows : List Int) (data : Rbacx.PyM.OrdDict) (args : List PyVal) :\n"
              f"    Option (Rbacx.PyM.OrdDict × Rbacx.PyM.Outcome) :=\n  match method, nows, args with\n" + "\n".join(rows) + "\n  | _, _, _ => none\n")
    return ("/-! C15: the methods of `DefaultInMemoryCache` (core/cache.py) as the source has them now, in state-passing style "
            "(harness/pytolean_methods.py) -/\nnamespace Src\n\n" + body + "\n" + extra + "\nend Src\n")
