"""Mechanical translation of the DECISION-CACHE PROTOCOL OF THE ENGINE (C08, C09) from the CURRENT source text of core/engine.py into Lean
(harness/pytolean_proto.py: externals that raise in the middle of a `try`, `try/finally`, attribute assignments, effect traces).

Targets (callees first):

* `guard_normalize_env`  — `Guard._normalize_env_for_cache` whole: `json.dumps(env, sort_keys=True, separators=(",", ":"), default=str,
  ensure_ascii=False)` — the keyword set is checked syntactically to be exactly this — is `Rbacx.PyP.dumpsCanon` = the model's `canonJson`
  on float-free values, the oracle parameter `dumps_other` elsewhere; a raising call falls back to `repr(env)` (oracle `repr_of`).
* `guard_cache_key`      — `Guard._cache_key` whole: `None` for a falsy etag, else `f"{etag}:{normalised env}"`.
* `engine_cache_proto`   — the statements of `Guard._evaluate_core_async` BETWEEN the env range and the gate range of
  `src_translation_engine` (from the statement after `if self.strict_types: …` to the one before `decision_str = …`): lookup, decision,
  conditional store.  Externals: `cache.get`, `cache.set` (labelled: they appear in the trace), `self._decide_async` (awaited).
  `self._policy_gen` is read twice: two inputs.  `self._cache_key(env)` is the translated `guard_cache_key`.  Result: `Res` = (raw |
  escaped exception, the cache calls in order).
* `guard_set_policy`     — `Guard.set_policy` as a state transformer over (`_policy_gen`, `policy`, `policy_etag`, `_compiled`) with
  `_recompute_etag` and `clear_cache` translated in place; externals: `json.dumps(policy, sort_keys=True).encode("utf-8")`,
  `hashlib.sha3_256(raw).hexdigest()`, `compile_policy` (with the Bool `compile_policy_present` for the optional import),
  `cache.clear`; the trace records lock acquire/release, reads/writes of the four shared attributes and the cache call — the
  vocabulary of the access tracer (harness/guardtrace.py), i.e. of C09's thread programs.

Obligation `Run/C08_translated.lean`; evaluator `Run/SrcEvalCacheProto.lean` (dispatcher `Src.evalCacheProto` rendered here);
comparison `translated_vs_python` in harness/props/c08.py.  A plugin of its own: a change to these statements cannot break the
obligations about the other translated pieces (C01_translated reads `engine_env` / `engine_gate` only)."""
from __future__ import annotations

import os

KEY = "translated_cacheproto"
IMPORTS = ["Rbacx.Model.PyLib", "Rbacx.Model.PyAwait", "Rbacx.Model.PyProto"]

FILE = "src/rbacx/core/engine.py"
SHARED = ("policy", "policy_etag", "_compiled", "_policy_gen")
ORDER_OF_TARGETS = ["guard_normalize_env", "guard_cache_key", "engine_cache_proto", "guard_set_policy"]


def targets():
    """[(Target, how to build its Cfg from the results so far)] — callees first"""
    import pytolean_proto as pp
    key_patterns = dict(patterns=("json_dumps_canon",), use_repr=True)
    return [
        (pp.Target("pure", "Guard._normalize_env_for_cache", "guard_normalize_env"),
         lambda done: pp.Cfg(**key_patterns)),
        (pp.Target("pure", "Guard._cache_key", "guard_cache_key", attrs=("policy_etag",)),
         lambda done: pp.Cfg(**key_patterns, methods={"_normalize_env_for_cache": pp.method_ref(done["guard_normalize_env"])})),
        (pp.Target("range", "Guard._evaluate_core_async", "engine_cache_proto",
                   attrs=("cache", "_policy_gen#1", "_policy_gen#2", "policy_etag", "cache_ttl"),
                   start="after:if self.strict_types", last="before:decision_str =", occurrence_attrs=("_policy_gen",)),
         lambda done: pp.Cfg(**key_patterns, methods={"_cache_key": pp.method_ref(done["guard_cache_key"])},
                             externals={"cache.get": pp.Ext("cache_get", 1, "cache.get"),
                                        "cache.set": pp.Ext("cache_set", 3, "cache.set", kw=("ttl",)),
                                        "self._decide_async": pp.Ext("decide_async", 1)},
                             context_vars=("REL_CHECKER", "REL_LOCAL_CACHE"))),
        (pp.Target("method", "Guard.set_policy", "guard_set_policy", attrs=("cache",), splice=("_recompute_etag", "clear_cache"),
                   trace_locks=True, trace_attrs=SHARED),
         lambda done: pp.Cfg(patterns=("json_dumps_sorted_utf8", "sha3_256_hexdigest"),
                             externals={"compile_policy": pp.Ext("compile_policy", 1), "cache.clear": pp.Ext("cache_clear", 0, "cache.clear")},
                             presence={"compile_policy": "compile_policy_present"}, oracle=False)),
    ]


def configs(repo: str):
    """(source, {lean name: (Target, Cfg)}, {lean name: translation})"""
    import pytolean_proto as pp
    src = open(os.path.join(repo, FILE), encoding="utf-8").read()
    done, cfgs = {}, {}
    for target, mk in targets():
        cfg = mk(done)
        try:
            done[target.lean_name] = pp.translate(src, target, cfg)
        except pp.Unsupported as e:
            raise pp.Unsupported(f"{target.lean_name} ({target.designator}, {FILE}): {e}") from e
        cfgs[target.lean_name] = (target, cfg)
    return src, cfgs, done


def extract(repo: str) -> dict:
    _, _, done = configs(repo)
    return done


def render(f: dict) -> str:
    body = "\n".join(f[name]["lean"] for name in ORDER_OF_TARGETS)
    # dispatcher for Run/SrcEvalCacheProto.lean, generated so that it follows the current signatures: an external / oracle function is
    # answered by the outcome the harness supplies under the parameter's name, whatever its arguments
    alts = []
    for name in ORDER_OF_TARGETS:
        fr = f[name]
        n_in = len(fr["attrs"]) + len(fr["inputs"])
        xs = [f"a{i}" for i in range(n_in)]
        lead = []
        for p, ty in fr["lead"]:
            if ty == "Oracle":
                lead.append("o")
            elif ty == "Bool":
                lead.append(f'(flag "{p}")')
            elif ty == "PyVal → PyVal":
                lead.append(f'(fun _ => (ext "{p}").getD PyVal.none)')
            else:
                arity = ty.count("→")
                lead.append(f'(ext "{p}")' if arity == 0 else "(fun " + " ".join(["_"] * arity) + f' => ext "{p}")')
        call = " ".join([name] + lead + xs)
        if fr["kind"] == "pure":
            call = f"⟨Option.some ({call}), []⟩"
        alts.append(f'  if fn = "{name}" then (match args with | [{", ".join(xs)}] => some ({call}) | _ => none) else')
    disp = ("/-- the translated target `fn` applied to its inputs (attribute inputs, then plain inputs, in the order its doc comment lists them);\n"
            "    `ext p` = the outcome of the external whose parameter is `p`, `flag p` = the Bool parameter `p`; a `pure` target's value is\n"
            "    wrapped as a `Res` with an empty trace -/\n"
            "def evalCacheProto (o : Oracle) (ext : String → Option PyVal) (flag : String → Bool) (fn : String) (args : List PyVal) : Option Rbacx.PyP.Res :=\n"
            + "\n".join(alts) + "\n  none\n")
    return ("/-! C08/C09: the decision-cache protocol of `Guard` (core/engine.py) as the source has it now (harness/pytolean_proto.py) -/\n"
            "namespace Src\n\n" + body + "\n" + disp + "\nend Src\n")
