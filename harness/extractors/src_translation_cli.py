"""Mechanical translation of the PARSER DISPATCH of store/policy_loader.py (`_parse_yaml`, `parse_policy_text`, `parse_policy_bytes`) and of
the COMMAND FUNCTIONS of cli.py (`_read_text_from_path_or_stdin`, `_load_policy_from_arg`, `_lint_doc`, `_validate_doc`, `cmd_lint`,
`cmd_validate`, `cmd_check`, `main`) from the CURRENT source text into Lean (C17), by harness/pytolean_cli.py (exception-passing with
exception objects and the class hierarchy; meanings in lean/Rbacx/Model/PyCli.lean).

NOT translated — function parameters = the OUTCOME of the call, quantified over by the obligation: `open`+`read` (`open_read`),
`sys.stdin.read` (`stdin_read`), `json.loads`, `import yaml`, `yaml.safe_load`, `bytes.decode`, `validate_policy`, `analyze_policy`,
`analyze_policyset`, `_parse_require_attrs`; in `main` `build_parser` / `parser.parse_args` and the command function `args.func`.
`_detect_format` is a total function parameter which the obligation instantiates with `Src.detect_format` (translated by the plugin
`src_translation`, proved equal to the model's `detectFormat` by `Run/C17_translated.lean`).

Also SYNTACTIC facts the theorems are applied under (compared with the pinned expectation by harness/props/c17.py):
  * `imports`: cli.py takes `parse_policy_text`, `validate_policy`, `analyze_policy`, `analyze_policyset` from the modules expected;
  * `delivery`: how `FilePolicySource.load`, `HTTPPolicySource.load`, `S3PolicySource.load` reach a parser — the calls of
    `parse_policy_text` / `parse_policy_bytes` with the hints they pass, and every OTHER parser they reach (`.json()`, `json.loads`, `yaml.*`);
  * `validator`: what `dsl/validate.py::validate_policy` does — the resource it reads the schema from, the validator call and its arguments;
  * `default_literals`: the default-algorithm expression of `lint.analyze_policy`, `policy.evaluate`, `policyset.decide`, `compiler.compile`
    read as LITERALS from the source text (`<…>.get("algorithm") or "<literal>"`), independent of the behavioural probes of `consts.py`.

The per-run obligation `Run/C17_cli_translated.lean` proves the generated definitions equal to the model (`parsePolicyText`, `cliRun`,
`cliMain` of Model/Tools.lean) for EVERY combination of external outcomes; `Run/SrcEvalCli.lean` evaluates them for the differential check
`translated_cli_vs_python` in harness/props/c17.py, which drives the REAL functions with stub collaborators."""
from __future__ import annotations

import ast
import os

KEY = "translated_cli"
IMPORTS = ["Rbacx.Model.PyCli"]

LOADER = "src/rbacx/store/policy_loader.py"
CLI = "src/rbacx/cli.py"
LOADER_NAMES = ["_parse_yaml", "parse_policy_text", "parse_policy_bytes"]
CLI_NAMES = ["_read_text_from_path_or_stdin", "_load_policy_from_arg", "_lint_doc", "_validate_doc", "cmd_lint", "cmd_validate", "cmd_check"]
MAIN_NAMES = ["main"]
ALL_NAMES = LOADER_NAMES + CLI_NAMES + MAIN_NAMES

EXTERNALS = {"open_read": 1, "stdin_read": 0, "bytes_decode": 2, "json_loads": 1, "import_yaml": 0, "yaml_safe_load": 1,
             "_parse_require_attrs": 1, "validate_policy": 1, "analyze_policy": 2, "analyze_policyset": 2,
             "build_parser": 0, "parse_args": 1, "call_func": 1}
EXT_ORDER = ("_detect_format", "open_read", "stdin_read", "bytes_decode", "json_loads", "import_yaml", "yaml_safe_load", "_parse_require_attrs",
         "validate_policy", "analyze_policy", "analyze_policyset", "build_parser", "parse_args", "call_func")
LEAN_NAMES = {"main": "cli_main"}


def _cfg(loader_tree: ast.Module):
    import pytolean_cli
    det = next((n for n in loader_tree.body if isinstance(n, ast.FunctionDef) and n.name == "_detect_format"), None)
    if det is None:
        raise pytolean_cli.Unsupported("_detect_format not found")
    params = [a.arg for a in det.args.args] + [a.arg for a in det.args.kwonlyargs]
    if sorted(params) != ["content_type", "filename", "fmt"]:
        raise pytolean_cli.Unsupported(f"_detect_format has parameters {params}")
    # the pure translation `Src.detect_format` takes its parameters in the order of the `def`
    return pytolean_cli.Cfg(
        externals=dict(EXTERNALS),
        dotted={"json.loads": "json_loads", "yaml.safe_load": "yaml_safe_load", "sys.stdin.read": "stdin_read",
                "parser.parse_args": "parse_args", "args.func": "call_func"},
        methods={"decode": "bytes_decode"},
        imports={"yaml": "import_yaml"},
        pure_externals={"_detect_format": params},
        output_calls=("_print", "_format_issues_text", "sys.stdout.write", "sys.stderr.write", "parser.print_help"),
        open_read="open_read",
        lean_names=dict(LEAN_NAMES),
        order=EXT_ORDER,
    ), params


# ---------------------------------------------------------------------------------------------------------------- syntactic facts

def _imports(tree: ast.Module) -> dict:
    out = {}
    for n in tree.body:
        if isinstance(n, ast.ImportFrom):
            for a in n.names:
                out[a.asname or a.name] = "." * n.level + (n.module or "") + ":" + a.name
    return out


def _method(tree: ast.Module, cls: str, name: str) -> ast.FunctionDef:
    for n in tree.body:
        if isinstance(n, ast.ClassDef) and n.name == cls:
            for m in n.body:
                if isinstance(m, ast.FunctionDef) and m.name == name:
                    return m
    raise KeyError(f"{cls}.{name}")


def _delivery(repo: str) -> dict:
    out = {}
    for rel, cls in (("src/rbacx/store/file_store.py", "FilePolicySource"), ("src/rbacx/store/http_store.py", "HTTPPolicySource"),
                     ("src/rbacx/store/s3_store.py", "S3PolicySource")):
        tree = ast.parse(open(os.path.join(repo, rel), encoding="utf-8").read())
        imp = _imports(tree)
        load = _method(tree, cls, "load")
        calls, others = [], []
        for n in ast.walk(load):
            if isinstance(n, ast.Call):
                text = ast.unparse(n.func)
                if text in ("parse_policy_text", "parse_policy_bytes"):
                    calls.append({"fn": text, "from": imp.get(text), "positional": len(n.args),
                                  "hints": {k.arg: ast.unparse(k.value) for k in n.keywords}})
                elif text.endswith(".json") or text.startswith(("json.", "yaml.")) or text in ("_parse_yaml", "_detect_format", "safe_load", "loads"):
                    others.append(text + "()")
        out[f"{cls}.load"] = {"parser_calls": calls, "other_parsers": others}
    return out


def _validator(repo: str) -> dict:
    tree = ast.parse(open(os.path.join(repo, "src/rbacx/dsl/validate.py"), encoding="utf-8").read())
    fn = next(n for n in tree.body if isinstance(n, ast.FunctionDef) and n.name == "validate_policy")
    consts = [c.value for c in ast.walk(fn) if isinstance(c, ast.Constant) and isinstance(c.value, str) and c.value.endswith(".json")]
    pkg = [ast.unparse(n.args[0]) for n in ast.walk(fn) if isinstance(n, ast.Call) and ast.unparse(n.func) == "resources.files" and n.args]
    calls = [ast.unparse(n) for n in ast.walk(fn) if isinstance(n, ast.Call) and ast.unparse(n.func).startswith("jsonschema.")]
    handlers = [[ast.unparse(h.type) if h.type else "BaseException",
                 next((ast.unparse(s.exc.func) for s in h.body if isinstance(s, ast.Raise) and isinstance(s.exc, ast.Call)), None)]
                for t in ast.walk(fn) if isinstance(t, ast.Try) for h in t.handlers]
    last = fn.body[-1]
    return {"params": [a.arg for a in fn.args.args], "schema_files": consts, "schema_package": pkg, "validator_calls": calls,
            "import_guard": handlers, "last_statement": ast.unparse(last), "returns": [ast.unparse(n) for n in ast.walk(fn) if isinstance(n, ast.Return)]}


def _default_literal(repo: str, rel: str, fn_name: str) -> dict:
    """the string literal `L` of the expression `<…>.get("algorithm") or L` (possibly `algorithm or <…>.get("algorithm") or L`, wrapped in
    `str(…)` / `.lower()`) that the function assigns: read from the text, no code is run"""
    tree = ast.parse(open(os.path.join(repo, rel), encoding="utf-8").read())
    fn = next((n for n in ast.walk(tree) if isinstance(n, ast.FunctionDef) and n.name == fn_name), None)
    if fn is None:
        return {"error": f"{fn_name} not found"}
    found = []
    for n in ast.walk(fn):
        if isinstance(n, ast.BoolOp) and isinstance(n.op, ast.Or):
            gets = [v for v in n.values if isinstance(v, ast.Call) and isinstance(v.func, ast.Attribute) and v.func.attr == "get" and v.args
                    and isinstance(v.args[0], ast.Constant) and v.args[0].value == "algorithm"]
            last = n.values[-1]
            if gets and isinstance(last, ast.Constant) and isinstance(last.value, str):
                found.append({"literal": last.value, "expr": ast.unparse(n)})
    if len(found) != 1:
        return {"error": f"{len(found)} default-algorithm expressions in {fn_name}", "found": found}
    return found[0]


DEFAULT_SITES = {"lint": ("src/rbacx/dsl/lint.py", "analyze_policy"), "interp": ("src/rbacx/core/policy.py", "evaluate"),
                 "set": ("src/rbacx/core/policyset.py", "decide"), "compiler": ("src/rbacx/core/compiler.py", "compile")}


def extract(repo: str) -> dict:
    import pytolean_cli
    lsrc = open(os.path.join(repo, LOADER), encoding="utf-8").read()
    csrc = open(os.path.join(repo, CLI), encoding="utf-8").read()
    cfg, det_params = _cfg(ast.parse(lsrc))
    ctree = ast.parse(csrc)
    imports = {k: v for k, v in _imports(ctree).items() if k in ("parse_policy_text", "validate_policy", "analyze_policy", "analyze_policyset")}
    if imports.get("parse_policy_text") != ".store.policy_loader:parse_policy_text":
        raise pytolean_cli.Unsupported(f"cli.py does not take parse_policy_text from .store.policy_loader: {imports}")
    out = pytolean_cli.translate([(lsrc, LOADER_NAMES, cfg), (csrc, CLI_NAMES, cfg)])
    try:
        out.update({k: v for k, v in pytolean_cli.translate_main(csrc, cfg).items() if k != "__consts__"})
    except Exception as e:  # noqa: BLE001  (`main` is a stage of its own: the command functions stay translated when it leaves the subset)
        out["main"] = {"failed": f"{type(e).__name__}: {e}"}
    out["detect_format_params"] = det_params
    out["imports"] = imports
    out["delivery"] = _delivery(repo)
    out["validator"] = _validator(repo)
    out["default_literals"] = {k: _default_literal(repo, rel, fn) for k, (rel, fn) in DEFAULT_SITES.items()}
    return out


def render(f: dict) -> str:
    names = [n for n in ALL_NAMES if n in f and "lean" in f[n]]
    body = "\n".join(f[name]["lean"] for name in names)
    lits = f.get("default_literals", {})
    s = lambda k: '"' + str((lits.get(k) or {}).get("literal", "unreadable:" + k)).replace('"', "'") + '"'  # noqa: E731
    consts = f.get("__consts__", {})
    exits = "".join(f"def {k} : Int := {int(v)}\n" for k, v in sorted(consts.items()) if isinstance(v, int))
    failed = "".join(f"-- translation of {n} failed: {f[n]['failed']}\n" for n in ALL_NAMES if n in f and "failed" in f[n])
    return ("/-! C17: the parser dispatch of store/policy_loader.py and the command functions of cli.py as the source has them now "
            "(harness/pytolean_cli.py) -/\n"
            "namespace Src\n\n" + body + failed + "\nend Src\n\n"
            "/-! the exit statuses as cli.py defines them now -/\nnamespace CliExit\n" + exits + "end CliExit\n\n"
            "/-- the default-algorithm literals READ FROM THE SOURCE TEXT (`… .get(\"algorithm\") or <literal>`) -/\n"
            "def defaultLiterals : Rbacx.Consts :=\n"
            f"  {{ interpDefault := {s('interp')}, setDefault := {s('set')},\n"
            f"    compilerDefault := {s('compiler')}, lintDefault := {s('lint')} }}\n")
