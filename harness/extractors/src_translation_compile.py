"""Mechanical translation of THE COMPILER ITSELF — `compile(policy)` of core/compiler.py together with the closure `decide(env)` it
returns (C03) — from the CURRENT source text into ONE Lean definition `Src.compile_decide … policy env fuel` = `compile(policy)(env)`,
in exception-passing style (harness/pytolean_closure.py on top of pytolean_except.py; meanings of the new operations in
lean/Rbacx/Model/PyIdent.lean).

Translated: the set delegation (`if "policies" in policy: return lambda env: decide_policyset(policy, env)`), `rules = … or []`, the
default algorithm and its `.lower()`, the index-building loop (`by_action`, `star_rules`, `order` keyed by `id(rule)`), and the whole
closure: stringification of action / resource type, candidate collection with the `seen` set of identities, the sort back into
document order, the four buckets with their `matched` flags, the selection loop and the final `evaluate_policy({...}, env)`.
`id(rule)` is read as the POSITION of the rule in `rules` (pytolean_closure: objects observed by identity are (identity, value) pairs).

CALLED, not translated again (their own plugins / obligations): `_actions`, `_categorize` (plugin `src_translation`, total), `_is_strict`,
`match_resource` (`src_translation_target`, total), `evaluate` and `decide` (`src_translation_evaluators`, exception-passing; seen from
compiler.py under their import aliases), with the externals of `eval_condition` handed on.

THE DEFAULT ALGORITHM is emitted under a name of its own, `Src.compile_default : String`, and the definition refers to it by name: the
obligation `Run/C03_whole.lean` is stated for `compilerDefault := Src.compile_default`, whatever the literal is (known finding F1; the
literal is judged by `Run/C17_defaults.lean`).

`ORDER = 2`: rendered after `src_translation_evaluators` (`ORDER = 1`), whose definitions this one calls."""
from __future__ import annotations

import ast
import os

KEY = "translated_compile"
IMPORTS = ["Rbacx.Model.PyExcept", "Rbacx.Model.PyIdent"]
ORDER = 2

COMPILER = "src/rbacx/core/compiler.py"
POLICY = "src/rbacx/core/policy.py"
PURE = [(COMPILER, "_actions"), (COMPILER, "_categorize"), (POLICY, "_is_strict"), (POLICY, "match_resource")]


def _aliases(src: str) -> dict[str, tuple[str, str]]:
    """local name → (module, original name) for the relative imports of the module"""
    out = {}
    for n in ast.parse(src).body:
        if isinstance(n, ast.ImportFrom) and n.level == 1:
            for a in n.names:
                out[a.asname or a.name] = (n.module, a.name)
    return out


def _default_literal(fn: ast.FunctionDef) -> dict[int, str]:
    """the string constant `L` of `<x>.get("algorithm") or L`"""
    found = []
    for n in ast.walk(fn):
        if isinstance(n, ast.BoolOp) and isinstance(n.op, ast.Or) and len(n.values) == 2:
            g, lit = n.values
            if isinstance(g, ast.Call) and isinstance(g.func, ast.Attribute) and g.func.attr == "get" and len(g.args) == 1 \
                    and isinstance(g.args[0], ast.Constant) and g.args[0].value == "algorithm" \
                    and isinstance(lit, ast.Constant) and isinstance(lit.value, str):
                found.append(lit)
    if len(found) != 1:
        import pytolean
        raise pytolean.Unsupported(f"expected exactly one `….get(\"algorithm\") or <string literal>` in compile, found {len(found)}")
    return {id(found[0]): "compile_default"}


def extract(repo: str) -> dict:
    import pytolean
    import pytolean_closure
    from extractors import src_translation, src_translation_evaluators, src_translation_target
    from extractors.src_translation_evaluators import _signature
    pure_text = dict(src_translation.extract(repo))
    pure_text.update(src_translation_target.extract(repo))
    ev = src_translation_evaluators.extract(repo)
    srcs = {rel: open(os.path.join(repo, rel), encoding="utf-8").read() for rel in (COMPILER, POLICY)}
    al = _aliases(srcs[COMPILER])
    pure = {}
    for rel, name in PURE:
        if name not in pure_text:
            raise pytolean.Unsupported(f"callee {name} is not among the translated functions")
        if rel == POLICY and al.get(name) != ("policy", name):
            raise pytolean.Unsupported(f"compiler.py does not import {name} from .policy under its own name")
        params, defaults = _signature(srcs[rel], name)
        head = pure_text[name].split(":=")[0]
        pure[name] = {"lean": pytolean.ident(name), "oracle": "(o : Oracle)" in head, "params": params, "defaults": defaults}
    presigs = {}
    for local, (mod, orig) in al.items():
        if (mod, orig) in (("policy", "evaluate"), ("policyset", "decide")):
            e = ev[orig]
            presigs[local] = {"lean": e["lean_name"], "oracle": e["oracle"], "exts": e["externals"], "fuel": e["fuel"], "params": e["params"],
                              "defaults": e["defaults"]}
    externals = []
    for ps in presigs.values():
        for x, _ in ps["exts"]:
            if x not in externals:
                externals.append(x)
    out = pytolean_closure.translate(srcs[COMPILER], "compile", "compile_decide", externals, pure, presigs, named=_default_literal)
    out["aliases"] = {k: list(v) for k, v in al.items()}
    return out


def render(f: dict) -> str:
    return ("/-! C03: `compile(policy)` of core/compiler.py and the closure `decide(env)` it returns, as the source has them now, translated WHOLE "
            "as one definition `compile_decide` = `compile(policy)(env)` (harness/pytolean_closure.py) -/\n"
            "namespace Src\n\n" + f["lean"] + "\nend Src\n")
