"""Mechanical translation of the CONDITION EVALUATOR — `eval_condition` of core/policy.py and its helpers `_is_strict`, `_ensure_str`,
`_as_collection`, `_ensure_numeric_strict`, `resolve` (C04: operators have their documented meaning, no coercion; C06: ill-typed
operands make the rule not apply rather than raising) — from the CURRENT source text into Lean, in EXCEPTION-PASSING style
(harness/pytolean_except.py on top of harness/pytolean.py; meanings of the Python operations in lean/Rbacx/Model/PyExcept.lean).

Every definition has type `… → Except CondErr PyVal`: `.ok v` = returned `v`, `.error .typeMismatch` = raised ConditionTypeError,
`.error (.raised cls)` = raised the builtin exception `cls`.  NOT translated, function parameters instead (EXTERNALS):
`getattr` (the fallback of `resolve` on a non-dict: an oracle in the model, DESIGN §2.1 ii), `_parse_dt` (datetime parsing and
comparison of instants: oracle-provided in the model), and `rel_branch` = the statement `if 'rel' in cond: …` of `eval_condition`
(ContextVars, the relationship checker, the per-decision memo: hand-modelled, Model/Cond.lean `evalRel` / Model/RelMemo.lean).
The statements of `eval_condition` from `if '==' in cond:` to the end of `if 'between' in cond:` (the fifteen binary operators) are a
definition of their own, `Src.eval_binops`, which `Src.eval_condition` calls.

The per-run obligation `Run/C04_translated.lean` proves the generated definitions equal to the hand-written model (`resolve`,
`numericPair`, `evalBin`, `evalCond` of Model/Cond.lean); `Run/SrcEvalCond.lean` evaluates them for the differential check
`translated_vs_python` in harness/props/c04.py.

A plugin of its own (plugins are rendered in alphabetical order) so that a change to `eval_condition` which leaves the translatable
subset fails C04's obligation only, not those of C02/C03/C05/C07/C15/C17/C18."""
from __future__ import annotations

import os

KEY = "translated_cond"
IMPORTS = ["Rbacx.Model.PyExcept"]

FILE = "src/rbacx/core/policy.py"
NAMES = ["_is_strict", "_ensure_str", "_as_collection", "_ensure_numeric_strict", "resolve", "eval_condition"]   # callees first
EXTERNALS = ["getattr", "_parse_dt", "rel_branch"]
# `Src.is_strict` is the target matcher's (pure) translation of the same function: the exception-passing one gets a name of its own
LEAN_NAMES = {"_is_strict": "is_strict_e"}
RANGES = {"eval_condition": [
    {"first": "'rel' in cond", "last": "'rel' in cond", "as": ("external", "rel_branch")},
    {"first": "'==' in cond", "last": "'between' in cond", "as": ("fragment", "eval_binops")},
]}


def extract(repo: str) -> dict:
    import pytolean_except
    src = open(os.path.join(repo, FILE), encoding="utf-8").read()
    return pytolean_except.translate(src, NAMES, EXTERNALS, RANGES, LEAN_NAMES)


def render(f: dict) -> str:
    body = "\n".join(f[name]["lean"] for name in NAMES)
    return ("/-! C04/C06: the condition evaluator `eval_condition` and its helpers (core/policy.py) as the source has them now, in "
            "exception-passing style (harness/pytolean_except.py) -/\n"
            "namespace Src\n\n" + body + "\nend Src\n")
