"""Mechanical translation of the DECISION DISPATCH and of the CONSTRUCTOR of the engine (C09, C01, C03) from the CURRENT source text of
core/engine.py into Lean (harness/pytolean_decide.py on top of pytolean_proto.py).

Targets:

* `guard_decide_async` — `Guard._decide_async` whole, as a function to `Rbacx.PyP.Res`: `out` = the returned raw decision (`none`: an
  exception escaped), `trace` = the reads of the SHARED attributes `_compiled` / `policy` in program order.  Externals (outcome
  parameters): `run_compiled fn env` = `await asyncio.to_thread(fn, env)` for the local `fn`, `decide_policyset p env`, `decide_policy p env`
  = `await asyncio.to_thread(decide_policyset | decide_policy, self.policy, env)`.  EVERY textual read of `self._compiled` / `self.policy`
  is an input of its own (`self_compiled_1`; `self_policy_1` = the dispatch test, `self_policy_2` = the argument of the set evaluator,
  `self_policy_3` = the argument of the single-policy evaluator): the result says which read feeds which call.  `EVAL_LOOP.set/reset`
  (try/finally) and `loop = asyncio.get_running_loop()` are left out; `logger.exception` is a no-op.
* `guard_init` — `Guard.__init__` as a STATE CONSTRUCTOR: `out` = the final values of the fields in order of first assignment, with
  `_recompute_etag` translated in place; externals: `json.dumps(policy, sort_keys=True).encode("utf-8")`, `hashlib.sha3_256(raw).hexdigest()`,
  `compile_policy` (Bool `compile_policy_present` for the optional import), `BasicObligationChecker()` and `threading.Lock()` (arity-0 outcome
  parameters: the fresh object, or raised); the event-loop provisioning block is left out (assigns no field).

Obligation `Run/C09_decide_translated.lean`; evaluator `Run/SrcEvalDecide.lean` (dispatcher `Src.evalDecide` rendered here); comparison
`translated_vs_python` in harness/props/c09.py.  A plugin of its own (`KEY = translated_decide`): a change to these methods cannot break
the obligations about the other translated pieces."""
from __future__ import annotations

import os

KEY = "translated_decide"
IMPORTS = ["Rbacx.Model.PyLib", "Rbacx.Model.PyAwait", "Rbacx.Model.PyProto", "Rbacx.Model.PyDecide"]

FILE = "src/rbacx/core/engine.py"
SHARED = ("policy", "_compiled")
ORDER_OF_TARGETS = ["guard_decide_async", "guard_init"]
INIT_FIELDS = ["policy", "logger_sink", "metrics", "obligations", "role_resolver", "cache", "cache_ttl", "policy_etag", "_compiled", "strict_types",
               "relationship_checker", "_policy_lock", "_policy_gen"]


def targets():
    import pytolean_decide as pd
    return [
        (pd.Target("method", "Guard._decide_async", "guard_decide_async", attrs=("_compiled#1", "policy#1", "policy#2", "policy#3"),
                   trace_attrs=SHARED, occurrence_attrs=SHARED),
         pd.DCfg(threads={"<local>": pd.Ext("run_compiled", 2), "decide_policyset": pd.Ext("decide_policyset", 2),
                          "decide_policy": pd.Ext("decide_policy", 2)},
                 context_vars=("EVAL_LOOP",), oracle=False)),
        (pd.Target("method", "Guard.__init__", "guard_init", splice=("_recompute_etag",)),
         pd.DCfg(patterns=("json_dumps_sorted_utf8", "sha3_256_hexdigest"),
                 externals={"compile_policy": pd.Ext("compile_policy", 1), "BasicObligationChecker": pd.Ext("new_basic_checker", 0),
                            "threading.Lock": pd.Ext("new_lock", 0)},
                 presence={"compile_policy": "compile_policy_present"}, provisioning=True, oracle=False)),
    ]


def configs(repo: str):
    """(source, {lean name: (Target, Cfg)}, {lean name: translation})"""
    import pytolean_decide as pd
    src = open(os.path.join(repo, FILE), encoding="utf-8").read()
    done, cfgs = {}, {}
    for target, cfg in targets():
        try:
            done[target.lean_name] = pd.translate(src, target, cfg)
        except pd.pp.Unsupported as e:
            raise pd.pp.Unsupported(" ".join(f"{target.lean_name} ({target.designator}, {FILE}): {e}".split())) from e
        cfgs[target.lean_name] = (target, cfg)
    return src, cfgs, done


def extract(repo: str) -> dict:
    _, _, done = configs(repo)
    return done


def render(f: dict) -> str:
    body = "\n".join(f[name]["lean"] for name in ORDER_OF_TARGETS)
    alts = []
    for name in ORDER_OF_TARGETS:
        fr = f[name]
        n_in = len(fr["attrs"]) + len(fr["inputs"])
        xs = [f"a{i}" for i in range(n_in)]
        lead = []
        for p, ty in fr["lead"]:
            if ty == "Bool":
                lead.append(f'(flag "{p}")')
            else:
                arity = ty.count("→")
                vs = [f"x{i}" for i in range(arity)]
                lead.append(f'(ext "{p}" [])' if arity == 0 else "(fun " + " ".join(vs) + f' => ext "{p}" [' + ", ".join(vs) + "])")
        call = " ".join([name] + lead + xs)
        alts.append(f'  if fn = "{name}" then (match args with | [{", ".join(xs)}] => some ({call}) | _ => none) else')
    disp = ("/-- the translated target `fn` applied to its inputs (attribute inputs, then plain inputs, in the order its doc comment lists them);\n"
            "    `ext p args` = the outcome of the external whose parameter is `p` on these arguments, `flag p` = the Bool parameter `p` -/\n"
            "def evalDecide (ext : String → List PyVal → Option PyVal) (flag : String → Bool) (fn : String) (args : List PyVal) : Option Rbacx.PyP.Res :=\n"
            + "\n".join(alts) + "\n  none\n")
    return ("/-! C09/C01/C03: the decision dispatch `_decide_async` and the constructor `__init__` of `Guard` (core/engine.py) as the source has "
            "them now (harness/pytolean_decide.py) -/\nnamespace Src\n\n" + body + "\n" + disp + "\nend Src\n")
