"""Mechanical translation of the DECISION DISPATCH and of the CONSTRUCTOR of the engine (C09, C01, C03) from the CURRENT source text of
core/engine.py into Lean (harness/pytolean_decide.py on top of pytolean_proto.py).

Targets:

* `guard_decide_async` — `Guard._decide_async` whole, as a function to `Rbacx.PyP.Res`: `out` = the returned raw decision (`none`: an
  exception escaped), `trace` = the reads of the SHARED attributes `_compiled` / `policy` in program order.  Externals (outcome
  parameters): `run_compiled fn env` = `await asyncio.to_thread(fn, env)` for the local `fn`, `decide_policyset p env`, `decide_policy p env`
  = `await asyncio.to_thread(decide_policyset | decide_policy, self.policy, env)`.  EVERY textual read of `self._compiled` / `self.policy`
  is an input of its own (`self_compiled_1`; `self_policy_1` = the dispatch test, `self_policy_2` = the argument of the set evaluator,
  `self_policy_3` = the argument of the single-policy evaluator): the result says which read feeds which call.  `EVAL_LOOP.set/reset`
  (try/finally) and `loop = asyncio.get_running_loop()` are left out; `logger.exception` is a no-op.
* `guard_init` — `Guard.__init__` as a STATE CONSTRUCTOR: `out` = the final values of the fields in order of first assignment, with
  `_recompute_etag` translated in place; externals: `json.dumps(policy, sort_keys=True).encode("utf-8")`, `hashlib.sha3_256(raw).hexdigest()`,
  `compile_policy` (Bool `compile_policy_present` for the optional import), `BasicObligationChecker()` and `threading.Lock()` (arity-0 outcome
  parameters: the fresh object, or raised); the event-loop provisioning block is left out (assigns no field).

Obligation `Run/C09_decide_translated.lean`; evaluator `Run/SrcEvalDecide.lean` (dispatcher `Src.evalDecide` rendered here); comparison
`translated_vs_python` in harness/props/c09.py.  A plugin of its own (`KEY = translated_decide`): a change to these methods cannot break
the obligations about the other translated pieces."""
from __future__ import annotations

import os

KEY = "translated_decide"
IMPORTS = ["Rbacx.Model.PyLib", "Rbacx.Model.PyAwait", "Rbacx.Model.PyProto", "Rbacx.Model.PyDecide"]

FILE = "src/rbacx/core/engine.py"
SHARED = ("policy", "_compiled")
ORDER_OF_TARGETS = ["guard_decide_async", "guard_init"]
INIT_FIELDS = ["policy", "logger_sink", "metrics", "obligations", "role_resolver", "cache", "cache_ttl", "policy_etag", "_compiled", "strict_types",
               "relationship_checker", "_policy_lock", "_policy_gen"]


def targets():
    import pytolean_decide as pd
    return [
        (pd.Target("method", "Guard._decide_async", "guard_decide_async", attrs=("_compiled#1", "policy#1", "policy#2", "policy#3"),
                   trace_attrs=SHARED, occurrence_attrs=SHARED),
         pd.DCfg(threads={"<local>": pd.Ext("run_compiled", 2), "decide_policyset": pd.Ext("decide_policyset", 2),
                          "decide_policy": pd.Ext("decide_policy", 2)},
                 context_vars=("EVAL_LOOP",), oracle=False)),
        (pd.Target("method", "Guard.__init__", "guard_init", attrs=tuple(INIT_FIELDS), splice=("_recompute_etag",)),
         pd.DCfg(patterns=("json_dumps_sorted_utf8", "sha3_256_hexdigest"),
                 externals={"compile_policy": pd.Ext("compile_policy", 1), "BasicObligationChecker": pd.Ext("new_basic_checker", 0),
                            "threading.Lock": pd.Ext("new_lock", 0)},
                 presence={"compile_policy": "compile_policy_present"}, provisioning=True, oracle=False)),
    ]


def configs(repo: str):
    """(source, {lean name: (Target, Cfg)}, {lean name: translation})"""
    import pytolean_decide as pd
    src = open(os.path.join(repo, FILE), encoding="utf-8").read()
    done, cfgs = {}, {}
    for target, cfg in targets():
        try:
            done[target.lean_name] = pd.translate(src, target, cfg)
        except pd.pp.Unsupported as e:
            raise pd.pp.Unsupported(" ".join(f"{target.lean_name} ({target.designator}, {FILE}): {e}".split())) from e
        cfgs[target.lean_name] = (target, cfg)
    return src, cfgs, done


def program_target():
    """the cache range of `_evaluate_core_async` (the SAME statements as `engine_cache_proto` of src_translation_cacheproto) translated once
    more as the evaluator's ACCESS PROGRAM: lock acquire / release and the reads of `_policy_gen` are effects, `self._cache_key(env)` and
    `await self._decide_async(env)` are labelled external calls (`_cache_key`, `_decide_async`) — what they read is stated by
    `cacheKeyReads` (below) and by the trace of `guard_decide_async`"""
    import pytolean_decide as pd
    return (pd.Target("range", "Guard._evaluate_core_async", "engine_eval_program", attrs=("cache", "_policy_gen#1", "_policy_gen#2", "cache_ttl"),
                      start="after:if self.strict_types", last="before:decision_str =", trace_locks=True, trace_attrs=("_policy_gen",),
                      occurrence_attrs=("_policy_gen",)),
            pd.DCfg(externals={"self._cache_key": pd.Ext("cache_key", 1, "_cache_key"), "cache.get": pd.Ext("cache_get", 1, "cache.get"),
                               "cache.set": pd.Ext("cache_set", 3, "cache.set", kw=("ttl",)),
                               "self._decide_async": pd.Ext("decide_async", 1, "_decide_async")},
                    context_vars=("REL_CHECKER", "REL_LOCAL_CACHE"), oracle=False))


def cache_key_reads(src: str) -> list[str]:
    """the attributes of `self` that `Guard._cache_key` (and the methods of the class it calls) READS, one entry per textual read in source
    order: `self.X` / `getattr(self, "X", d)`"""
    import ast
    tree = ast.parse(src)
    cls = next(n for n in tree.body if isinstance(n, ast.ClassDef) and n.name == "Guard")
    methods = {n.name: n for n in cls.body if isinstance(n, (ast.FunctionDef, ast.AsyncFunctionDef))}
    out: list[str] = []

    def visit(fn, seen):
        callee_nodes = set()
        for n in ast.walk(fn):
            if isinstance(n, ast.Call) and isinstance(n.func, ast.Attribute) and isinstance(n.func.value, ast.Name) and n.func.value.id == "self":
                callee_nodes.add(id(n.func))
        for n in sorted((n for n in ast.walk(fn) if hasattr(n, "lineno")), key=lambda n: (n.lineno, n.col_offset)):
            if isinstance(n, ast.Attribute) and isinstance(n.value, ast.Name) and n.value.id == "self":
                if id(n) in callee_nodes:
                    if n.attr in methods and n.attr not in seen:
                        visit(methods[n.attr], seen | {n.attr})
                    elif n.attr not in methods:
                        out.append(n.attr + "()")        # a call of something that is not a method of the class: reported as such
                elif isinstance(n.ctx, ast.Load):
                    out.append(n.attr)
                else:
                    out.append("WRITE " + n.attr)
            if isinstance(n, ast.Call) and isinstance(n.func, ast.Name) and n.func.id in ("getattr", "setattr", "vars") and n.args \
                    and isinstance(n.args[0], ast.Name) and n.args[0].id == "self":
                out.append(n.args[1].value if n.func.id == "getattr" and len(n.args) >= 2 and isinstance(n.args[1], ast.Constant) else n.func.id + "(self…)")
    visit(methods["_cache_key"], {"_cache_key"})
    return out


def extract(repo: str) -> dict:
    import pytolean_decide as pd
    src, _, done = configs(repo)
    target, cfg = program_target()
    try:
        done["engine_eval_program"] = pd.translate(src, target, cfg)
    except pd.pp.Unsupported as e:
        done["engine_eval_program"] = {"failed": " ".join(f"{target.designator}, {FILE}: {e}".split())}
    try:
        done["cache_key_reads"] = cache_key_reads(src)
    except Exception as e:  # noqa: BLE001
        done["cache_key_reads"] = ["<could not be read: " + " ".join(str(e).split()) + ">"]
    return done


def render(f: dict) -> str:
    import pytolean
    body = "\n".join(f[name]["lean"] for name in ORDER_OF_TARGETS)
    prog = f.get("engine_eval_program") or {"failed": "not extracted"}
    body += "\n" + (prog["lean"] if "lean" in prog else "-- engine_eval_program: the cache range could not be translated as an access program: "
                    + " ".join(str(prog.get("failed")).split()) + "\n")
    body += ("\n/-- the attributes of `self` that `Guard._cache_key` (with the methods of the class it calls) reads, one entry per textual read -/\n"
             "def cacheKeyReads : List String := [" + ", ".join(pytolean.lean_str(a) for a in f.get("cache_key_reads", [])) + "]\n")
    alts = []
    for name in ORDER_OF_TARGETS:
        fr = f[name]
        n_in = len(fr["attrs"]) + len(fr["inputs"])
        xs = [f"a{i}" for i in range(n_in)]
        lead = []
        for p, ty in fr["lead"]:
            if ty == "Bool":
                lead.append(f'(flag "{p}")')
            else:
                arity = ty.count("→")
                vs = [f"x{i}" for i in range(arity)]
                lead.append(f'(ext "{p}" [])' if arity == 0 else "(fun " + " ".join(vs) + f' => ext "{p}" [' + ", ".join(vs) + "])")
        call = " ".join([name] + lead + xs)
        alts.append(f'  if fn = "{name}" then (match args with | [{", ".join(xs)}] => some ({call}) | _ => none) else')
    disp = ("/-- the translated target `fn` applied to its inputs (attribute inputs, then plain inputs, in the order its doc comment lists them);\n"
            "    `ext p args` = the outcome of the external whose parameter is `p` on these arguments, `flag p` = the Bool parameter `p` -/\n"
            "def evalDecide (ext : String → List PyVal → Option PyVal) (flag : String → Bool) (fn : String) (args : List PyVal) : Option Rbacx.PyP.Res :=\n"
            + "\n".join(alts) + "\n  none\n")
    return ("/-! C09/C01/C03: the decision dispatch `_decide_async` and the constructor `__init__` of `Guard` (core/engine.py) as the source has "
            "them now (harness/pytolean_decide.py) -/\nnamespace Src\n\n" + body + "\n" + disp + "\nend Src\n")
