"""Mechanical translation of the REDACTION ENFORCER — `_ensure_list_size`, `_set_by_path`, `apply_obligations` of
obligations/enforcer.py — from the CURRENT source text into Lean (harness/pytolean_cursor.py, an extension of harness/pytolean.py
for mutation through an alias: the cursor reading, `lean/Rbacx/Model/PyCursor.lean`).

`_set_by_path` walks a cursor into the nested payload and mutates through it; the translation keeps ONE state (the tree `obj` refers
to) and represents the cursor by its access path: `Src.set_by_path st path value : Option PyVal` = the state when the function
returns (`none` = an exception escaped).  `Src.ensure_list_size st lst idx` takes the list BY REFERENCE (its access path);
its `while` loop runs on the budget `idx + 1 - len(lst)` (MEASURE below: not trusted — out of budget is `none`).
`Src.apply_obligations payload obligations in_place` threads the state `out` through the `_set_by_path` calls.
The per-run obligation `Run/C19_translated.lean` proves them equal to the hand-written model `Redact.setByPath` / `Redact.applySpecs`
(Model/Redact.lean), the functions the theorems `Rbacx.C19.*` are about; `Run/SrcEvalEnforcer.lean` evaluates the translation for the
differential check `translated_vs_python` in harness/props/c19.py.

A plugin of its own, so that a change to enforcer.py which leaves the translatable subset fails C19's obligation only."""
from __future__ import annotations

import os

KEY = "translated_enforcer"
IMPORTS = ["Rbacx.Model.PyCursor"]

FILE = "src/rbacx/obligations/enforcer.py"
MEASURE = "idx + 1 - len(lst)"
DOMAIN = ("domain: JSON-shaped TREES (no object reachable along two paths), `path` a str (also None / bool / int through str()), "
          "spec lists of mappings; `x.get(…)` on a non-dict is None here where CPython raises AttributeError")


def extract(repo: str) -> dict:
    import pytolean_cursor as pc
    src = open(os.path.join(repo, FILE), encoding="utf-8").read()
    cfgs = {"_ensure_list_size": pc.FnCfg("ref_param", "ensure_list_size", measure=MEASURE),
            "_set_by_path": pc.FnCfg("state_param", "set_by_path", notes=[DOMAIN]),
            "apply_obligations": pc.FnCfg("state_local", "apply_obligations", state="out", notes=[DOMAIN])}
    return dict(pc.translate(src, cfgs))


def render(f: dict) -> str:
    order = ["_ensure_list_size", "_set_by_path", "apply_obligations"]
    body = "\n".join(f[name] for name in order if name in f)
    return ("/-! C19: `_ensure_list_size` / `_set_by_path` / `apply_obligations` (obligations/enforcer.py) as the source has them now "
            "(harness/pytolean_cursor.py) -/\nnamespace Src\n\n" + body + "\nend Src\n")
