"""Mechanical translation of the DECISION CORE OF THE ENGINE — the statements of `Guard._evaluate_core_async` (core/engine.py) that build
the env and that turn the raw decision into the returned `Decision` (C01, C07, C11) — from the CURRENT source text into Lean
(harness/pytolean_async.py: statement ranges of an async method, awaited collaborator calls as outcome parameters).

Ranges (designated by the first and the last top-level statement of the method body):

* `engine_env`  — from `roles: list[str] = …` to `if self.strict_types: …`: the subject's roles, the role resolver's answer (EXTERNAL
  `self.role_resolver.expand`: `some roles'` / `none` = raised → the subject's own roles), the env dict, the strict-types flag.
  Inputs: the four request records (frozen dataclasses of core/model.py: records of their fields), `self.role_resolver` (None = not
  configured), `self.strict_types`.  Result: `env`.
* `engine_gate` — from `decision_str = str(raw.get("decision"))` to `d = Decision(…)`: effect/allowed from the raw decision, the
  obligation gate (EXTERNAL `self.obligations.check`, awaited: `some (ok, ch)` / `none` = raised or did not unpack), the `Decision`
  (a record of its seven fields).  Inputs: `raw`, `context`.  Result: `d`.
* `engine_metric_labels`, `engine_audit_payload` — the ONE statement `labels = {…}` / `payload = {…}` each (nested in the sink blocks):
  what `metrics.inc` / `metrics.observe` and `logger_sink.log` are handed, as a function of `d` (the Decision record) and `env` (C11's
  agreement clause).  Whether and how often the sinks are called stays hand-modelled.

The per-run obligation `Run/C01_translated.lean` proves the generated definitions equal to the model's `buildEnv` and to the Decision
of `finishDecision` (Model/Engine.lean); `Run/SrcEvalEngine.lean` evaluates them for the differential check `translated_vs_python` in
harness/props/c01.py.  A plugin of its own: a change to engine.py cannot break the obligations of the other translated pieces."""
from __future__ import annotations

import ast
import os

KEY = "translated_engine"
IMPORTS = ["Rbacx.Model.PyLib", "Rbacx.Model.PyAwait"]

FILE = "src/rbacx/core/engine.py"
MODEL_FILE = "src/rbacx/core/model.py"
DECISION_FILE = "src/rbacx/core/decision.py"
METHOD = "Guard._evaluate_core_async"
EXTERNALS = {"self.role_resolver.expand": "role_resolver_expand", "self.obligations.check": "obligations_check"}
# (Lean name, first statement, last statement)
RANGES = [
    ("engine_env", "roles", "if self.strict_types"),
    ("engine_gate", "decision_str =", "d = Decision("),
    # single statements (last = None: the ONE assignment with this prefix, wherever it is nested): what the sinks are handed
    ("engine_metric_labels", "labels = {", None),
    ("engine_audit_payload", "payload = {", None),
]


def config(repo: str):
    import pytolean_async as pa
    src = open(os.path.join(repo, FILE), encoding="utf-8").read()
    classes = pa.dataclass_fields(open(os.path.join(repo, MODEL_FILE), encoding="utf-8").read())
    decision = pa.dataclass_fields(open(os.path.join(repo, DECISION_FILE), encoding="utf-8").read())
    if "Decision" not in decision:
        raise pa.Unsupported(f"{DECISION_FILE}: no frozen dataclass Decision")
    fn = pa.method(ast.parse(src), METHOD)
    cfg = pa.Cfg(EXTERNALS, records=pa.record_params(fn, classes), dataclasses={"Decision": decision["Decision"]})
    return src, cfg


def extract(repo: str) -> dict:
    import pytolean_async as pa
    src, cfg = config(repo)
    out = {"records": cfg.records, "decision_fields": cfg.dataclasses["Decision"]}
    for lean_name, start, last in RANGES:
        try:
            out[lean_name] = pa.translate_range(src, METHOD, start, last, lean_name, cfg, oracle=True)
        except pa.Unsupported as e:
            raise pa.Unsupported(f"range {lean_name} of {METHOD} ({FILE}): {e}") from e
    return out


def render(f: dict) -> str:
    body = "\n".join(f[lean_name]["lean"] for lean_name, *_ in RANGES)
    # dispatcher for Run/SrcEvalEngine.lean, generated so that it follows the ranges' current signatures: an external is answered by
    # the outcome the harness supplies under the parameter's name, whatever its arguments
    alts = []
    for lean_name, *_ in RANGES:
        fr = f[lean_name]
        xs = [f"a{i}" for i in range(len(fr["inputs"]))]
        exts = ["(fun " + " ".join(["_"] * arity) + f' => ext "{param}")' for _, param, arity in fr["externals"]]
        call = " ".join([lean_name] + (["o"] if fr["oracle"] else []) + exts + xs)
        alts.append(f'  if fn = "{lean_name}" then (match args with | [{", ".join(xs)}] => some ({call}) | _ => none) else')
    disp = ("/-- the engine range `fn` applied to its inputs (in the order its doc comment lists them); `ext p` = the outcome of the\n"
            "    external collaborator call whose parameter is `p` -/\n"
            "def evalEngineRange (o : Oracle) (ext : String → Option PyVal) (fn : String) (args : List PyVal) : Option PyVal :=\n"
            + "\n".join(alts) + "\n  none\n")
    return ("/-! C01/C07/C11: the decision core of `Guard._evaluate_core_async` (core/engine.py) as the source has it now, in ranges "
            "(harness/pytolean_async.py, translate_range) -/\n"
            "namespace Src\n\n" + body + "\n" + disp + "\nend Src\n")
