"""Mechanical translation of the two REFERENCE EVALUATORS AS WHOLES — `evaluate` of core/policy.py and `_decide_single` / `decide` of
core/policyset.py (C02: the combining algorithms; through them C01/C11) — from the CURRENT source text into Lean, in
EXCEPTION-PASSING style (harness/pytolean_except.py, "WHOLE-EVALUATOR EXTENSIONS" in its docstring; meanings of the Python operations in
lean/Rbacx/Model/PyExcept.lean).

Everything of the three functions is translated: the prologues (default algorithm, initial values, `rules` / `policies` not a list),
the loops with their `break` / `continue` (`PyE.forLoop` on the tuple of the carried variables), the head of the rule loop
(`rule.get("id")`, the action and resource tests, the `try … except ConditionTypeError` around `eval_condition`, the lowered effect),
the recursive dispatch of `_decide_single` (one `mutual` block with `decide`, structural recursion on a budget `fuel`), the
finalisations and the returned dicts.  Functions that are ALREADY translated are CALLED, not translated again:

* `match_actions`, `_is_applicable` (plugin `src_translation`), `match_resource`, `_is_strict` (plugin `src_translation_target`) — total,
  `PyVal`-valued definitions `Src.match_actions`, `Src.is_applicable`, `Src.match_resource o`, `Src.is_strict`;
* `eval_condition` (plugin `src_translation_cond`) — `Src.eval_condition o getattr parse_dt rel_branch cond env fuel`; its three
  EXTERNALS (`getattr` on a non-dict, `_parse_dt`, the `rel` branch) are therefore parameters of `Src.evaluate` / `Src.decide` too.

`evaluate` is seen from policyset.py under its import alias (`from .policy import evaluate as evaluate_policy`).

The per-run obligation `Run/C02_whole.lean` proves `Src.evaluate` equal to the model's `Rbacx.evaluate` (through `encRaw`) and what
`Src.decide` returns to describe `decideTree` of the document's tree; `Run/SrcEvalEvaluators.lean` evaluates the translations for the
differential check `translated_whole_vs_python` in harness/props/c02.py.

A plugin of its own, rendered LAST (`ORDER = 1`: its text refers to the renderings of the three plugins above): when one of them fails
to extract, this one reports that instead of rendering calls of definitions that are not there.  The fragment plugin
(`src_translation_fragments`) and its obligation `C02_translated` are independent of this one."""
from __future__ import annotations

import ast
import os

KEY = "translated_evaluators"
IMPORTS = ["Rbacx.Model.PyExcept"]
ORDER = 1

POLICY = "src/rbacx/core/policy.py"
POLICYSET = "src/rbacx/core/policyset.py"
# (file, python name): the total translations that are called as plain terms
PURE = [(POLICY, "match_actions"), (POLICY, "match_resource"), (POLICY, "_is_strict"), (POLICYSET, "_is_applicable")]
NAMES = ["evaluate", "_decide_single", "decide"]


def _signature(src: str, name: str) -> tuple[list[str], dict]:
    for n in ast.parse(src).body:
        if isinstance(n, ast.FunctionDef) and n.name == name:
            a = n.args
            if a.vararg or a.kwarg or a.posonlyargs or a.defaults:
                break
            defaults = {}
            for p, d in zip(a.kwonlyargs, a.kw_defaults):
                if not isinstance(d, ast.Constant):
                    raise ValueError(f"{name}: keyword-only parameter {p.arg} without a constant default")
                defaults[p.arg] = d.value
            return [p.arg for p in a.args + a.kwonlyargs], defaults
    raise ValueError(f"signature of {name}")


def extract(repo: str) -> dict:
    import pytolean
    import pytolean_except
    from extractors import src_translation, src_translation_cond, src_translation_target
    pure_text = dict(src_translation.extract(repo))
    pure_text.update(src_translation_target.extract(repo))
    cond = src_translation_cond.extract(repo)
    srcs = {rel: open(os.path.join(repo, rel), encoding="utf-8").read() for rel in (POLICY, POLICYSET)}
    pure = {}
    for rel, name in PURE:
        if name not in pure_text:
            raise pytolean.Unsupported(f"callee {name} is not among the translated functions")
        params, defaults = _signature(srcs[rel], name)
        head = pure_text[name].split(":=")[0]
        pure[name] = {"lean": pytolean.ident(name), "oracle": "(o : Oracle)" in head, "params": params, "defaults": defaults}
    ec = cond["eval_condition"]
    externals = [x for x, _ in ec["externals"]]
    presig_ec = {"lean": "eval_condition", "oracle": ec["oracle"], "exts": ec["externals"], "fuel": ec["fuel"], "params": ec["params"],
                 "defaults": {}}
    out = {}
    ev = pytolean_except.translate(srcs[POLICY], ["evaluate"], externals, pure_callees={k: pure[k] for k in ("match_actions", "match_resource", "_is_strict")},
                                   presigs={"eval_condition": presig_ec})
    out["evaluate"] = ev["evaluate"]
    alias = None
    for n in ast.parse(srcs[POLICYSET]).body:
        if isinstance(n, ast.ImportFrom) and n.level == 1 and n.module == "policy":
            for a in n.names:
                if a.name == "evaluate":
                    alias = a.asname or a.name
    if alias is None:
        raise pytolean.Unsupported("policyset.py does not import `evaluate` from .policy")
    e = ev["evaluate"]
    presig_ev = {"lean": e["lean_name"], "oracle": e["oracle"], "exts": e["externals"], "fuel": e["fuel"], "params": e["params"],
                 "defaults": e["defaults"]}
    ds = pytolean_except.translate(srcs[POLICYSET], ["_decide_single", "decide"], externals, pure_callees={"_is_applicable": pure["_is_applicable"]},
                                   presigs={alias: presig_ev}, mutual=[["_decide_single", "decide"]])
    out["_decide_single"], out["decide"] = ds["_decide_single"], ds["decide"]
    out["evaluate_alias"] = alias
    return out


def render(f: dict) -> str:
    body = "\n".join(f[name]["lean"] for name in NAMES)
    return ("/-! C02: the reference evaluators `policy.evaluate`, `policyset._decide_single` / `decide` as the source has them now, translated "
            "WHOLE in exception-passing style (harness/pytolean_except.py) -/\n"
            "namespace Src\n\n" + body + "\nend Src\n")
