"""Mechanical translation of store/file_store.py (property C16) from the CURRENT source text into Lean, WORLD-PASSING
(harness/pytolean_world.py; meanings in lean/Rbacx/Model/PyWorld.lean):

* `Src.fs_atomic_write mkstemp os_fdopen file_write file_close os_replace os_unlink os_path_dirname path data encoding () w` — `atomic_write`:
  every call of `tempfile.mkstemp` / `os.fdopen` / `f.write` / the `with` exit (`file_close`) / `os.replace` / `os.unlink` is an external
  that may raise; the `try … finally`, the `with` and the nested `try: os.unlink(tmp) except FileNotFoundError: pass` are rendered as
  explicit matches on the outcomes, in CPython's order.
* `Src.fs_stat_sig os_stat self_path`, `Src.fs_ensure_content_sha os_stat hash_file self_path`, `Src.fs_etag os_stat hash_file self_path
  self_include_mtime_in_etag`, `Src.fs_load file_open file_read file_close parse_policy_text validate_policy self_path self_validate_schema` —
  the methods of `FilePolicySource` over the generated state structure `FilePolicySource_state` (`_cached_stat_sig`, `_cached_sha`);
  `os.stat` returns a record (`st_size`, `st_mtime_ns`, `st_mtime`), `self._hash_file()` stays external.

The two groups are translated separately: a change that takes `atomic_write` out of the translatable subset does not break the
obligation about `FilePolicySource` and vice versa.  Obligations: `Run/C16_translated.lean` (source = the model's `ensureSha` / `etag` /
`load`), `Run/C16_atomic.lean` (`atomic_write` over the model's file system with fault injection = `runSteps` on the canonical
program); evaluator `Run/SrcEvalFileStore.lean` (the generated dispatcher `Src.evalFileStore`), comparison `translated_vs_python` in
harness/props/c16.py."""
from __future__ import annotations

import os

KEY = "translated_filestore"
IMPORTS = ["Rbacx.Model.PyLib", "Rbacx.Model.PyAwait", "Rbacx.Model.PyTrace", "Rbacx.Model.PyWorld"]

FILE = "src/rbacx/store/file_store.py"
ATOMIC = {"atomic_write": "fs_atomic_write"}
SOURCE = {"FilePolicySource._stat_sig": "fs_stat_sig", "FilePolicySource._ensure_content_sha": "fs_ensure_content_sha",
          "FilePolicySource.etag": "fs_etag", "FilePolicySource.load": "fs_load"}
EXTERNALS = {"tempfile.mkstemp": "mkstemp", "os.fdopen": "os_fdopen", "os.replace": "os_replace", "os.unlink": "os_unlink",
             "os.stat": "os_stat", "self._hash_file": "hash_file", "open": "file_open", "parse_policy_text": "parse_policy_text",
             "validate_policy": "validate_policy"}
PURE = {"os.path.dirname": "os_path_dirname"}
FILE_OPENERS = ("os.fdopen", "open")
FILE_METHODS = {"write": "file_write", "read": "file_read"}
RECORDS = {"os.stat": ["st_size", "st_mtime_ns", "st_mtime"]}
# every external parameter the evaluator knows, in a fixed order
ALL_EXTERNALS = ["mkstemp", "os_fdopen", "file_write", "file_read", "file_close", "os_replace", "os_unlink", "os_stat", "hash_file",
                 "file_open", "parse_policy_text", "validate_policy"]


def _cfg():
    import pytolean_world as pw
    return pw.WorldCfg(EXTERNALS, PURE, FILE_OPENERS, "file_close", FILE_METHODS, RECORDS)


def extract(repo: str) -> dict:
    import pytolean_world as pw
    src = open(os.path.join(repo, FILE), encoding="utf-8").read()
    out = {}
    for part, targets in (("atomic", ATOMIC), ("source", SOURCE)):
        try:
            out[part] = pw.translate(src, targets, _cfg())
        except pw.Unsupported as e:
            out[part] = {"failed": f"Unsupported: {e}"}
    return out


def _dispatch(f: dict) -> str:
    """`evalFileStore`: a translated function by its designator, inputs BY NAME (follows the current signatures)"""
    arms = []
    for part in ("atomic", "source"):
        p = f[part]
        if "failed" in p:
            continue
        for d, m in p["functions"].items():
            args = [f'(ext "{x}")' for x in m["externals"]] + [f'(pure "{x}")' for x in m["pure"]] + [f'(self "{a}")' for a in m["attrs"]] \
                + [f'(arg "{x}")' for x in m["params"]]
            if m["state"]:
                st_in = "⟨" + ", ".join(f'(field "{a}")' for a in m["state"]) + "⟩"
                from pytolean import ident
                st_out = "[" + ", ".join(f'("{a}", r.self.{ident(a)})' for a in m["state"]) + "]"
            else:
                st_in, st_out = "()", "[]"
            arms.append(f'  | "{d}" =>\n    let r := {" ".join([m["lean_name"]] + args)} {st_in} w\n    some (r.world, {st_out}, r.out)\n')
    return ("/-- a translated function applied to inputs given BY NAME (for Run/SrcEvalFileStore.lean; generated so that it follows the current\n"
            "    signatures): `ext p` = the external whose parameter is `p`, `pure p` likewise, `self a` = the attribute `self.a` that is only read,\n"
            "    `field a` = the state attribute `self.a`, `arg p` = the parameter `p`; result: world, state attributes, outcome -/\n"
            "def evalFileStore {W : Type} (name : String) (ext : String → Rbacx.PyW.Ext W) (pure : String → PyVal → PyVal) (self field arg : String → PyVal)\n"
            "    (w : W) : Option (W × List (String × PyVal) × Except String PyVal) :=\n  match name with\n" + "".join(arms) + "  | _ => none\n")


def render(f: dict) -> str:
    body = ""
    for part in ("atomic", "source"):
        body += (f"-- translation of the `{part}` group failed: {f[part]['failed']}\n\n" if "failed" in f[part] else f[part]["lean"])
    return ("/-! C16: `atomic_write` and `FilePolicySource` (store/file_store.py) as the source has them now, world-passing "
            "(harness/pytolean_world.py) -/\nnamespace Src\n\n" + body + _dispatch(f) + "\nend Src\n")
