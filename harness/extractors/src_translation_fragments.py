"""Mechanical translation of the pure FRAGMENTS of `policy.evaluate` and `policyset.decide` — the combining logic of C02 — from the
CURRENT source text into Lean (harness/pytolean.py, `translate_fragment`).

The functions are too effectful to translate whole (exceptions, calls into the matcher and the condition evaluator); what is
translated is, per function, the tail of the loop body from the point where the rule / child result is known, and everything after
the loop.  The per-run obligation `Run/C02_translated.lean` proves the generated definitions equal to the hand-written model
(`stepRule`/`finalise` of Model/Policy.lean, `stepChild`/`finaliseSet` of Model/PolicySet.lean).

This plugin is separate from (and rendered after: plugins are taken in alphabetical order) `src_translation`, so that a change to the
loops of `evaluate`/`decide` which leaves the translatable subset fails C02's obligation only, not the obligations of C03/C05/C17."""
from __future__ import annotations

import os

KEY = "translated_fragments"
IMPORTS = ["Rbacx.Model.PyLib"]

# (file, function, kind, start-of-fragment prefix, Lean name, translated functions the fragment may call)
FRAGMENTS = [
    ("src/rbacx/core/policy.py", "evaluate", "loop_body_from", "rule_obl =", "evaluate_step", []),
    ("src/rbacx/core/policy.py", "evaluate", "after_loop", None, "evaluate_final", []),
    ("src/rbacx/core/policyset.py", "decide", "loop_body_from", "rid =", "decide_step", ["_is_applicable"]),
    ("src/rbacx/core/policyset.py", "decide", "after_loop", None, "decide_final", ["_is_applicable"]),
]


def extract(repo: str) -> dict:
    import pytolean
    from extractors import src_translation
    # the fragments call functions of `namespace Src` (`_is_applicable`): without that translation they must not be rendered either
    callees = src_translation.extract(repo)
    for *_, known in FRAGMENTS:
        for k in known:
            if k not in callees:
                raise pytolean.Unsupported(f"callee {k} is not among the translated functions")
    out = {}
    for rel, fn, kind, start, lean_name, known in FRAGMENTS:
        src = open(os.path.join(repo, rel), encoding="utf-8").read()
        try:
            out[lean_name] = pytolean.translate_fragment(src, fn, kind, start, lean_name, set(known))
        except pytolean.Unsupported as e:
            raise pytolean.Unsupported(f"fragment {lean_name} of {fn} ({rel}): {e}") from e
    return out


def render(f: dict) -> str:
    body = "\n".join(f[lean_name]["lean"] for *_, lean_name, _ in FRAGMENTS)
    # dispatcher for Run/SrcEvalFrag.lean, generated so that it follows the fragments' current signatures
    alts = []
    for *_, lean_name, _ in FRAGMENTS:
        xs = [f"a{i}" for i in range(len(f[lean_name]["inputs"]))]
        alts.append(f'  if fn = "{lean_name}" then (match args with | [{", ".join(xs)}] => some ({lean_name} {" ".join(xs)}) | _ => none) else')
    disp = ("/-- the fragment `fn` applied to its inputs (in the order its doc comment lists them) -/\n"
            "def evalFragment (fn : String) (args : List PyVal) : Option PyVal :=\n" + "\n".join(alts) + "\n  none\n")
    return ("/-! C02: the pure fragments of policy.evaluate / policyset.decide as the source has them now (harness/pytolean.py, translate_fragment) -/\n"
            "namespace Src\n\n" + body + "\n" + disp + "\nend Src\n")
