"""Mechanical translation of the HTTP POLICY SOURCE — `HTTPPolicySource.load`, `etag` and the state-creating statements of `__init__`
(store/http_store.py; properties C10 and C17) — from the CURRENT source text into Lean (harness/pytolean_http.py; meanings:
lean/Rbacx/Model/PyHttp.lean).

* `Src.http_State` — the fields the methods assign: `etag` (= `_etag`), `policy_cache` (= `_policy_cache`).
* `Src.http_load url headers validate_schema import_requests requests_get parse_policy_text validate_policy detect_format st` —
  `load()`: `import_requests` = the outcome of `import requests`; `requests_get url hdrs timeout` = the outcome of
  `requests.get(self.url, headers=hdrs, timeout=5)` = THE RESPONSE OBJECT (a record of outcomes `PyH.Resp`: `has`, `attr`, `bytesAttr`,
  `raiseForStatus`, `headersIsDict`, `headersGet`, `json` per call site) or an exception; `parse_policy_text text filename content_type`
  and `validate_policy doc` outcomes; `detect_format filename content_type` a total function.  Result: the fields after (also when an
  exception escapes) and the value returned / the exception.
* `Src.http_etag url headers validate_schema st`, `Src.http_init url headers validate_schema st`.

The per-run obligation `Run/C10_http_translated.lean` proves the theorems `Rbacx.Translated.http_*` about these definitions (equality with the
model `Rbacx.Reloader.httpLoad` / `httpEtag` under a stated refinement, failure paths, parser hints, validation before caching);
`Run/SrcEvalHttp.lean` evaluates them for the comparison `http_tr.translated_vs_python` (props/c10.py) with the REAL methods over stub
`requests` modules.  A plugin of its own: a change to http_store.py that leaves the translatable subset fails this obligation only."""
from __future__ import annotations

import os

KEY = "translated_http"
IMPORTS = ["Rbacx.Model.PyLib", "Rbacx.Model.PyCli", "Rbacx.Model.PyHttp"]

FILE = "src/rbacx/store/http_store.py"
CLASS = "HTTPPolicySource"
METHODS = {"load": "http_load", "etag": "http_etag"}
PREFIX = "http_"
STATE_FIELDS = {"_etag": "etag", "_policy_cache": "policy_cache"}
CONFIG_FIELDS = ["url", "headers", "validate_schema"]
# callee text → (Lean parameter, python parameters in the order the Lean function takes them, kind)
EXTERNALS = {"requests.get": ("requests_get", ["url", "headers", "timeout"], "resp"),
             "parse_policy_text": ("parse_policy_text", ["text", "filename", "content_type"], "val"),
             "validate_policy": ("validate_policy", ["policy"], "val")}
PURE_EXTERNALS = {"_detect_format": ("detect_format", ["filename", "content_type"], "val")}
IMPORT_OUTCOMES = {"requests": "import_requests"}
TOTAL_IMPORTS = ("rbacx.dsl.validate",)
SILENT_PREFIXES = ("__import__('logging')",)
# fixed signatures: `full` = configuration + every collaborator (whether the text mentions it or not), `state` = configuration only
SIGNATURES = {"http_load": "full", "http_etag": "state", "http_init": "state"}


def extract(repo: str) -> dict:
    import pytolean
    import pytolean_http as ph
    src = open(os.path.join(repo, FILE), encoding="utf-8").read()
    cfg = ph.Cfg(STATE_FIELDS, CONFIG_FIELDS, {k: ph.Ext(*v) for k, v in EXTERNALS.items()},
                 {k: ph.Ext(*v) for k, v in PURE_EXTERNALS.items()}, IMPORT_OUTCOMES, TOTAL_IMPORTS, SILENT_PREFIXES, SIGNATURES)
    try:
        out = ph.translate_class(src, CLASS, METHODS, cfg, PREFIX)
    except pytolean.Unsupported as e:
        raise pytolean.Unsupported(f"{CLASS} ({FILE}): {e}") from e
    out["file"] = FILE
    return out


def render(f: dict) -> str:
    return ("/-! C10 / C17: `HTTPPolicySource.load` / `etag` / the state-creating statements of `__init__` (store/http_store.py) as the source "
            "has them now: fields passed in and out, the response object as a record of outcomes, collaborators as outcome parameters "
            "(harness/pytolean_http.py) -/\n"
            "namespace Src\nopen Rbacx\n\n" + f["lean"] + "\nend Src\n")
