"""Mechanical translation of the LINTER's algorithm-dependent analysis — `analyze_policy` and `analyze_policyset` of dsl/lint.py — from the
CURRENT source text into Lean (harness/pytolean_lint.py; meanings `Model/PyLint.lean`).

`analyze_policy` is translated WHOLE except for its first pass (the per-rule checks and the two duplicate-id loops = the first
top-level `for` statement and the `for` statements that follow it immediately), which is the function parameter `first_pass`; the
helpers `_actions`, `_first_applicable_unreachable`, `_resource_covers` are function parameters too.  What is translated: the
`require_attrs` configuration, THE ALGORITHM THE POLICY IS ANALYSED UNDER (`str(policy.get("algorithm") or <literal>).lower()`), the
`rules` guard, and the two algorithm-dependent passes (POTENTIALLY_UNREACHABLE under first-applicable, OVERLAPPED_BY_DENY under
deny-overrides).  `analyze_policyset` is translated whole (it calls the translated `analyze_policy`).

The per-run obligation `Run/C17_lint_translated.lean` proves both equal to the model `Rbacx.Lint.analyzePolicy` / `analyzePolicyset`
(Model/Lint.lean) with the default constant "deny-overrides"; `Run/SrcEvalLint.lean` evaluates the translation for the differential
check `check_translated_lint` of harness/props/c17.py.  A plugin of its own: a change that leaves the subset fails this obligation only."""
from __future__ import annotations

import os

KEY = "translated_lint"
IMPORTS = ["Rbacx.Model.PyLint"]

FILE = "src/rbacx/dsl/lint.py"
NAMES = ["analyze_policy", "analyze_policyset"]          # callees first
LEAN = {"analyze_policy": "lint_analyze_policy", "analyze_policyset": "lint_analyze_policyset"}
EXTERNALS = ["_actions", "_first_applicable_unreachable", "_resource_covers"]
RANGES = {"analyze_policy": [("for_run", "first_pass")]}


def _helpers(src: str) -> dict:
    """the helpers `_resource_covers` (existing translator, early-return `items()` loop) and `_first_applicable_unreachable` (`_actions` and
    `_resource_covers` as parameters), each a stage of its own: a failure is recorded (ONE line) and leaves the rest standing"""
    import pytolean
    import pytolean_lint
    out: dict = {}
    try:
        text = pytolean.translate(src, ["_resource_covers"], joins=True, oracle=True)["_resource_covers"]
        out["_resource_covers"] = {"lean": text.replace("def resource_covers ", "def lint_resource_covers ", 1)}
    except Exception as e:  # noqa: BLE001
        out["_resource_covers"] = {"failed": " ".join(f"{type(e).__name__}: {e}".split())[:300]}
    try:
        cfg = pytolean_lint.Cfg(["_actions", "_resource_covers"], {}, {"_first_applicable_unreachable": "lint_first_applicable_unreachable"})
        out["_first_applicable_unreachable"] = {"lean": pytolean_lint.translate(src, ["_first_applicable_unreachable"], cfg)["_first_applicable_unreachable"]}
    except Exception as e:  # noqa: BLE001
        out["_first_applicable_unreachable"] = {"failed": " ".join(f"{type(e).__name__}: {e}".split())[:300]}
    return out


def extract(repo: str) -> dict:
    import pytolean_lint
    src = open(os.path.join(repo, FILE), encoding="utf-8").read()
    f = dict(pytolean_lint.translate(src, NAMES, pytolean_lint.Cfg(EXTERNALS, RANGES, LEAN)))
    f["helpers"] = _helpers(src)
    return f


def render(f: dict) -> str:
    body = "\n".join(f[name] for name in NAMES)
    for name, h in (f.get("helpers") or {}).items():
        body += "\n" + (h["lean"] if "lean" in h else f"-- {name}: not translated ({h.get('failed')})\n")
    return ("/-! C17: `analyze_policy` (first pass and helpers as parameters) and `analyze_policyset` (dsl/lint.py) as the source has them now "
            "(harness/pytolean_lint.py) -/\nnamespace Src\n\n" + body + "\nend Src\n")
