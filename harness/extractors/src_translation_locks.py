"""The LOCK DISCIPLINE of the hot reloader read STATICALLY off the current source text (policy/loader.py, property C14): `HotReloader.__init__`,
`check_and_reload` (+ the helper function it submits), `check_and_reload_async`, `_register_error`, `_src_name`, `start`, `stop`, `_run_loop`
as LOCK PROGRAMS over the alphabet of `Model/Locks.lean` — every control path, loops any number of times (harness/pytolean_locks.py;
meanings `lean/Rbacx/Model/PyLockProg.lean`, soundness of the analysis `lean/Rbacx/Proofs/LockProg.lean`).

* `Src.locks_reentrant : Bool` — `self._lock` is a `threading.RLock` (true) or a `threading.Lock` (false);
* `Src.locks_<method> (h : Nat) : Rbacx.LockProg.Prog` — the method body, calls of other methods inlined as `.call (Src.locks_<callee> h)`;
  `h` = id of the helper thread of the calling context (1 for an API caller, 3 for the polling thread), the polling thread is 2;
* `Src.locks_check_and_reload_helper h` — what the helper thread runs.

The per-run obligation `Run/C14_locks_static.lean` proves `safe` of every entry point by `decide`, hence (soundness theorem) the static
condition on every path, hence deadlock freedom for every schedule; and that every DYNAMICALLY traced program (plugin reloader_locks) is a
path of these static programs.  A plugin of its own: what it cannot read becomes `.unsupported "…"` in place (plus a `-- Unsupported:` line)
and fails that obligation only."""
from __future__ import annotations

import os

KEY = "translated_locks"
IMPORTS = ["Rbacx.Model.PyLockProg"]

FILE = "src/rbacx/policy/loader.py"
CLASS = "HotReloader"
ROOTS = ["__init__", "check_and_reload", "start", "stop", "_run_loop"]


def extract(repo: str) -> dict:
    import pytolean_locks as pl
    src = open(os.path.join(repo, FILE), encoding="utf-8").read()
    try:
        return pl.translate_class(src, CLASS, ROOTS, pl.LockCfg())
    except pl.Unsupported as e:
        raise RuntimeError(f"Unsupported: {CLASS} ({FILE}): {e}") from e


def render(f: dict) -> str:
    return ("/-! C14: the lock / thread / source-call skeleton of `HotReloader` (policy/loader.py) as the source has it now, every control path "
            "(harness/pytolean_locks.py) -/\n"
            "namespace Src\n\n" + f["lean"] + "\nend Src\n")
