"""Mechanical translation of the AUDIT LOGGER — `DecisionLogger.__init__` (the normalisation of its arguments),
`DecisionLogger._should_drop_by_sampling` and `DecisionLogger.log` of logging/decision_logger.py, and the module constant
`_DEFAULT_REDACTIONS` — from the CURRENT source text into Lean (harness/pytolean_logger.py, an extension of harness/pytolean.py:
typed reading of floats as `Redact.FNum`, try/except with the external `apply_obligations` and the size oracle as raising points,
"emit" as the result; meanings in `lean/Rbacx/Model/PyLogger.lean`).

`Src.logger_init … : Src.LoggerSelf` builds the attributes, `Src.should_drop self draw payload : PyVal` is the sampling decision with
`random.random() = draw`, `Src.logger_log self apply_obligations jsonSize draw payload : Option PyVal` is `none` when nothing is emitted
and `some safe` = the record handed to `self.logger.log` otherwise.  The per-run obligation `Run/C19_logger_translated.lean` proves
them equal to the hand-written model `Redact.shouldDrop` / `Redact.log` / `LogCfg` (Model/Redact.lean), the functions the theorems
`Rbacx.C19.*` are about; `Run/SrcEvalLogger.lean` evaluates the translation for the differential check `logger_translated_vs_python`
in harness/props/c19.py.

A plugin of its own (it does not refer to the enforcer's translation: `apply_obligations` is a parameter), so that a change to
decision_logger.py fails this obligation only and a change to enforcer.py does not fail it."""
from __future__ import annotations

import os

KEY = "translated_logger"
IMPORTS = ["Rbacx.Model.PyLogger"]

FILE = "src/rbacx/logging/decision_logger.py"
METHODS = {"_should_drop_by_sampling": "should_drop", "log": "logger_log"}
DOMAIN = ("domain: `payload` a dict whose `env` is a dict or falsy; rates are numbers `float()` accepts; `random.random()` returns one float; "
          "the emitted record is a fresh dict (`dict(payload)` with `env` replaced): what the in-place redaction does to objects the caller "
          "still holds is not part of the result")


def extract(repo: str) -> dict:
    import pytolean_logger as pl
    src = open(os.path.join(repo, FILE), encoding="utf-8").read()
    cfg = pl.LoggerCfg(methods=dict(METHODS), notes={"log": [DOMAIN]})
    return pl.translate(src, cfg)


def render(f: dict) -> str:
    body = "\n".join(([f["const"]] if f.get("const") else []) + [f["init"]] + [f["methods"][m] for m in METHODS if m in f["methods"]])
    return ("/-! C19: `DecisionLogger.__init__` / `_should_drop_by_sampling` / `log` (logging/decision_logger.py) as the source has them now "
            "(harness/pytolean_logger.py) -/\nnamespace Src\n\n" + body + "\nend Src\n")
