"""Mechanical translation of the OBLIGATION CHECKER — `BasicObligationChecker.check` of core/obligations.py, the function that decides
whether a permit stands or becomes a deny with a challenge (C07) — from the CURRENT source text into Lean (harness/pytolean.py,
`translate_fragment`; see "OBLIGATION-CHECKER EXTENSIONS" in its docstring).

`check` is translated as three fragments around its one `for` loop:

* `check_prologue` — the statements before the loop up to (excluding) `ctx = getattr(context, "attrs", context) or {}`: the
  no-obligations early return, `current_effect`, `baseline_ok`.  A FLOW fragment: `.ret v` or `.next [obligations, current_effect,
  baseline_ok]`.  The `ctx = …` line (a `getattr` on a Context object) stays hand-modelled.
* `check_step` — the loop body from `if ob is not None and not isinstance(ob, dict): continue` to its end, i.e. the WHOLE body: one
  obligation entry against the current effect and the context.  A FLOW fragment: `.ret (False, challenge)` or `.next [broke]`.
  `_finite_number` is an EXTERNAL function: a parameter `finite_number : PyVal → PyVal` (Python floats are an oracle in this project; the
  per-run obligation instantiates it with the model's `finiteNumber`, the differential run with CPython's results).
* `check_final` — the statement after the loop (`return baseline_ok, None`).

The per-run obligation `Run/C07_translated.lean` proves the generated definitions equal to the hand-written model
(`obligationUnmet` / `checkObligations` of Model/Obligations.lean); `Run/SrcEvalObl.lean` evaluates them for the differential check
`translated_vs_python` in harness/props/c07.py.

A plugin of its own (plugins are rendered in alphabetical order) so that a change to obligations.py which
leaves the translatable subset fails C07's obligation only, not those of C02/C03/C05/C17."""
from __future__ import annotations

import os

KEY = "translated_obligations"
IMPORTS = ["Rbacx.Model.PyLib"]

FILE = "src/rbacx/core/obligations.py"
FUNCTION = "BasicObligationChecker.check"
EXTERNALS = ["_finite_number"]
# (kind, designating prefix, Lean name)
FRAGMENTS = [
    ("before_loop", "ctx =", "check_prologue"),
    ("loop_body_from", "if ob is not None", "check_step"),
    ("after_loop", None, "check_final"),
]


def extract(repo: str) -> dict:
    import pytolean
    src = open(os.path.join(repo, FILE), encoding="utf-8").read()
    out = {}
    for kind, start, lean_name in FRAGMENTS:
        try:
            out[lean_name] = pytolean.translate_fragment(src, FUNCTION, kind, start, lean_name, set(), oracle=True, externals=EXTERNALS)
        except pytolean.Unsupported as e:
            raise pytolean.Unsupported(f"fragment {lean_name} of {FUNCTION} ({FILE}): {e}") from e
    return out


def render(f: dict) -> str:
    body = "\n".join(f[lean_name]["lean"] for *_, lean_name in FRAGMENTS)
    # dispatcher for Run/SrcEvalObl.lean, generated so that it follows the fragments' current signatures; a plain-value fragment is
    # reported as `.ret` of its value
    alts = []
    for *_, lean_name in FRAGMENTS:
        fr = f[lean_name]
        xs = [f"a{i}" for i in range(len(fr["inputs"]))]
        for name, arity in fr["externals"]:
            if arity != 1:
                raise ValueError(f"external function {name} of arity {arity}: the evaluator supplies one-argument tables only")
        call = " ".join([lean_name] + (["o"] if fr["oracle"] else []) + ["(ext " + '"' + name + '")' for name, _ in fr["externals"]] + xs)
        val = f"({call})" if fr["flow"] else f"(Rbacx.Py.Flow.ret ({call}))"
        alts.append(f'  if fn = "{lean_name}" then (match args with | [{", ".join(xs)}] => some {val} | _ => none) else')
    disp = ("/-- the obligation-checker fragment `fn` applied to its inputs (in the order its doc comment lists them); `ext name` = the table\n"
            "    of the external function `name` -/\n"
            "def evalOblFragment (o : Oracle) (ext : String → PyVal → PyVal) (fn : String) (args : List PyVal) : Option Rbacx.Py.Flow :=\n"
            + "\n".join(alts) + "\n  none\n")
    return ("/-! C07: `BasicObligationChecker.check` (core/obligations.py) as the source has it now, in three fragments "
            "(harness/pytolean.py, translate_fragment) -/\n"
            "namespace Src\n\n" + body + "\n" + disp + "\nend Src\n")
