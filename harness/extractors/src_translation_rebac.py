"""Mechanical translation of the LOCAL ReBAC CHECKER — `rbacx/rebac/local.py`: the dataclass `RelTuple`, the userset-expression classes
`This` / `ComputedUserset` / `TupleToUserset`, `InMemoryRelationshipStore` (`__init__`, `add`, `direct_for_resource`, `by_subject`),
`_split_ref`, and `LocalRelationshipChecker` (`__init__`, `_caveat_holds`, `_direct_allowed`, `_lookup_expr`, `_expand`, `check`,
`batch_check`) — from the CURRENT source text into Lean, by the typed translator harness/pytolean_rebac.py (meanings of the Python
operations: lean/Rbacx/Model/PyRebac.lean).

`Src.rebac_Checker_check self clock subject relation resource fuel : Option Bool` — the BFS `while queue:` runs with a budget of
`fuel` body executions (`none` = it ran out), `clock i` is the i-th reading of `time.perf_counter_ns()` of the call, the caveat
registry is `PyR.Registry` (name ↦ unregistered / raises / truth value of `pred(context)`: user code, EXTERNAL).  The per-run obligation
`Run/C12_translated.lean` proves that the budget `Rebac.fuelBound` always suffices and that the result is then the hand-written model's
`Rbacx.Rebac.check` (Model/Rebac.lean) — the function the theorems `Rbacx.C12.*` are about — and that each helper equals its model
counterpart; `Run/SrcEvalRebac.lean` evaluates the translation for the differential check `translated_vs_python` in harness/props/c12.py.

A plugin of its own, so that a change to local.py which leaves the translatable subset fails C12's obligation only.  Because a typed
translation of changed source can fail to elaborate (which would break `Generated.lean` for every property), the rendering is
test-compiled on its own first (cached by content under lean/.lake); text that does not elaborate is reported as a failed extraction."""
from __future__ import annotations

import hashlib
import os
import subprocess
import tempfile

KEY = "translated_rebac"
IMPORTS = ["Rbacx.Model.PyRebac"]

FILE = "src/rbacx/rebac/local.py"
PREFIX = "rebac_"
STORE, CHECKER = "InMemoryRelationshipStore", "LocalRelationshipChecker"


def config():
    import pytolean_rebac
    return pytolean_rebac.Cfg(
        prefix=PREFIX, records=["RelTuple"], obj_classes=["This", "ComputedUserset", "TupleToUserset"], obj_alias="UsersetExpr",
        classes={STORE: "Store", CHECKER: "Checker"},
        functions=["_split_ref"],
        methods={STORE: ["add", "direct_for_resource", "by_subject"],
                 CHECKER: ["_caveat_holds", "_direct_allowed", "_lookup_expr", "_expand", "check", "batch_check"]},   # callees first
        indexed_externals={f"{CHECKER}.batch_check": ["check"]})


def _body(f: dict) -> str:
    return "\n".join(text for _, text in f["defs"])


def _elaborates(text: str) -> tuple[bool, str]:
    verif = os.path.dirname(os.path.dirname(os.path.dirname(os.path.abspath(__file__))))
    lean = os.environ.get("VERIF_LEAN_DIR") or os.path.join(verif, "lean")
    probe = "import Rbacx.Model.PyRebac\nnamespace Rbacx.Generated\nnamespace Src\nset_option linter.unusedVariables false\n\n" + text + "\nend Src\nend Rbacx.Generated\n"
    digest = hashlib.sha256(probe.encode()).hexdigest()[:24]
    cache = os.path.join(lean, ".lake", "rebac_probe")
    mark = os.path.join(cache, digest)
    if os.path.exists(mark):
        return True, ""
    if not os.path.isdir(os.path.join(lean, ".lake", "build")):
        return True, ""                      # nothing built yet (first setup): the build itself will tell
    with tempfile.TemporaryDirectory() as td:
        path = os.path.join(td, "RebacProbe.lean")
        with open(path, "w", encoding="utf-8") as fh:
            fh.write(probe)
        try:
            p = subprocess.run(["lake", "env", "lean", path], cwd=lean, capture_output=True, text=True, timeout=300)
        except (OSError, subprocess.TimeoutExpired) as e:
            return True, f"probe not run: {e}"
    out = p.stdout + p.stderr
    if p.returncode == 0:
        os.makedirs(cache, exist_ok=True)
        open(mark, "w").close()
        return True, ""
    if "unknown module prefix" in out or "object file" in out or "unknown package" in out:
        return True, ""                      # PyRebac not built yet: the build will tell
    first = out.find("error")
    return False, out[max(first - 100, 0):][:600]


def extract(repo: str) -> dict:
    import pytolean
    import pytolean_rebac
    src = open(os.path.join(repo, FILE), encoding="utf-8").read()
    out = pytolean_rebac.translate(src, config())
    ok, why = _elaborates(_body(out))
    if not ok:
        raise pytolean.Unsupported("the typed translation of the current source does not elaborate (outside the translatable subset): " + why)
    return out


def render(f: dict) -> str:
    return ("/-! C12: `rbacx/rebac/local.py` — store, `_split_ref`, `LocalRelationshipChecker` — as the source has them now "
            "(harness/pytolean_rebac.py) -/\nnamespace Src\nset_option linter.unusedVariables false\n\n" + _body(f) + "\nend Src\n")
