"""Mechanical translation of the pieces of the condition evaluator (core/policy.py) that `src_translation_cond.py` leaves as EXTERNAL
parameters of `Src.eval_condition`, from the CURRENT source text (harness/pytolean_rel.py on top of harness/pytolean_except.py;
meanings of the new operations in lean/Rbacx/Model/PyRel.lean):

  part "parse_dt" (C04):  `_parse_dt` → `Src.parse_dt fromtimestamp fromisoformat x strict : Except CondErr PyVal`.  The two stdlib
      conversions stay ORACLES: the expressions `datetime.fromtimestamp(float(x), tz=timezone.utc)` and
      `datetime.fromisoformat(x.replace('Z', '+00:00'))` — arguments included, the texts the fields `epochInstant` / `isoInstant` of
      Model/Oracle.lean are documented to stand for — are outcome parameters (value or raised class) of the variable they read.
  part "rel" (C13):  `_canon_subject`, `_canon_resource` → `Src.canon_subject` / `Src.canon_resource` (exception-passing; they call the
      cond plugin's `Src.resolve`), and the body of `if 'rel' in cond:` of `eval_condition` → `Src.rel_range … cond env : Rbacx.PyR.M PyVal`
      (state-and-exception-passing: state = content of the memo `REL_LOCAL_CACHE.get()` + the checker calls made).  Parameters:
      `rel_checker` = `REL_CHECKER.get()` (absent, or the OUTCOME of `check(subject, relation, resource, context=ctx)` as a function of
      the argument list), `eval_loop` = `EVAL_LOOP.get()`, externals `_ctx_hash`, `resolve_awaitable_in_worker`, `getattr`.

The two parts fail separately (`{"extraction_failed": …}` per part): a change to `_parse_dt` outside the subset fails C04's obligation
`C04_parse_dt_translated` only, a change to the `rel` branch C13's `C13_translated` only.  Rendered after `src_translation_cond`
(alphabetical order), whose `Src.resolve` the canonicalisers call."""
from __future__ import annotations

import json
import os

KEY = "translated_rel"
IMPORTS = ["Rbacx.Model.PyExcept", "Rbacx.Model.PyRel"]

FILE = "src/rbacx/core/policy.py"
EXT_EXPRS = {
    "datetime.fromtimestamp": {"name": "fromtimestamp", "text": "datetime.fromtimestamp(float(v0), tz=timezone.utc)"},
    "datetime.fromisoformat": {"name": "fromisoformat", "text": "datetime.fromisoformat(v0.replace('Z', '+00:00'))"},
}
# ContextVar → (kind, parameter[, method, positional arguments, keyword names])
CONTEXTVARS = {
    "REL_CHECKER": ("checker", "rel_checker", "check", 3, ("context",)),
    "REL_LOCAL_CACHE": ("state", None),
    "EVAL_LOOP": ("object", "eval_loop"),
}
REL_EXTERNALS = ["getattr", "_ctx_hash", "resolve_awaitable_in_worker"]
REL_RANGE = ("eval_condition", "'rel' in cond", "rel_range")


def extract(repo: str) -> dict:
    import pytolean
    import pytolean_rel
    from extractors import src_translation_cond
    src = open(os.path.join(repo, FILE), encoding="utf-8").read()
    out: dict = {}
    try:
        out["parse_dt"] = pytolean_rel.translate(src, ["_parse_dt"], ["fromtimestamp", "fromisoformat"], ext_exprs=EXT_EXPRS)["_parse_dt"]
    except pytolean.Unsupported as e:
        out["parse_dt"] = {"extraction_failed": f"Unsupported: {e}"}
    try:
        cond = src_translation_cond.extract(repo)
        rs = cond["resolve"]
        presig = {"resolve": {"lean": rs["lean_name"], "oracle": rs["oracle"], "exts": rs["externals"], "fuel": rs["fuel"], "params": rs["params"],
                              "defaults": {}}}
        tr = pytolean_rel.translate(src, ["_canon_subject", "_canon_resource"], REL_EXTERNALS, presigs=presig, contextvars=CONTEXTVARS,
                                    ignorable=("logger",), rel_range=REL_RANGE)
        out["rel"] = {"canon_subject": tr["_canon_subject"], "canon_resource": tr["_canon_resource"], "rel_range": tr["rel_range"]}
    except pytolean.Unsupported as e:
        out["rel"] = {"extraction_failed": f"Unsupported: {e}"}
    return out


def _runner(name: str, t: dict | None, monad: bool, cvs: list[str] | None = None) -> str:
    """`Src.<name>_run`: the translation applied BY NAME — externals through one table function `ext`, value arguments as a list — so that the
    evaluator `Run/SrcEvalRel.lean` does not depend on which externals / ContextVar parameters the current source still uses (a change that
    removes one changes the signature of `Src.<name>`); `none` = another number of arguments, or this part could not be translated"""
    ty = "Rbacx.PyR.M PyVal" if monad else "Except CondErr PyVal"
    cvdecl = " (rel_checker : Rbacx.PyR.Checker) (eval_loop : PyVal)" if cvs is not None else ""
    head = (f"/-- `{name}` applied by name (for the evaluator Run/SrcEvalRel.lean) -/\n"
            f"def {name}_run (o : Oracle) (ext : String → List PyVal → Except CondErr PyVal){cvdecl} (args : List PyVal) : Option ({ty}) :=\n")
    if t is None:
        return head + "  let _ := o; let _ := ext; let _ := args; none\n"
    n = len(t["args"] if "args" in t else t["params"])
    exts = []
    for x, arity in t["externals"]:
        xs = [f"x{i}" for i in range(arity)]
        exts.append(f"(fun {' '.join(xs)} => ext {json.dumps(x)} [{', '.join(xs)}])")
    vals = [f"a{i}" for i in range(n)]
    call = " ".join([name] + (["o"] if t["oracle"] else []) + exts + (list(t.get("cvparams") or []) if cvs is not None else []) + vals)
    return head + f"  let _ := o; let _ := ext\n  match args with\n  | [{', '.join(vals)}] => some ({call})\n  | _ => none\n"


def render(f: dict) -> str:
    parts = []
    pd, rel = f["parse_dt"], f["rel"]
    parts.append("-- extraction of _parse_dt failed: " + " ".join(str(pd["extraction_failed"]).split()) + "\n" if "extraction_failed" in pd else pd["lean"])
    parts.append(_runner("parse_dt", None if "extraction_failed" in pd else pd, False))
    if "extraction_failed" in rel:
        parts.append("-- extraction of the rel branch failed: " + " ".join(str(rel["extraction_failed"]).split()) + "\n")
        parts += [_runner("canon_subject", None, False), _runner("canon_resource", None, False), _runner("rel_range", None, True, [])]
    else:
        parts += [rel["canon_subject"]["lean"], rel["canon_resource"]["lean"], rel["rel_range"]["lean"],
                  _runner("canon_subject", rel["canon_subject"], False), _runner("canon_resource", rel["canon_resource"], False),
                  _runner("rel_range", rel["rel_range"], True, rel["rel_range"]["cvparams"])]
    return ("/-! C04 / C13: `_parse_dt`, `_canon_subject`, `_canon_resource` and the `rel` branch of `eval_condition` (core/policy.py) as the source has "
            "them now (harness/pytolean_rel.py) -/\n"
            "namespace Src\n\n" + "\n".join(parts) + "\nend Src\n")
