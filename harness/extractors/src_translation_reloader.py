"""Mechanical translation of the HOT RELOADER — `HotReloader.check_and_reload_async`, `HotReloader._register_error` and the state-creating
statements of `HotReloader.__init__` (policy/loader.py, property C10) — from the CURRENT source text into Lean
(harness/pytolean_state.py; meanings: lean/Rbacx/Model/PyReloader.lean).

* `Src.reloader_State T` — the fields the methods assign (`_last_etag`, `_suppress_until`, `_backoff`, `_last_reload_at`,
  `_last_error`), typed by `__init__`'s annotations.
* `Src.reloader_register_error N backoff_min backoff_max jitter_ratio u1 st tr now err level msg` — `_register_error`.
* `Src.reloader_check N backoff_min backoff_max jitter_ratio now1 u1 etag1 load1 set_policy1 st tr force` — `check_and_reload_async`:
  `now1` = the `time.time()` reading, `u1` = the `random.uniform(-1.0, 1.0)` draw, `etag1` / `load1` / `set_policy1` = the OUTCOMES of
  `await maybe_await(self.source.etag())`, `await maybe_await(self.source.load())`, `self.guard.set_policy(policy)` (returned value or
  the raised exception's class); result: the fields after, the collaborator calls in program order, returned value / raised class.
* `Src.reloader_init N backoff_min initial_load sync_etag1 etag1 st tr` — the statements of `__init__` from the `try:` that primes
  `_last_etag` to `self._last_error = None`: `initial_load` = `self._initial_load`, `sync_etag1` = what the PROBE `etag_attr is not None
  and not inspect.iscoroutinefunction(etag_attr)` evaluates to (`etag_attr = getattr(self.source, "etag", None)` is taken to be total),
  `etag1` = the outcome of the sync `self.source.etag()`.

The per-run obligation `Run/C10_translated.lean` proves these equal to the hand-written model `Rbacx.Reloader.check` /
`registerError` / `init` (Model/Reloader.lean) the theorems `Rbacx.C10.*` are about; `Run/SrcEvalReloader.lean` evaluates them over
exact rationals for the differential check `translated_vs_python` in harness/props/c10.py (harness/reloader_tr.py).  A plugin of its
own: a change to loader.py that leaves the translatable subset fails C10's obligation only."""
from __future__ import annotations

import os

KEY = "translated_reloader"
IMPORTS = ["Rbacx.Model.PyLib", "Rbacx.Model.PyReloader"]

FILE = "src/rbacx/policy/loader.py"
CLASS = "HotReloader"
# python method → Lean name, callees first
METHODS = {"_register_error": "reloader_register_error", "check_and_reload_async": "reloader_check"}
# Lean name → (method, first statement starts with, last statement starts with)
RANGES = {"reloader_init": ("__init__", "try:", "self._last_error")}
PREFIX = "reloader_"
EXTERNALS = {"self.source.etag": ("etag", "val"), "self.source.load": ("load", "opaque"), "self.guard.set_policy": ("set_policy", "unit")}
READINGS = {"time.time()": "now", "random.uniform(-1.0, 1.0)": "u"}
# a probe is designated by its text with every local written `_` (so that renaming the local keeps the designation)
PROBES = {"_ is not None and (not inspect.iscoroutinefunction(_))": "sync_etag"}
TOTAL_EXPRS = ("getattr(self.source, 'etag', None)",)
# Lean name → the configuration fields its definition takes (fixed, so that the evaluator and the obligation keep compiling when a source
# change drops the last mention of one of them; reading a field that is not listed is rejected)
SIGNATURES = {"reloader_register_error": ["backoff_min", "backoff_max", "jitter_ratio"],
              "reloader_check": ["backoff_min", "backoff_max", "jitter_ratio"],
              "reloader_init": ["backoff_min", "_initial_load"]}
LOCK = "_lock"
TOTAL_CALLS = ("self._src_name",)


def extract(repo: str) -> dict:
    import pytolean
    import pytolean_state as ps
    src = open(os.path.join(repo, FILE), encoding="utf-8").read()
    cfg = ps.StateCfg({k: ps.Ext(p, r) for k, (p, r) in EXTERNALS.items()}, READINGS, LOCK, total_calls=TOTAL_CALLS, probes=PROBES,
                      total_exprs=TOTAL_EXPRS)
    try:
        out = ps.translate_class(src, CLASS, METHODS, cfg, PREFIX, ranges=RANGES, signatures=SIGNATURES)
    except pytolean.Unsupported as e:
        raise pytolean.Unsupported(f"{CLASS} ({FILE}): {e}") from e
    return out


def render(f: dict) -> str:
    return ("/-! C10: `HotReloader.check_and_reload_async` / `_register_error` / the state-creating statements of `__init__` "
            "(policy/loader.py) as the source has them now: state-passing, collaborator outcomes, clock and PRNG readings as parameters "
            "(harness/pytolean_state.py) -/\n"
            "namespace Src\n\n" + f["lean"] + "\nend Src\n")
