"""Mechanical translation of the STATIC ROLE RESOLVER — `StaticRoleResolver.__init__` and `.expand` of core/roles.py — from the
CURRENT source text into Lean (harness/pytolean_loops.py, an extension of harness/pytolean.py for worklist loops).

`expand` is a `while` loop over a stack and a visited set.  A general `while` has no total meaning in Lean, so the translation is
FUEL-bounded: `Src.roles_expand graph roles fuel : Option PyVal` (`graph` = the value of `self.graph`, `none` = the budget of `fuel`
body executions ran out), and `Src.roles_init_graph graph` is the value `__init__` stores in `self.graph`.  The per-run obligation
`Run/C18_translated.lean` proves that the explicit budget `fuelBound g roles` (number of given roles + total number of parent entries
of the graph) always suffices — the source's loop terminates on every graph, cyclic ones included — and that the result is then the
encoding of the hand-written model `Rbacx.Roles.expand` (Model/Roles.lean), the function the theorems `Rbacx.C18.*` are about;
`Run/SrcEvalRoles.lean` evaluates the translation for the differential check `translated_vs_python` in harness/props/c18.py.

A plugin of its own, so that a change to roles.py which leaves the translatable subset fails C18's obligation only."""
from __future__ import annotations

import os

KEY = "translated_roles"
IMPORTS = ["Rbacx.Model.PyLib"]

FILE = "src/rbacx/core/roles.py"
CLASS = "StaticRoleResolver"
METHODS = ["expand"]
PREFIX = "roles"
DOMAIN = ("domain (the annotation `dict[str, list[str]]` / `list[str] | None`): the graph is a dict of lists of `str`, role names are `str`; "
          "on other shapes CPython may raise where this definition returns a value")


def extract(repo: str) -> dict:
    import pytolean_loops
    src = open(os.path.join(repo, FILE), encoding="utf-8").read()
    return dict(pytolean_loops.translate_class(src, CLASS, METHODS, PREFIX, DOMAIN))


def render(f: dict) -> str:
    body = "\n".join(f[name] for name in sorted(f, key=lambda n: (not n.startswith(PREFIX + "_init_"), n)))
    return ("/-! C18: `StaticRoleResolver.__init__` / `.expand` (core/roles.py) as the source has them now (harness/pytolean_loops.py) -/\n"
            "namespace Src\n\n" + body + "\nend Src\n")
