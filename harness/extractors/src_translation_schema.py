"""Mechanical translation of the BUNDLED JSON SCHEMA — src/rbacx/dsl/policy.schema.json, the file `rbacx.dsl.validate.validate_policy`
hands to `jsonschema.validate` — from its CURRENT text into Lean (harness/pytolean_schema.py): `Src.SchemaDef` (one constructor per
`$defs` entry), `Src.schema_def fuel d v` and `Src.schema_root fuel v`, conjunctions of the keyword combinators of
lean/Rbacx/Model/JsonSchema.lean.

The per-run obligation `Run/C06_schema.lean` proves, for every fuel and every value, that a value the translated schema accepts satisfies
the well-formedness predicate `docWF` the totality theorem `Rbacx.C06.c06_total` assumes (so "the schema guarantees docWF" is a theorem about
the schema text as it is now, not an observation on generated documents); `Run/SrcEvalSchema.lean` evaluates the translation so that
`translated_schema_vs_jsonschema` in harness/props/c06.py can compare it with the real `jsonschema` validator built from the same file and
with `validate_policy` (this validates the translator and the keyword meanings — what the obligation trusts).

A plugin of its own: a schema outside the supported keyword subset fails C06's / C17's NAMED obligation `C06_schema` only."""
from __future__ import annotations

import json
import os

KEY = "translated_schema"
IMPORTS = ["Rbacx.Model.JsonSchema"]

FILE = "src/rbacx/dsl/policy.schema.json"


def extract(repo: str) -> dict:
    import pytolean_schema
    schema = json.loads(open(os.path.join(repo, FILE), encoding="utf-8").read())
    return {"lean": pytolean_schema.translate(schema), "defs": list(schema.get("$defs", {}))}


def render(f: dict) -> str:
    return ("/-! C06/C17: the bundled policy schema (dsl/policy.schema.json) as the file has it now (harness/pytolean_schema.py).\n"
            "    Ignored keywords: $schema, title, description ($defs is the table of definitions). -/\n"
            "namespace Src\n\n" + f["lean"] + "\nend Src\n")
