"""Mechanical translation of the SINK BLOCK of `Guard._evaluate_core_async` (core/engine.py; C11) — the statements from
`if self.metrics is not None:` to `return d` — from the CURRENT source text into Lean as a SINK-CALL TRACE (harness/pytolean_sinks.py),
and the ASSEMBLY of the method and of the API wrappers around it (C14's "one core").

* `engine_sinks` — `Src.engine_sinks metrics_inc metrics_observe logger_sink_log opaque1 self_metrics d self_logger_sink env :
  Rbacx.PyS.Trace`: the three sinks (`getattr(self.metrics, "inc", None)`, `… "observe" …`, `getattr(self.logger_sink, "log", None)`) are
  PARAMETERS (absent / plain function / coroutine function, returning / raising), `dur = max(0.0, _now() - start)` an opaque value;
  the result is the list of sink calls made, in program order, with their arguments, and how the block ended.
* `assembly` (harness/pytolean_sinks.assembly) — facts read off the source: the top-level statement sequence of the method as the list
  of the designated ranges that cover it (`OTHER: <text>` for a statement outside every range), the places outside the sink block that
  mention a sink object or `return`, and the API wrappers `evaluate_async`, `evaluate_sync`, `is_allowed_sync`, `is_allowed_async` as
  terms of a tiny expression language (`Rbacx.PyS.Api`).

The per-run obligation `Run/C11_sinks_translated.lean` proves: whatever the sinks are and do, the block returns the Decision it was
handed; exactly one `inc`, one `observe`, one `log` call in that order when the sinks are there; the arguments are the labels /
payload of `Src.engine_metric_labels` / `Src.engine_audit_payload` = the model's events (`engine_sinks_agree`); nothing propagates.
`Run/C14_core_assembly.lean`: the method is [start; env; cache protocol; gate; sink block] with nothing in between, every API flavour
denotes the core applied to its own four arguments (resp. its `.allowed`).  `Run/SrcEvalSinks.lean` evaluates the trace for the
differential check `translated_vs_python` in harness/props/c11.py.  A plugin of its own: a change here cannot break C01_translated."""
from __future__ import annotations

import ast
import os

KEY = "translated_sinks"
IMPORTS = ["Rbacx.Model.PyLib", "Rbacx.Model.PyAwait", "Rbacx.Model.PySinks", "Rbacx.Model.PyAssembly"]

FILE = "src/rbacx/core/engine.py"
DECISION_FILE = "src/rbacx/core/decision.py"
CLASS = "Guard"
METHOD = "Guard._evaluate_core_async"
START = "if self.metrics is not None"
LEAN_NAME = "engine_sinks"
SINKS = {("self.metrics", "inc"): "metrics_inc", ("self.metrics", "observe"): "metrics_observe", ("self.logger_sink", "log"): "logger_sink_log"}
# the designated ranges of the method body, in order: (label, first statement, last statement | None = one statement | "END" = to the end);
# `engine_env` / `engine_gate` are THE ranges the engine plugin translates (their designators are taken from there)
CACHE_RANGE = ("cache_protocol", "raw = None", "if raw is None")
START_STMT = ("start", "start = _now()", None)
TAIL = "engine_sinks"


def ranges() -> list:
    from extractors import src_translation_engine as eng
    by = {n: (n, a, b) for n, a, b in eng.RANGES}
    return [START_STMT, by["engine_env"], CACHE_RANGE, by["engine_gate"], (TAIL, START, "END")]


CORE = "_evaluate_core_async"
WRAPPERS = ["evaluate_async", "evaluate_sync", "is_allowed_sync", "is_allowed_async"]


def config(repo: str):
    import pytolean_async as pa
    import pytolean_sinks as ps
    src = open(os.path.join(repo, FILE), encoding="utf-8").read()
    decision = pa.dataclass_fields(open(os.path.join(repo, DECISION_FILE), encoding="utf-8").read())
    if "Decision" not in decision:
        raise pa.Unsupported(f"{DECISION_FILE}: no frozen dataclass Decision")
    return src, ps.SinkCfg(SINKS, dataclasses={"Decision": decision["Decision"]})


def extract(repo: str) -> dict:
    import pytolean_async as pa
    import pytolean_sinks as ps
    src, cfg = config(repo)
    out = {"decision_fields": cfg.dataclasses["Decision"]}
    # the two parts fail separately: a sink block outside the translatable subset does not take the assembly facts with it
    try:
        out[LEAN_NAME] = ps.translate_tail(src, METHOD, START, LEAN_NAME, cfg)
    except pa.Unsupported as e:
        out[LEAN_NAME] = {"failed": f"sink block of {METHOD} ({FILE}): {e}"}
    fr = out[LEAN_NAME]
    # what the sink block reads (in order of first read; then what its opaque expressions read): where are these assigned?
    watch = [] if "failed" in fr else [v for v in fr["inputs"] if not v.startswith("self.")]
    for o in fr.get("opaque", []):
        watch += [v for v in o["reads"] if not v.startswith("self.") and v not in watch]
    try:
        out["assembly"] = ps.assembly(src, CLASS, CORE, ranges(), WRAPPERS, sorted({k[0] for k in SINKS}), TAIL, watch)
    except pa.Unsupported as e:
        out["assembly"] = {"failed": str(e)}
    return out


def render(f: dict) -> str:
    import pytolean_sinks as ps
    fr = f[LEAN_NAME]
    head = ("/-! C11/C14: the sink block of `Guard._evaluate_core_async` (core/engine.py) as the source has it now, as a sink-call trace, "
            "and the assembly of the method and its API wrappers (harness/pytolean_sinks.py) -/\n")
    if "failed" in fr:
        return head + "namespace Src\n\n-- sink block not translated: " + fr["failed"].replace("\n", " ") + "\n\n" \
            + ps.render_assembly(f["assembly"]) + "\nend Src\n"
    args = [f'(sink "{p}")' for _, _, p in fr["sinks"]] + [f'(opq "{o["param"]}")' for o in fr["opaque"]] \
        + [f'(arg "{v}")' for v in fr["inputs"]]
    disp = ("/-- the sink block applied to inputs given BY NAME (for Run/SrcEvalSinks.lean, generated so that it follows the current\n"
            "    signature): `sink p` = the sink parameter `p`, `opq p` = the opaque value `p`, `arg v` = the input variable `v` -/\n"
            "def evalSinks (sink : String → Rbacx.PyS.Sink) (opq : String → PyVal) (arg : String → PyVal) : Rbacx.PyS.Trace :=\n"
            f"  {' '.join([LEAN_NAME] + args)}\n")
    return (head +
            "namespace Src\n\n" + fr["lean"] + "\n" + disp + "\n" + ps.render_assembly(f["assembly"]) + "\nend Src\n")
