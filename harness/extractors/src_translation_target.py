"""Mechanical translation of the TARGET MATCHER — `_is_strict` and `match_resource` of core/policy.py — from the CURRENT source text
into Lean (harness/pytolean.py with `joins=True, oracle=True`; see the "TARGET-MATCHER EXTENSIONS" in its docstring).

`match_resource` decides whether a rule's resource target matches a request, i.e. which rules are candidates at all (C05; C03's
tiers select among them).  The per-run obligation `Run/C05_translated.lean` proves the generated `Src.match_resource o rdef resource
strict` equal to the hand-written model `Rbacx.matchResource` (Model/Target.lean), for every input; `Run/SrcEvalTarget.lean`
evaluates the translation for the differential check `translated_vs_python` in harness/props/c05.py.

A plugin of its own (rendered after `src_translation` and `src_translation_fragments`: plugins are taken in alphabetical order) so that
a change to `match_resource` which leaves the translatable subset fails C05's obligation only, not those of C02/C03/C17."""
from __future__ import annotations

import os

KEY = "translated_target"
IMPORTS = ["Rbacx.Model.PyLib"]

FILE = "src/rbacx/core/policy.py"
NAMES = ["_is_strict", "match_resource"]          # callees first


def extract(repo: str) -> dict:
    import pytolean
    src = open(os.path.join(repo, FILE), encoding="utf-8").read()
    return dict(pytolean.translate(src, NAMES, joins=True, oracle=True))


def render(f: dict) -> str:
    body = "\n".join(f[name] for name in NAMES)
    return ("/-! C05: `_is_strict` and `match_resource` (core/policy.py) as the source has them now (harness/pytolean.py) -/\n"
            "namespace Src\n\n" + body + "\nend Src\n")
