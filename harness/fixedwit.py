"""Replay of the guard-level witnesses of repaired defects (corpus/fixed.json) against the real code."""
from __future__ import annotations

import json
import os

import lib
import real


def cached_checker_sequence(w: dict) -> list:
    """one cached engine, the same request several times, a checker derived from the built-in one whose own verdict follows
    `w["verdicts"]` (True = no objection): [allowed, effect, reason, challenge] of every evaluation"""
    from rbacx.core.cache import DefaultInMemoryCache
    from rbacx.core.engine import Guard
    from rbacx.core.obligations import BasicObligationChecker
    state = {"i": 0}

    class Derived(BasicObligationChecker):
        def check(self, decision, context):
            ok, ch = super().check(decision, context)
            mine = w["verdicts"][min(state["i"], len(w["verdicts"]) - 1)]
            return (ok, ch) if (not ok or mine) else (False, "reauth")
    g = Guard(w["policy"], cache=DefaultInMemoryCache(), obligation_checker=Derived())
    s_, a_, r_, c_ = real.make_request(w["request"])
    out = []
    for i in range(len(w["verdicts"])):
        state["i"] = i
        d = g.evaluate_sync(s_, a_, r_, c_)
        out.append([d.allowed, d.effect, d.reason, d.challenge])
    return out


def replay_fixed(run: lib.Run, ids: list[str]) -> list[tuple[str, bool]]:
    """returns violations [(replay_path, True)] for every listed fixed finding that reproduces"""
    corpus = json.load(open(os.path.join(lib.VERIF, "corpus", "fixed.json")))
    out = []
    for fid in ids:
        w = corpus[fid]
        if w.get("kind") == "cached-checker-sequence":
            res = cached_checker_sequence(w)
            ok = res == w["expect"]
        else:
            res = real.run_guard(w["policy"], w["request"], w.get("cfg") or {})
            ok = "ok" in res and all(res["ok"][k] == v for k, v in w["expect"].items())
        run.count("fixed-witness:" + ("holds" if ok else "REPRODUCES"))
        if not ok:
            path = run.write_replay(f"fixed_{fid}", {"what": f"repaired defect {fid} is back (see known_findings.json)", "case": {**w, "impl": res}})
            out.append((path, True))
    return out
