"""Replay of the guard-level witnesses of repaired defects (corpus/fixed.json) against the real code."""
from __future__ import annotations

import json
import os

import lib
import real


def cached_checker_sequence(w: dict) -> list:
    """one cached engine, the same request several times, a checker derived from the built-in one whose own verdict follows
    `w["verdicts"]` (True = no objection): [allowed, effect, reason, challenge] of every evaluation"""
    from rbacx.core.cache import DefaultInMemoryCache
    from rbacx.core.engine import Guard
    from rbacx.core.obligations import BasicObligationChecker
    state = {"i": 0}

    class Derived(BasicObligationChecker):
        def check(self, decision, context):
            ok, ch = super().check(decision, context)
            mine = w["verdicts"][min(state["i"], len(w["verdicts"]) - 1)]
            return (ok, ch) if (not ok or mine) else (False, "reauth")
    g = Guard(w["policy"], cache=DefaultInMemoryCache(), obligation_checker=Derived())
    s_, a_, r_, c_ = real.make_request(w["request"])
    out = []
    for i in range(len(w["verdicts"])):
        state["i"] = i
        d = g.evaluate_sync(s_, a_, r_, c_)
        out.append([d.allowed, d.effect, d.reason, d.challenge])
    return out


def http_hints(w: dict) -> list:
    """one response body served with a content type / URL, the response object offering its own `.json()` as every real
    `requests.Response` does: [what HTTPPolicySource.load() delivers, what parse_policy_text makes of the same text under the same hints]"""
    import sys
    import types
    from rbacx.store.http_store import HTTPPolicySource
    from rbacx.store.policy_loader import parse_policy_text

    class Resp:
        status_code = 200
        headers = {"Content-Type": w["content_type"]} if w.get("content_type") else {}
        text = w["text"]

        def json(self):
            return json.loads(w["text"])

        def raise_for_status(self):
            return None
    fake = types.ModuleType("requests")
    fake.get = lambda *a, **k: Resp()
    saved = sys.modules.get("requests")
    sys.modules["requests"] = fake
    try:
        return [HTTPPolicySource(w["url"]).load(), parse_policy_text(w["text"], filename=w["url"], content_type=w.get("content_type"))]
    finally:
        if saved is not None:
            sys.modules["requests"] = saved
        else:
            sys.modules.pop("requests", None)


def replay_fixed(run: lib.Run, ids: list[str]) -> list[tuple[str, bool]]:
    """returns violations [(replay_path, True)] for every listed fixed finding that reproduces"""
    corpus = json.load(open(os.path.join(lib.VERIF, "corpus", "fixed.json")))
    out = []
    for fid in ids:
        w = corpus[fid]
        if w.get("kind") == "cached-checker-sequence":
            res = cached_checker_sequence(w)
            ok = res == w["expect"]
        elif w.get("kind") == "http-hints":
            res = http_hints(w)
            ok = res[0] == res[1]
        else:
            res = real.run_guard(w["policy"], w["request"], w.get("cfg") or {})
            ok = "ok" in res and all(res["ok"][k] == v for k, v in w["expect"].items())
        run.count("fixed-witness:" + ("holds" if ok else "REPRODUCES"))
        if not ok:
            path = run.write_replay(f"fixed_{fid}", {"what": f"repaired defect {fid} is back (see known_findings.json)", "case": {**w, "impl": res}})
            out.append((path, True))
    return out
