"""Replay of the guard-level witnesses of repaired defects (corpus/fixed.json) against the real code."""
from __future__ import annotations

import json
import os

import lib
import real


def cached_checker_sequence(w: dict) -> list:
    """one cached engine, the same request several times, a checker derived from the built-in one whose own verdict follows
    `w["verdicts"]` (True = no objection): [allowed, effect, reason, challenge] of every evaluation"""
    from rbacx.core.cache import DefaultInMemoryCache
    from rbacx.core.engine import Guard
    from rbacx.core.obligations import BasicObligationChecker
    state = {"i": 0}

    class Derived(BasicObligationChecker):
        def check(self, decision, context):
            ok, ch = super().check(decision, context)
            mine = w["verdicts"][min(state["i"], len(w["verdicts"]) - 1)]
            return (ok, ch) if (not ok or mine) else (False, "reauth")
    g = Guard(w["policy"], cache=DefaultInMemoryCache(), obligation_checker=Derived())
    s_, a_, r_, c_ = real.make_request(w["request"])
    out = []
    for i in range(len(w["verdicts"])):
        state["i"] = i
        d = g.evaluate_sync(s_, a_, r_, c_)
        out.append([d.allowed, d.effect, d.reason, d.challenge])
    return out


def http_hints(w: dict) -> list:
    """one response body served with a content type / URL, the response object offering its own `.json()` as every real
    `requests.Response` does: [what HTTPPolicySource.load() delivers, what parse_policy_text makes of the same text under the same hints]"""
    import sys
    import types
    from rbacx.store.http_store import HTTPPolicySource
    from rbacx.store.policy_loader import parse_policy_text

    class Resp:
        status_code = 200
        headers = {"Content-Type": w["content_type"]} if w.get("content_type") else {}
        text = w["text"]

        def json(self):
            return json.loads(w["text"])

        def raise_for_status(self):
            return None
    fake = types.ModuleType("requests")
    fake.get = lambda *a, **k: Resp()
    saved = sys.modules.get("requests")
    sys.modules["requests"] = fake
    try:
        return [HTTPPolicySource(w["url"]).load(), parse_policy_text(w["text"], filename=w["url"], content_type=w.get("content_type"))]
    finally:
        if saved is not None:
            sys.modules["requests"] = saved
        else:
            sys.modules.pop("requests", None)


def awaitable_sink(w: dict) -> dict:
    """one Guard whose log sink and metrics sink are written as PLAIN methods that RETURN an awaitable (the ports' `-> None |
    Awaitable[None]`; `w["awaitable"]`: "coroutine" = a coroutine object, "object" = an object with `__await__`), one evaluation
    through `w["api"]` ("sync" | "async" | "sync-in-loop"): what was actually emitted — a record / an increment counts only when the
    awaitable the sink handed back was awaited — {"effect", "audit_records", "increments", "observations", "audit_decision",
    "metric_labels"}"""
    import asyncio
    import warnings
    from rbacx.core.engine import Guard
    stored: list = []
    incs: list = []
    obs: list = []

    class Later:
        def __init__(self, work):
            self.work = work

        def __await__(self):
            self.work()
            return None
            yield  # noqa: unreachable — makes __await__ a generator function

    def deferred(work):
        if w.get("awaitable", "coroutine") == "object":
            return Later(work)

        async def later():
            work()
        return later()

    class L:
        def log(self, payload):                      # DecisionLogSink.log -> None | Awaitable[None]
            return deferred(lambda: stored.append(payload))

    class M:
        def inc(self, name, labels=None):            # MetricsSink.inc -> None | Awaitable[None]
            return deferred(lambda: incs.append((name, labels)))

        def observe(self, name, value, labels=None):
            return deferred(lambda: obs.append((name, labels)))
    g = Guard(w["policy"], logger_sink=L(), metrics=M())
    s_, a_, r_, c_ = real.make_request(w["request"])
    with warnings.catch_warnings():
        warnings.simplefilter("ignore", RuntimeWarning)        # "coroutine … was never awaited" is the defect itself
        api = w.get("api", "sync")
        if api == "async":
            d = asyncio.run(g.evaluate_async(s_, a_, r_, c_))
        elif api == "sync-in-loop":
            async def outer():
                return g.evaluate_sync(s_, a_, r_, c_)
            d = asyncio.run(outer())
        else:
            d = g.evaluate_sync(s_, a_, r_, c_)
    return {"effect": d.effect, "audit_records": len(stored), "increments": len(incs), "observations": len(obs),
            "audit_decision": [p.get("decision") for p in stored], "metric_labels": [lb for _, lb in incs]}


def replay_fixed(run: lib.Run, ids: list[str]) -> list[tuple[str, bool]]:
    """returns violations [(replay_path, True)] for every listed fixed finding that reproduces"""
    corpus = json.load(open(os.path.join(lib.VERIF, "corpus", "fixed.json")))
    out = []
    for fid in ids:
        w = corpus[fid]
        if w.get("kind") == "cached-checker-sequence":
            res = cached_checker_sequence(w)
            ok = res == w["expect"]
        elif w.get("kind") == "http-hints":
            res = http_hints(w)
            ok = res[0] == res[1]
        elif w.get("kind") == "awaitable-sink":
            res = awaitable_sink(w)
            ok = all(res.get(k) == v for k, v in w["expect"].items())
        else:
            res = real.run_guard(w["policy"], w["request"], w.get("cfg") or {})
            ok = "ok" in res and all(res["ok"][k] == v for k, v in w["expect"].items())
        run.count("fixed-witness:" + ("holds" if ok else "REPRODUCES"))
        if not ok:
            path = run.write_replay(f"fixed_{fid}", {"what": f"repaired defect {fid} is back (see known_findings.json)", "case": {**w, "impl": res}})
            out.append((path, True))
    return out
