"""Replay of the guard-level witnesses of repaired defects (corpus/fixed.json) against the real code."""
from __future__ import annotations

import json
import os

import lib
import real


def replay_fixed(run: lib.Run, ids: list[str]) -> list[tuple[str, bool]]:
    """returns violations [(replay_path, True)] for every listed fixed finding that reproduces"""
    corpus = json.load(open(os.path.join(lib.VERIF, "corpus", "fixed.json")))
    out = []
    for fid in ids:
        w = corpus[fid]
        res = real.run_guard(w["policy"], w["request"], w.get("cfg") or {})
        ok = "ok" in res and all(res["ok"][k] == v for k, v in w["expect"].items())
        run.count("fixed-witness:" + ("holds" if ok else "REPRODUCES"))
        if not ok:
            path = run.write_replay(f"fixed_{fid}", {"what": f"repaired defect {fid} is back (see known_findings.json)", "case": {**w, "impl": res}})
            out.append((path, True))
    return out
