"""C16: the TRANSLATED `atomic_write` / `FilePolicySource` methods (Generated.Src.fs_*, evaluated by `lake env lean --run
Rbacx/Run/SrcEvalFileStore.lean` over a log-and-script world) against the REAL functions driven with every call that leaves the
function replaced by a stub that logs the call and behaves as the same script says.

What is replaced (in the globals of `rbacx.store.file_store` only, restored afterwards): `os` (a namespace with the real `os.path` and
scripted `stat` / `fdopen` / `replace` / `unlink`), `tempfile` (scripted `mkstemp`), `open`, `parse_policy_text`; the attribute
`validate_policy` of `rbacx.dsl.validate`; `_hash_file` on the instance.  A file object is a stub whose `write` / `read` / `close` are
scripted calls and whose `__exit__` calls `close()` and returns None — what `io.IOBase.__exit__` does.

Compared: the calls in order with their positional and keyword arguments, the cache attributes afterwards, the value returned / the
class raised."""
from __future__ import annotations

import builtins
import itertools
import json
import subprocess
import types

import lib
import proto

FILE = "<file object>"


class ScriptExhausted(Exception):
    pass


def exc_class(name: str):
    if name == "ScriptExhausted":
        return ScriptExhausted
    c = getattr(builtins, name)
    assert isinstance(c, type) and issubclass(c, BaseException)
    c()   # the scripted classes are raised without arguments
    return c


class World:
    def __init__(self, script: list):
        self.calls: list = []
        self.script = list(script)

    def norm(self, v):
        if isinstance(v, FakeFile):
            return FILE
        if isinstance(v, types.SimpleNamespace):
            return {k: self.norm(x) for k, x in vars(v).items()}
        if isinstance(v, (list, tuple)):
            return [self.norm(x) for x in v]
        if isinstance(v, dict):
            return {k: self.norm(x) for k, x in v.items()}
        return v

    def call(self, name: str, args, kwargs):
        self.calls.append({"name": name, "args": self.norm(list(args)), "kwargs": self.norm(dict(kwargs))})
        o = self.script.pop(0) if self.script else ("raised", "ScriptExhausted")
        if o[0] == "raised":
            raise exc_class(o[1])()
        if o[0] == "file":
            return FakeFile(self)
        if o[0] == "stat":
            return types.SimpleNamespace(**o[1])
        return o[1]


class FakeFile:
    def __init__(self, world: World):
        self._w = world

    def __enter__(self):
        return self

    def __exit__(self, *a):
        self.close()
        return None

    def write(self, *a, **k):
        return self._w.call("file_write", [self, *a], k)

    def read(self, *a, **k):
        return self._w.call("file_read", [self, *a], k)

    def close(self):
        return self._w.call("file_close", [self], {})


def script_json(script: list) -> list:
    out = []
    for o in script:
        if o[0] == "raised":
            out.append({"raised": o[1]})
        elif o[0] == "file":
            out.append({"ok": FILE})
        elif o[0] == "stat":
            out.append({"ok": proto.enc(o[1])})
        else:
            out.append({"ok": proto.enc(o[1])})
    return out


class Stubs:
    """the module's view of the outside replaced by scripted stubs"""

    def __init__(self, mod, world: World):
        import os as real_os
        self.mod, self.world = mod, world
        w = world
        self.repl = {
            "os": types.SimpleNamespace(path=real_os.path, stat=lambda *a, **k: w.call("os_stat", a, k), fdopen=lambda *a, **k: w.call("os_fdopen", a, k),
                                        replace=lambda *a, **k: w.call("os_replace", a, k), unlink=lambda *a, **k: w.call("os_unlink", a, k)),
            "tempfile": types.SimpleNamespace(mkstemp=lambda *a, **k: w.call("mkstemp", a, k)),
            "open": lambda *a, **k: w.call("file_open", a, k),
            "parse_policy_text": lambda *a, **k: w.call("parse_policy_text", a, k),
        }

    def __enter__(self):
        import rbacx.dsl.validate as val
        g = vars(self.mod)
        self.saved = {k: (k in g, g.get(k)) for k in self.repl}
        g.update(self.repl)
        self.val, self.saved_val = val, val.validate_policy
        val.validate_policy = lambda *a, **k: self.world.call("validate_policy", a, k)
        return self

    def __exit__(self, *a):
        g = vars(self.mod)
        for k, (had, v) in self.saved.items():
            if had:
                g[k] = v
            else:
                g.pop(k, None)
        self.val.validate_policy = self.saved_val
        return False


def run_real(mod, case: dict) -> dict:
    """one call of the real function under the script"""
    world = World(case["script"])
    fields = None
    with Stubs(mod, world):
        try:
            if case["fn"] == "atomic_write":
                a = case["args"]
                r = mod.atomic_write(a["path"], a["data"], encoding=a["encoding"])
            else:
                src = mod.FilePolicySource(case["self"]["path"], validate_schema=case["self"].get("validate_schema", False),
                                           include_mtime_in_etag=case["self"].get("include_mtime_in_etag", False))
                src._cached_stat_sig = case["fields"]["_cached_stat_sig"]
                src._cached_sha = case["fields"]["_cached_sha"]
                src._hash_file = lambda *a, **k: world.call("hash_file", a, k)
                try:
                    r = getattr(src, case["fn"].split(".", 1)[1])()
                finally:
                    fields = {"_cached_stat_sig": world.norm(src._cached_stat_sig), "_cached_sha": world.norm(src._cached_sha)}
            out = {"ok": world.norm(r)}
        except BaseException as e:  # noqa: BLE001  (KeyboardInterrupt is one of the scripted classes)
            out = {"raised": type(e).__name__}
    return {"calls": world.calls, "fields": fields if fields is not None else {}, "out": out}


def lean_line(case: dict) -> str:
    import os as real_os
    pure = {}
    if case["fn"] == "atomic_write":
        p = case["args"]["path"]
        pure = {"os_path_dirname": [[proto.enc(p), proto.enc(real_os.path.dirname(p))]]}
    enc_d = lambda d: {k: proto.enc(v) for k, v in d.items()}  # noqa: E731
    return json.dumps({"fn": case["fn"], "self": enc_d(case.get("self", {})), "fields": enc_d(case.get("fields", {})),
                       "args": enc_d(case.get("args", {})), "pure": pure, "script": script_json(case["script"])})


def lean_result(j: dict) -> dict:
    if "error" in j:
        return j
    return {"calls": [{"name": c["name"], "args": [proto.dec(x) for x in c["args"]], "kwargs": {k: proto.dec(v) for k, v in c["kwargs"].items()}}
                      for c in j["calls"]],
            "fields": {k: proto.dec(v) for k, v in j["fields"].items()},
            "out": {"ok": proto.dec(j["out"]["ok"])} if "ok" in j["out"] else j["out"]}


RAISE = ["OSError", "FileNotFoundError", "KeyboardInterrupt"]


def atomic_cases(wide: bool) -> list[dict]:
    """every script over the (at most six) call sites: ok or one of the classes at each call, cleanup calls included (so also two and
    more faults in one run); plus malformed `mkstemp` results for the unpacking"""
    classes = RAISE + (["PermissionError", "ValueError", "SystemExit", "MemoryError"] if wide else [])
    cases = []
    args = [{"path": "/d/policy.json", "data": '{"rules": []}', "encoding": "utf-8"}, {"path": "policy.yaml", "data": "", "encoding": "latin-1"}]

    def scripts(i: int, prefix: list):
        # the function makes at most 6 calls; positions are by CALL NUMBER, not by call site
        if i == 6:
            yield prefix
            return
        for o in [None] + classes:
            yield from scripts(i + 1, prefix + [o])
    for a in args[:2 if wide else 1]:
        for sc in scripts(0, []):
            # the ok value of a call must fit the call SITE that is reached: given by the name of the call at the time of the call (`resolve_dyn`)
            cases.append({"fn": "atomic_write", "args": a, "script": [("dyn", o) for o in sc]})
    for bad in [("val", None), ("val", (7,)), ("val", (7, "/d/.t", 3)), ("val", "ab"), ("val", 5)]:
        cases.append({"fn": "atomic_write", "args": args[0], "script": [bad] + [("dyn", None)] * 5})
    return cases


OK_BY_NAME = {"mkstemp": ("val", (7, "/d/.rbacx.tmp.k3")), "os_fdopen": ("file",), "file_open": ("file",), "file_write": ("val", 13),
              "file_close": ("val", None), "os_replace": ("val", None), "os_unlink": ("val", None)}


def resolve_dyn(mod, case: dict) -> dict:
    """a script given as `("dyn", None | class)` per call number: the ok value of a call depends on WHICH call it is, which only the run
    tells; run the real function once with a world that picks the ok value by the name of the call, and record the concrete script"""
    if not any(o[0] == "dyn" for o in case["script"]):
        return case
    concrete: list = []

    class DynWorld(World):
        def call(self, name, args, kwargs):
            o = self.script[0] if self.script else ("raised", "ScriptExhausted")
            if o[0] == "dyn":
                o = ("raised", o[1]) if o[1] is not None else OK_BY_NAME.get(name, ("val", None))
                self.script[0] = o
            if self.script:
                concrete.append(self.script[0])
            return super().call(name, args, kwargs)
    w = DynWorld(case["script"])
    with Stubs(mod, w):
        try:
            a = case["args"]
            mod.atomic_write(a["path"], a["data"], encoding=a["encoding"])
        except BaseException:  # noqa: BLE001
            pass
    return {**case, "script": concrete}


def source_cases(wide: bool) -> list[dict]:
    cases = []
    sigs = [None, (2, 5), (2, 6), (3, 5)]
    shas = [None, "aa", ""]
    stat = lambda size, ns: ("stat", {"st_size": size, "st_mtime_ns": ns, "st_mtime": ns / 1e9})  # noqa: E731
    stats = [stat(2, 5), stat(3, 5), ("raised", "FileNotFoundError"), ("raised", "PermissionError"), ("raised", "KeyboardInterrupt")]
    hashes = [("val", "bb"), ("raised", "FileNotFoundError"), ("raised", "OSError")]
    if wide:
        sigs += [(2, 5, 1), "x"]
        stats += [stat(0, 0), stat(2, 10 ** 19), ("raised", "OSError"), ("raised", "NotADirectoryError")]
        hashes += [("val", ""), ("raised", "KeyboardInterrupt")]
    for fn, mts in (("FilePolicySource._stat_sig", [False]), ("FilePolicySource._ensure_content_sha", [False]),
                    ("FilePolicySource.etag", [False, True] + ([1, 0, None, "yes"] if wide else []))):
        for sig, sha, st, h, mt in itertools.product(sigs, shas, stats, hashes, mts):
            if fn.endswith("_stat_sig") and (h != hashes[0] or sha is not None):
                continue
            cases.append({"fn": fn, "self": {"path": "/d/policy.json", "include_mtime_in_etag": mt},
                          "fields": {"_cached_stat_sig": sig, "_cached_sha": sha}, "script": [st, h]})
    # load: open, read, close, parse, validate — every combination of ok / raising
    doc = {"rules": [], "algorithm": "deny-overrides"}
    oks = [("file",), ("val", '{"rules": []}'), ("val", None), ("val", doc), ("val", None)]
    classes = ["FileNotFoundError", "ValueError", "KeyboardInterrupt"] + (["OSError", "SystemExit", "IsADirectoryError"] if wide else [])
    for path, vs in itertools.product(["/d/policy.json", "rules.YAML"], [False, True] + ([1, None] if wide else [])):
        for sc in itertools.product(*[[None] + classes] * 5):
            script = [oks[i] if c is None else ("raised", c) for i, c in enumerate(sc)]
            # (after a failing read the next call is the `with` exit, at the position of the straight run's close: the ok values fit)
            cases.append({"fn": "FilePolicySource.load", "self": {"path": path, "validate_schema": vs},
                          "fields": {"_cached_stat_sig": (1, 2), "_cached_sha": "cc"}, "script": script})
    return cases


def translated_vs_python(run: lib.Run, mod, facts: dict, wide: bool = False) -> tuple[bool, str]:
    cases = []
    if "failed" not in facts.get("atomic", {"failed": 1}):
        cases += [resolve_dyn(mod, c) for c in atomic_cases(wide)]
    if "failed" not in facts.get("source", {"failed": 1}):
        cases += source_cases(wide)
    if not cases:
        return True, "skipped: nothing is in the translatable subset (see C16_translated / C16_atomic)"
    # the script cut to the calls the real function makes (a translation that makes more calls runs into ScriptExhausted); distinct cases only
    uniq, seen = [], set()
    for c in cases:
        c["script"] = c["script"][:len(run_real(mod, c)["calls"])]
        k = json.dumps([c["fn"], c.get("self"), c.get("fields"), c.get("args"), c["script"]], sort_keys=True, default=str)
        if k not in seen:
            seen.add(k)
            uniq.append(c)
    cases = uniq
    lines = [lean_line(c) for c in cases]
    p = subprocess.run(["lake", "env", "lean", "--run", "Rbacx/Run/SrcEvalFileStore.lean"], cwd=lib.LEAN, input="\n".join(lines) + "\n",
                       capture_output=True, text=True, timeout=1800)
    outs = [ln for ln in p.stdout.split("\n") if ln]
    if p.returncode != 0 or len(outs) != len(lines):
        return False, "SrcEvalFileStore: " + (p.stderr or p.stdout)[-800:]
    bad = 0
    for c, ln in zip(cases, outs):
        have = lean_result(json.loads(ln))
        want = run_real(mod, c)
        if not c["fn"].startswith("FilePolicySource"):
            want["fields"] = {}
        run.count("translated-filestore: " + c["fn"])
        run.count("translated-filestore: " + c["fn"] + (" returned" if "ok" in want["out"] else " raised " + want["out"]["raised"]))
        if have != want:
            bad += 1
            if bad <= 1:
                run.disagreements.append({"part": "translated source vs python", "kind": "translated", "case": {k: (v if k != "script" else [list(o) for o in v]) for k, v in c.items()},
                                          "impl": {"python": want}, "model": have,
                                          "what": f"the translated {c['fn']} (Generated.Src.fs_*) and the real function differ in their calls / cache "
                                                  f"attributes / result under the same scripted outcomes"})
    run.evaluations += len(cases)
    return bad == 0, f"{bad} of {len(cases)} evaluations differ" if bad else f"agree on {len(cases)} evaluations"


def _tuples(v):
    if isinstance(v, list):
        return tuple(_tuples(x) for x in v)
    if isinstance(v, dict):
        return {k: _tuples(x) for k, x in v.items()}
    return v


def replay_case(mod, c: dict) -> int:
    """re-run one recorded comparison (a replay file stores tuples as lists: turned back)"""
    case = dict(c["case"])
    case["fields"] = {k: _tuples(v) for k, v in case.get("fields", {}).items()}
    case["script"] = [(o[0], o[1] if o[0] in ("raised", "stat") else _tuples(o[1])) if len(o) > 1 else tuple(o) for o in case["script"]]
    p = subprocess.run(["lake", "env", "lean", "--run", "Rbacx/Run/SrcEvalFileStore.lean"], cwd=lib.LEAN, input=lean_line(case) + "\n",
                       capture_output=True, text=True, timeout=600)
    have = lean_result(json.loads(p.stdout.strip().split("\n")[0])) if p.returncode == 0 and p.stdout.strip() else {"error": (p.stderr or p.stdout)[-400:]}
    want = run_real(mod, case)
    if not case["fn"].startswith("FilePolicySource"):
        want["fields"] = {}
    print("function:", case["fn"], "| script:", case["script"])
    print("real function :", json.dumps(want, default=str)[:1200])
    print("translation   :", json.dumps(have, default=str)[:1200])
    return 1 if have != want else 0
