"""Shared structured generators: policies from the bundled schema's grammar, requests generated
towards the policy, plus a hostile value stream (DESIGN §5.0).  Every choice comes from the one
`random.Random` passed in, so a case replays from (seed, index)."""
from __future__ import annotations

import math
import random
from datetime import datetime, timedelta, timezone
from typing import Any

ACTIONS = ["read", "write", "delete"]
TYPES = ["doc", "file", "img"]
ALGOS = ["deny-overrides", "permit-overrides", "first-applicable"]
NEAR_DUP = ["1", 1, 1.0, True, "True", None, "None", "2", 2, "x", "", 0, False, 0.0]
ATTR_KEYS = ["owner", "level", "tag"]
ISO = ["2024-01-01T00:00:00Z", "2024-06-01T12:00:00+00:00", "2024-06-01T12:00:00+02:00",
       "2025-01-01T00:00:00", "2024-01-01", "2024-06-01T12:00:00.5Z"]
EPOCHS = [0, 1704067200, 1717243200.5, 1735689600, -1]
OBL_TYPES = ["require_mfa", "require_level", "http_challenge", "require_consent", "require_terms_accept",
             "require_captcha", "require_reauth", "require_age_verified"]

HOSTILE_NUMS = [float("nan"), float("inf"), float("-inf"), -0.0, 1e30, -1e18, 10**400, -(10**400), 2**53 + 1,
                2**63, -(2**63), 2**1024, 1e308, 5e-324, 253402300800, -62135596801, 1.7976931348623157e308]
HOSTILE_STRS = ["", " ", "NaN", "inf", "1e999", "0001-01-01T00:00:00+23:59", "9999-12-31T23:59:59-23:59",
                "2024-13-01", "2024-01-01T25:00:00", "not a date", "é" * 3, "a.b", ":", "user:1", "1_0", " 3 ",
                "2024-06-01T12:00:00+99:00", "\u0000", "१"]


def choice(r: random.Random, xs):
    return xs[r.randrange(len(xs))]


def gen_scalar(r: random.Random, hostile: bool = False) -> Any:
    if hostile and r.random() < 0.5:
        return choice(r, HOSTILE_NUMS) if r.random() < 0.5 else choice(r, HOSTILE_STRS)
    k = r.random()
    if k < 0.45:
        return choice(r, NEAR_DUP)
    if k < 0.6:
        return choice(r, ISO)
    if k < 0.7:
        return choice(r, EPOCHS)
    if k < 0.8:
        return r.randrange(-3, 8)
    if k < 0.87:
        return r.choice([0.5, 1.5, 2.0, 3.25, -1.0])
    return choice(r, ["admin", "user", "alice", "bob", "doc", "read", "ab", "abc", "b"])


def gen_value(r: random.Random, depth: int = 2, hostile: bool = False) -> Any:
    k = r.random()
    if depth <= 0 or k < 0.6:
        return gen_scalar(r, hostile)
    if k < 0.85:
        return [gen_value(r, depth - 1, hostile) for _ in range(r.randrange(0, 4))]
    return {choice(r, ["a", "b", "k", "owner"]): gen_value(r, depth - 1, hostile) for _ in range(r.randrange(0, 3))}


PATHS = ["subject.id", "subject.roles", "subject.attrs.level", "subject.attrs.owner", "subject.attrs.tag",
         "resource.id", "resource.type", "resource.attrs.owner", "resource.attrs.level", "resource.attrs.tag",
         "context.n", "context.when", "context.s", "context.xs", "context.missing", "context.n.deeper",
         "action", "nope.nope", "context", "context.xs.0", "context.xs.7", "context.xs.-1", "subject.roles.0", "context.xs.²", "context.n.0"]


def gen_operand(r: random.Random, kind: str, hostile: bool) -> Any:
    """An operand for an operator expecting `kind` ∈ num/str/col/time/any – mostly well-typed."""
    if r.random() < 0.45:
        return {"attr": choice(r, PATHS)}
    if r.random() < 0.15:
        return gen_value(r, 1, hostile)  # deliberately maybe ill-typed
    if kind == "num":
        return choice(r, [0, 1, 2, 3, 1.5, 2.0, -1, 5]) if not (hostile and r.random() < 0.4) else choice(r, HOSTILE_NUMS)
    if kind == "str":
        return choice(r, ["a", "ab", "abc", "b", "", "admin", "1", "user"]) if not (hostile and r.random() < 0.3) else choice(r, HOSTILE_STRS)
    if kind == "col":
        k = r.random()
        if k < 0.08:
            return [gen_scalar(r, hostile) for _ in range(r.randrange(9, 14))]              # beyond any small-size fast path
        if k < 0.14:
            return [gen_value(r, 1, hostile) for _ in range(r.randrange(1, 4))]               # nested lists / objects as members
        return [gen_scalar(r, hostile) for _ in range(r.randrange(0, 4))] if k < 0.85 else choice(r, ["abc", "admin"])
    if kind == "time":
        k = r.random()
        if hostile and k < 0.4:
            return choice(r, HOSTILE_NUMS + HOSTILE_STRS)
        return choice(r, ISO) if k < 0.8 else choice(r, EPOCHS)
    return gen_value(r, 1, hostile)


BIN_KINDS = {"==": ("any", "any"), "!=": ("any", "any"), ">": ("num", "num"), "<": ("num", "num"),
             ">=": ("num", "num"), "<=": ("num", "num"), "contains": ("col", "any"), "in": ("any", "col"),
             "hasAll": ("col", "col"), "hasAny": ("col", "col"), "startsWith": ("str", "str"),
             "endsWith": ("str", "str"), "before": ("time", "time"), "after": ("time", "time")}


def gen_cond(r: random.Random, depth: int = 3, hostile: bool = False, rel: bool = False) -> Any:
    k = r.random()
    if depth <= 0 or k < 0.08:
        return r.random() < 0.6
    if k < 0.30 and depth > 0:
        op = choice(r, ["and", "or"])
        return {op: [gen_cond(r, depth - 1, hostile, rel) for _ in range(r.randrange(0, 4))]}
    if k < 0.38:
        return {"not": gen_cond(r, depth - 1, hostile, rel)}
    if rel and k < 0.5:
        if r.random() < 0.5:
            return {"rel": choice(r, ["viewer", "owner", "editor"])}
        e: dict[str, Any] = {"relation": choice(r, ["viewer", "owner"])}
        if r.random() < 0.5:
            e["subject"] = choice(r, ["user:9", "bob", {"attr": "context.s"}, {"attr": "subject.id"}])
        if r.random() < 0.5:
            e["resource"] = choice(r, ["doc:7", "7", {"attr": "resource.id"}, {"attr": "context.n"}])
        if r.random() < 0.4:
            e["ctx"] = choice(r, [{}, {"ip": "10.0.0.1"}, {"k": 1}])
        return {"rel": e}
    if k < 0.46:
        return {"between": [gen_operand(r, "time", hostile),
                            [gen_operand(r, "time", hostile), gen_operand(r, "time", hostile)]
                            if r.random() < 0.85 else gen_operand(r, "col", hostile)]}
    op = choice(r, list(BIN_KINDS))
    ka, kb = BIN_KINDS[op]
    return {op: [gen_operand(r, ka, hostile), gen_operand(r, kb, hostile)]}


def gen_obligation(r: random.Random) -> dict:
    ob: dict[str, Any] = {}
    k = r.random()
    ob["type"] = choice(r, OBL_TYPES) if k < 0.85 else choice(r, ["require_geo", "log", "", ["require_mfa"], {"t": 1}, 7])
    on = r.random()
    if on < 0.5:
        ob["on"] = "permit"
    elif on < 0.65:
        ob["on"] = "deny"
    elif on < 0.7:
        ob["on"] = choice(r, ["advice", "", None])
    t = ob["type"]
    a = r.random()
    if t == "require_level":
        ob["attrs"] = {"min": choice(r, [0, 1, 2, 3, 2.7, "2", "x", None, True, float("nan"), [2]])} if a < 0.9 else {}
    elif t == "require_reauth":
        ob["attrs"] = {"max_age": choice(r, [0, 60, 300, 60.5, "60", "oops", None, -1])} if a < 0.9 else {}
    elif t == "http_challenge":
        ob["attrs"] = choice(r, [{"scheme": "Basic"}, {"scheme": "BEARER"}, {"scheme": "digest"}, {"scheme": "ntlm"},
                                 {}, {"scheme": None}, {"scheme": 5}])
    elif t == "require_consent":
        ob["attrs"] = choice(r, [{}, {"key": "tos"}, {"key": "k"}, {"key": None}, {"key": 1}])
    elif a < 0.2:
        ob["attrs"] = choice(r, [{}, {"x": 1}])
    return ob


def gen_resource_def(r: random.Random, rtype_hint: str) -> dict:
    rd: dict[str, Any] = {}
    k = r.random()
    if k < 0.55:
        rd["type"] = rtype_hint
    elif k < 0.7:
        rd["type"] = "*"
    elif k < 0.85:
        rd["type"] = r.sample(TYPES + ["*"], r.randrange(1, 3))
    else:
        rd["type"] = choice(r, TYPES)
    if r.random() < 0.3:
        rd["id"] = choice(r, NEAR_DUP[:11])
    if r.random() < 0.3:
        key = "attrs" if r.random() < 0.8 else "attributes"
        rd[key] = {choice(r, ATTR_KEYS): (choice(r, NEAR_DUP) if r.random() < 0.7 else
                                          [choice(r, NEAR_DUP) for _ in range(r.randrange(1, 3))])
                   for _ in range(r.randrange(1, 3))}
    return rd


def gen_rule(r: random.Random, idx: int, rtype_hint: str, hostile: bool = False, rel: bool = False,
             obligations: bool = True) -> dict:
    rule: dict[str, Any] = {}
    k = r.random()
    rule["id"] = f"r{idx}" if k < 0.85 else choice(r, ["", "dup", "r0"])
    rule["effect"] = "permit" if r.random() < 0.55 else "deny"
    acts = r.sample(ACTIONS + ["*"], r.randrange(1, 3))
    rule["actions"] = acts
    rule["resource"] = gen_resource_def(r, rtype_hint)
    if r.random() < 0.55:
        rule["condition"] = gen_cond(r, 3, hostile, rel)
    if obligations and r.random() < 0.3:
        rule["obligations"] = [gen_obligation(r) for _ in range(r.randrange(1, 3))]
    return rule


def gen_policy(r: random.Random, hostile: bool = False, rel: bool = False, algo: Any = "any",
               max_rules: int = 6, obligations: bool = True) -> dict:
    rtype = choice(r, TYPES)
    p: dict[str, Any] = {}
    if algo == "any":
        k = r.random()
        if k < 0.8:
            p["algorithm"] = choice(r, ALGOS)
    elif algo == "explicit":
        p["algorithm"] = choice(r, ALGOS)
    elif algo is not None:
        p["algorithm"] = algo
    p["rules"] = [gen_rule(r, i, rtype, hostile, rel, obligations) for i in range(r.randrange(0, max_rules + 1))]
    return p


def gen_policyset(r: random.Random, hostile: bool = False, rel: bool = False, depth: int = 1,
                  schema_valid: bool = True, obligations: bool = True) -> dict:
    ps: dict[str, Any] = {}
    if r.random() < 0.8:
        ps["algorithm"] = choice(r, ALGOS)
    kids = []
    for i in range(r.randrange(0, 4)):
        if not schema_valid and depth > 1 and r.random() < 0.3:
            c = gen_policyset(r, hostile, rel, depth - 1, schema_valid, obligations)
        else:
            c = gen_policy(r, hostile, rel, max_rules=3, obligations=obligations)
        if not schema_valid and r.random() < 0.7:
            c["id"] = f"p{i}"
        kids.append(c)
    ps["policies"] = kids
    return ps


def first_rule_types(policy: dict) -> list:
    """the rules of a document at any nesting depth (tolerant of shapes a WEAKENED schema lets through: non-dict children, non-list `policies`)"""
    out = []
    if not isinstance(policy, dict):
        return out
    rules, kids = policy.get("rules") or [], policy.get("policies") or []
    for rule in rules if isinstance(rules, list) else []:
        if isinstance(rule, dict):
            out.append(rule)
    for c in kids if isinstance(kids, list) else []:
        out.extend(first_rule_types(c))
    return out


def gen_request(r: random.Random, policy: dict, hostile: bool = False) -> dict:
    """A request generated towards the policy: targets copied or perturbed from some rule."""
    rules = first_rule_types(policy)
    rule = choice(r, rules) if rules and r.random() < 0.85 else None
    req: dict[str, Any] = {}
    req["sid"] = choice(r, ["u1", "alice", "1", 1, None]) if r.random() < 0.9 else gen_scalar(r, hostile)
    req["roles"] = r.sample(["admin", "user", "editor", "a", "b"], r.randrange(0, 3)) if r.random() < 0.9 else None
    req["sattrs"] = {k: gen_scalar(r, hostile) for k in r.sample(ATTR_KEYS, r.randrange(0, 3))}
    if rule is not None and r.random() < 0.85:
        acts = [a for a in rule.get("actions", []) if a != "*"]
        req["action"] = choice(r, acts) if acts and r.random() < 0.8 else choice(r, ACTIONS)
    else:
        req["action"] = choice(r, ACTIONS + ["*", "", "other"])
    rtype: Any = choice(r, TYPES)
    rid: Any = choice(r, NEAR_DUP[:10])
    rattrs: dict[str, Any] = {k: choice(r, NEAR_DUP) for k in r.sample(ATTR_KEYS, r.randrange(0, 3))}
    if rule is not None:
        rd = rule.get("resource") or {}
        t = rd.get("type")
        if r.random() < 0.85:
            if isinstance(t, list) and t:
                t = choice(r, t)
            if isinstance(t, str) and t != "*":
                rtype = t
        if "id" in rd and r.random() < 0.8:
            rid = rd["id"] if r.random() < 0.6 else choice(r, [str(rd["id"]), rd["id"], 1, "1"])
        at = rd.get("attrs") or rd.get("attributes") or {}
        for k, v in at.items():
            if r.random() < 0.85:
                vv = choice(r, v) if isinstance(v, list) and v else v
                rattrs[k] = vv if r.random() < 0.65 else choice(r, [str(vv), vv, 1, "1", None])
    if r.random() < 0.04:
        rtype = choice(r, [None, 1, "", "*"])
    req["rtype"] = rtype
    req["rid"] = rid
    req["rattrs"] = rattrs
    ctx: dict[str, Any] = {}
    if r.random() < 0.8:
        ctx["n"] = gen_operand_value(r, "num", hostile)
    if r.random() < 0.7:
        ctx["when"] = gen_operand_value(r, "time", hostile)
    if r.random() < 0.6:
        ctx["s"] = gen_operand_value(r, "str", hostile)
    if r.random() < 0.6:
        ctx["xs"] = gen_operand_value(r, "col", hostile)
    # obligation-relevant context
    for k, vals in (("mfa", [True, False, None, 1, "yes", ""]), ("auth_level", [0, 1, 2, 3, 2.5, "3", "high", None, [3]]),
                    ("consent", [True, False, {"tos": True}, {"k": 0}, {"k": 1}, "yes", None]),
                    ("tos_accepted", [True, False]), ("captcha_passed", [True, False, 1]),
                    ("reauth_age_seconds", [0, 10, 60, 60.9, 400, "30", None, "old"]), ("age_verified", [True, False])):
        if r.random() < 0.45:
            ctx[k] = choice(r, vals)
    k = r.random()
    req["ctx"] = ctx if k < 0.92 else ({} if k < 0.96 else None)
    return req


def gen_operand_value(r: random.Random, kind: str, hostile: bool) -> Any:
    v = gen_operand(r, kind, hostile)
    while isinstance(v, dict) and "attr" in v:
        v = gen_operand(r, kind, hostile)
    if kind == "time" and r.random() < 0.15:
        base = datetime(2024, 6, 1, 12, 0, 0)
        if r.random() < 0.5:
            return base.replace(tzinfo=timezone.utc) + timedelta(hours=r.randrange(-3, 3))
        return base
    return v
