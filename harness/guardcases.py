"""Shared Guard-level case generation and differential execution (C01, C03, C06, C07, C11, C17, C20)."""
from __future__ import annotations

import copy

import itertools
import random
from typing import Any, Iterator

import gen
import proto
import real

MFA = {"type": "require_mfa", "on": "permit"}

TEMPLATES = [
    {"effect": "permit", "actions": ["read"], "resource": {"type": "doc"}},
    {"effect": "deny", "actions": ["read"], "resource": {"type": "doc"}},
    {"effect": "permit", "actions": ["*"], "resource": {"type": "*"}},
    {"effect": "deny", "actions": ["write"], "resource": {"type": "doc"}},
    {"effect": "permit", "actions": ["read"], "resource": {"type": ["doc", "file"], "id": "1"}},
    {"effect": "deny", "actions": ["read", "write"], "resource": {"type": "doc", "id": "2"}},
    {"effect": "permit", "actions": ["read"], "resource": {"type": "doc", "attrs": {"level": 1}}},
    {"effect": "permit", "actions": ["read"], "resource": {"type": "doc"}, "condition": {"<": [{"attr": "context.n"}, 5]}},
    {"effect": "deny", "actions": ["read"], "resource": {"type": "doc"}, "condition": {"==": [{"attr": "subject.id"}, "alice"]}},
    {"effect": "permit", "actions": ["read"], "resource": {"type": "doc"}, "obligations": [MFA]},
    {"effect": "permit", "actions": ["read"], "resource": {"type": "file"}},
]

REQUESTS = [
    {"sid": "u1", "roles": [], "sattrs": {}, "action": "read", "rtype": "doc", "rid": "1", "rattrs": {"level": 1}, "ctx": {"n": 3, "mfa": True}},
    {"sid": "alice", "roles": ["admin"], "sattrs": {}, "action": "read", "rtype": "doc", "rid": "2", "rattrs": {"level": "1"}, "ctx": {"n": 9}},
    {"sid": "u1", "roles": [], "sattrs": {}, "action": "write", "rtype": "doc", "rid": "2", "rattrs": {}, "ctx": {"n": "x", "mfa": False}},
    {"sid": "u1", "roles": [], "sattrs": {}, "action": "read", "rtype": "file", "rid": 1, "rattrs": {}, "ctx": {}},
    {"sid": "u1", "roles": [], "sattrs": {}, "action": "delete", "rtype": "img", "rid": None, "rattrs": {}},
    {"sid": "alice", "roles": [], "sattrs": {}, "action": "read", "rtype": "doc", "rid": None, "rattrs": {}, "ctx": {"n": 1, "mfa": 0}},
]


def mk_rules(idxs) -> list[dict]:
    return [dict(TEMPLATES[t], id=f"r{i}") for i, t in enumerate(idxs)]


def enum_cases(quick: bool) -> Iterator[tuple[dict, dict, dict]]:
    """all policies of ≤2 (quick) / ≤3 (thorough) rules from the template pool × algorithms/none × request pool × lax/strict,
    plus all sets of ≤2 single-rule children."""
    n_max = 2 if quick else 3
    for n in range(0, n_max + 1):
        for idxs in itertools.product(range(len(TEMPLATES)), repeat=n):
            for algo in gen.ALGOS + [None]:
                pol: dict[str, Any] = {"rules": mk_rules(idxs)}
                if algo:
                    pol["algorithm"] = algo
                for qi, req in enumerate(REQUESTS):
                    if quick and n == 2 and (sum(idxs) + qi + (len(algo) if algo else 0)) % 3:
                        continue
                    for strict in (False, True):
                        if strict and (n + qi) % 2:
                            continue
                        yield pol, req, {"strict": strict}
    for kids in itertools.chain(itertools.product(range(len(TEMPLATES)), repeat=1), itertools.product(range(0, len(TEMPLATES), 2), repeat=2)):
        for algo in gen.ALGOS + [None]:
            ps: dict[str, Any] = {"policies": [{"rules": mk_rules([k])} for k in kids]}
            if algo:
                ps["algorithm"] = algo
            for req in REQUESTS[:4]:
                yield ps, req, {"strict": False}


def random_cfg(r: random.Random, rel: bool = False) -> dict:
    cfg: dict[str, Any] = {"strict": r.random() < 0.3}
    k = r.random()
    if k < 0.08:
        cfg["checker"] = "raise"
    elif k < 0.2:
        cfg["checker"] = ["custom", gen.choice(r, [True, False, 0, 1, None, "yes", ""]), gen.choice(r, [None, "custom_ch", "mfa"])]
    k = r.random()
    if k < 0.1:
        cfg["resolver"] = "raise"
    elif k < 0.3:
        cfg["resolver"] = {"ok": r.sample(["admin", "user", "editor", "a", "b", "root"], r.randrange(0, 4))}
    if rel:
        tbl = []
        for s in ("user:u1", "user:alice", "user:1", "user:9", "user:bob", "user:None"):
            for rl in ("viewer", "owner", "editor"):
                for o in ("doc:1", "doc:2", "doc:7", "file:1", "doc:None"):
                    if r.random() < 0.25:
                        tbl.append([s, rl, o, gen.choice(r, [True, False, None])])
        cfg["rel"] = {"table": tbl, "default": gen.choice(r, [False, False, True, None]),
                      "raise_with": gen.choice(r, ["RuntimeError", "RuntimeError", "TimeoutError", "asyncio.TimeoutError", "OSError", "KeyError"])}
    if r.random() < 0.3:
        cfg["metrics"] = True
    if r.random() < 0.4:
        cfg["logger"] = True
    if (cfg.get("metrics") or cfg.get("logger")) and r.random() < 0.3:
        cfg["sink_mode"] = "raise"     # a failing sink is only a consumer of the finished decision
    return cfg


def random_cases(seed: int, n: int, *, hostile: float = 0.0, rel: float = 0.0, sets: float = 0.35, nested: float = 0.0,
                 algo: Any = "any", plain_cfg: bool = False) -> Iterator[tuple[dict, dict, dict]]:
    r = random.Random(seed)
    for _ in range(n):
        h = r.random() < hostile
        use_rel = r.random() < rel
        if r.random() < sets:
            pol = gen.gen_policyset(r, h, use_rel, depth=3, schema_valid=not (r.random() < nested))
        else:
            pol = gen.gen_policy(r, h, use_rel, algo=algo)
        req = gen.gen_request(r, pol, h)
        cfg = {"strict": r.random() < 0.3} if plain_cfg else random_cfg(r, use_rel)
        yield pol, req, cfg


def run_batch(cases: list[tuple[dict, dict, dict]], consts: dict, flavour_of=lambda i: "sync", with_impl_spec: bool = True):
    """Run every case on the real Guard and on the model; returns list of (policy, req, cfg, impl, model, extra)."""
    impls, cmds = [], []
    for i, (pol, req, cfg) in enumerate(cases):
        out = real.run_guard(pol, req, cfg, flavour_of(i))
        impls.append(out)
        cmd = real.guard_cmd(pol, req, cfg, consts, proto.build_oracle(pol, req, cfg.get("resolver"), cfg.get("checker")))
        if with_impl_spec and "ok" in out:
            d = out["ok"]
            cmd["impl"] = {"allowed": d["allowed"], "effect": d["effect"], "obligations": d["obligations"],
                           "rule_id": d["rule_id"], "policy_id": d["policy_id"], "reason": d["reason"]}
        cmds.append(cmd)
    answers = proto.run_driver(cmds)
    res = []
    for (pol, req, cfg), out, ans in zip(cases, impls, answers):
        if isinstance(ans, dict) and "model" in ans:
            res.append((pol, req, cfg, out, ans["model"], ans))
        else:
            res.append((pol, req, cfg, out, ans, {}))
    return res


def run_sessions(sessions: list[tuple[dict, dict, list[dict]]], consts: dict, with_impl_spec: bool = True):
    """Sessions `(policy, cfg, [request, …])`: ONE Guard (one compiled decision function) answers all the requests of a
    session in order; every answer is compared with the model, which is a pure function of (policy, cfg, request). A
    decision function that carries state from one request to the next (a memo keyed too coarsely, a mutated index) shows
    up as a disagreement on a later request of some session.  Returns the same rows as `run_batch` plus the session index."""
    impls, cmds, flat = [], [], []

    def as_published(pol, cfg):
        # "unserialisable": the document the engine is handed carries a value json.dumps refuses (a date under a key no evaluator reads):
        # it has no etag; its decisions are those of the same document without that key, which is what the model is given
        if not cfg.get("unserialisable"):
            return pol
        from datetime import date
        return {**copy.deepcopy(pol), "issued": date(2024, 6, 1)}

    for si, (pol, cfg, reqs) in enumerate(sessions):
        events: list = []
        try:
            g = real.make_guard(as_published(pol, cfg), cfg, events)
        except Exception as e:  # noqa: BLE001
            g = None
            err = {"raised": real.exc_class(e)}
        cfg = {k: v for k, v in cfg.items() if k != "unserialisable"} | ({"unserialisable": True} if cfg.get("unserialisable") else {})
        for req in reqs:
            if isinstance(req, dict) and "__publish__" in req:
                # a session item that is not a request: the engine is given another document; what follows is judged against it
                pol = req["__publish__"]
                if g is not None:
                    try:
                        (g.update_policy if req.get("alias") else g.set_policy)(as_published(pol, cfg))
                    except Exception as e:  # noqa: BLE001
                        g, err = None, {"raised": real.exc_class(e)}
                continue
            if g is None:
                out = err
            else:
                del events[:]
                try:
                    d = real.call_guard(g, req)
                    out = {"ok": real.render_decision(d, list(events))}
                except Exception as e:  # noqa: BLE001
                    out = {"raised": real.exc_class(e)}
            impls.append(out)
            flat.append((pol, req, cfg, si))
            mcfg = {k: v for k, v in cfg.items() if k != "unserialisable"}
            cmd = real.guard_cmd(pol, req, mcfg, consts, proto.build_oracle(pol, req, cfg.get("resolver"), cfg.get("checker")))
            if with_impl_spec and "ok" in out:
                d = out["ok"]
                cmd["impl"] = {"allowed": d["allowed"], "effect": d["effect"], "obligations": d["obligations"],
                               "rule_id": d["rule_id"], "policy_id": d["policy_id"], "reason": d["reason"]}
            cmds.append(cmd)
    answers = proto.run_driver(cmds)
    res = []
    for (pol, req, cfg, si), out, ans in zip(flat, impls, answers):
        if isinstance(ans, dict) and "model" in ans:
            res.append((pol, req, cfg, out, ans["model"], {**ans, "session": si}))
        else:
            res.append((pol, req, cfg, out, ans, {"session": si}))
    return res


def outcome_class(out: dict) -> str:
    if "raised" in out:
        return "raised:" + out["raised"]
    d = out["ok"]
    return f"{d['effect']}/{d['reason']}"
