"""Observation of the shared accesses of a real `Guard`: attribute loads/stores of the published fields,
lock acquire/release, cache calls — with an optional hook called *before* each access (used by the
deterministic scheduler of C09)."""
from __future__ import annotations

import threading
from typing import Callable

SHARED = ("policy", "policy_etag", "_compiled", "_policy_gen")


class LockProxy:
    def __init__(self, inner, hook: Callable[[str], None], log: list):
        self._inner, self._hook, self._log = inner, hook, log

    def __enter__(self):
        while True:
            self._hook("acq")
            if self._inner.acquire(blocking=False):
                self._log.append("acq")
                return self
            # blocked: the step was a no-op; park at the acquire again

    def __exit__(self, *a):
        self._hook("rel")
        self._log.append("rel")
        self._inner.release()
        return False

    def acquire(self, *a, **k):
        self.__enter__()
        return True

    def release(self):
        self.__exit__()

    def locked(self):
        return self._inner.locked()


class CacheProxy:
    def __init__(self, inner, hook, log):
        self._inner, self._hook, self._log = inner, hook, log
        self.in_section = lambda: False

    def get(self, k):
        self._hook("cache.get")
        self._log.append("cache.get")
        return self._inner.get(k)

    def set(self, k, v, ttl=None):
        if not self.in_section():
            self._hook("cache.set")
        self._log.append("cache.set")
        return self._inner.set(k, v, ttl=ttl)

    def delete(self, k):
        return self._inner.delete(k)

    def clear(self):
        self._hook("cache.clear")
        self._log.append("cache.clear")
        return self._inner.clear()


def make_traced_guard(Guard, policy, cache, hook: Callable[[str], None] | None = None, **kw):
    """a Guard whose shared accesses are logged (per thread) and announced to `hook(label)` before they happen.
    Returns (guard, logs) where logs[thread_ident] is the list of access labels."""
    logs: dict[int, list] = {}
    enabled = {"on": False}

    def log():
        return logs.setdefault(threading.get_ident(), [])

    def call_hook(label):
        if hook is not None and enabled["on"]:
            hook(label)

    class TracedGuard(Guard):
        def __getattribute__(self, name):
            if name in SHARED and enabled["on"]:
                # `self._policy_gen += 1` reads then writes: the write is the announced step
                # reads made by set_policy itself (`self._policy_gen += 1`, hashing / compiling `self.policy`) belong to the announced
                # write step; a read of `policy` by an EVALUATION (interpreter fall-back) is a step of its own
                if not (name in ("_policy_gen", "policy") and getattr(_tl, "in_update", False)):
                    call_hook("rd " + name)
                log().append("rd " + name)
            return super().__getattribute__(name)

        def __setattr__(self, name, value):
            if name in SHARED and enabled["on"]:
                call_hook("wr " + name)
                log().append("wr " + name)
            super().__setattr__(name, value)

        def set_policy(self, policy):
            _tl.in_update = True
            try:
                return super().set_policy(policy)
            finally:
                _tl.in_update = False

    _tl = threading.local()
    g = TracedGuard(policy, cache=None, **kw)
    cp = CacheProxy(cache, call_hook, _LogView(log))
    object.__setattr__(g, "cache", cp)
    has_lock = "_policy_lock" in g.__dict__ and hasattr(g.__dict__["_policy_lock"], "acquire")
    if not has_lock:
        # a Guard without the publication lock (e.g. the pre-repair shape): nothing to proxy
        enabled["on"] = True
        return g, logs, enabled
    lock_log_proxy = LockProxy(object.__getattribute__(g, "_policy_lock"), call_hook, _LogView(log))
    cp.in_section = lambda: lock_log_proxy.locked() and getattr(_tl, "holds", False)

    # know whether THIS thread holds the lock (cache.set inside the validated block is part of the `rd gen` step)
    orig_enter, orig_exit = lock_log_proxy.__enter__, lock_log_proxy.__exit__

    def enter():
        r = orig_enter()
        _tl.holds = True
        return r

    def exit_(*a):
        _tl.holds = False
        return orig_exit(*a)

    class _L:
        def __enter__(self_inner):
            return enter()

        def __exit__(self_inner, *a):
            return exit_(*a)

        def locked(self_inner):
            return lock_log_proxy.locked()

    if hasattr(g, "_policy_lock"):
        object.__setattr__(g, "_policy_lock", _L())
    enabled["on"] = True
    return g, logs, enabled


class _LogView:
    def __init__(self, getter):
        self._g = getter

    def append(self, x):
        self._g().append(x)
