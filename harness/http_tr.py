"""C10 / C17: the TRANSLATED `HTTPPolicySource.load` / `etag` / `__init__` statements (Generated.Src.http_load / http_etag / http_init, evaluated
by `lake env lean --run Rbacx/Run/SrcEvalHttp.lean`) against the REAL methods in CPython.

The real `HTTPPolicySource` runs over a stub `requests` module (`sys.modules["requests"]`; `None` there = the import fails) whose `get`
answers response objects of many SHAPES — attributes present or missing one by one (`status_code`, `raise_for_status`, `headers`, `json`,
`text`, `content`), `headers` a plain dict / a case-insensitive mapping that is not a dict / None / an object whose `get` raises / missing,
header values str / empty / None / int, status 200 / 304 / 404 / 500 / missing / a str, `.json()` answering per CALL SITE (the stub looks at
the caller's line number; the sites are the plugin's `json_sites`) a dict / a list / ValueError / KeyboardInterrupt, text None / "" / a body,
content bytes / bytearray / invalid UTF-8 / a str / missing — with `parse_policy_text`, `validate_policy` replaced by recording stubs,
`_detect_format` wrapped by a recorder (the real function answers), `validate_schema` on / off, user headers with / without
`If-None-Match`, and SEQUENCES of 1–5 calls (`load`, `etag`, rarely `__init__` again) on ONE source object, so that the threading of
`_etag` / `_policy_cache` is exercised.  What every stub was asked and answered goes to the evaluator as tables; an argument list the real
run did not see answers `NoEntry` there.  Compared per call: the value returned / the class of the exception that escaped, `_etag`,
`_policy_cache`.  Seeded from `run.seed`."""
from __future__ import annotations

import json
import random
import subprocess
import sys
import types

import lib
import proto
import real  # noqa: F401  (puts the repo on sys.path)

OBLIGATION = ("C10_http_translated: Generated.Src.http_load / http_etag / http_init (the current source text of HTTPPolicySource.load / etag / "
              "the state-creating statements of __init__, harness/pytolean_http.py) — http_load_eq (= the model's httpLoad under the "
              "refinement Answers / StSim), http_etag_eq / http_etag_model (F9), http_load_failure_keeps_cache, http_load_etag_after, "
              "the paths that change nothing, http_load_request, http_load_parser_hints (F20), http_load_validates_before_caching, http_init_eq")
OBLIGATION_C17 = ("C10_http_translated (C17 clause): http_load_parser_hints / http_load_parser_filename — the response's own .json() is the "
                  "fast path only when _detect_format(filename=url, content_type=ct) == 'json', otherwise the body goes to "
                  "parse_policy_text(…, filename=url, content_type=ct) (fixed finding F20), proved about the current source text")
DIFFERENTIAL = ("translated HTTPPolicySource.load / etag / __init__ evaluate like the real methods over stub requests modules (translator "
                "harness/pytolean_http.py + Model/PyHttp.lean vs CPython)")

MISSING = "<missing>"


class HTTPError(Exception):
    pass


class JSONDecodeError(ValueError):
    pass


class ValidationError(Exception):
    pass


EXC = {c.__name__: c for c in (HTTPError, JSONDecodeError, ValidationError, ValueError, RuntimeError, KeyboardInterrupt, ConnectionError,
                               TypeError)}


def raise_(cls: str):
    raise EXC[cls]("scripted")


class CIHeaders:
    """a case-insensitive mapping that is NOT a dict (what requests answers)"""

    def __init__(self, d):
        self._d = {k.lower(): v for k, v in d.items()}

    def get(self, k, default=None):
        return self._d.get(k.lower(), default)


class RaisingHeaders:
    def __init__(self, cls):
        self._cls = cls

    def get(self, k, default=None):
        raise_(self._cls)


def outcome_of(f):
    try:
        return {"ok": proto.enc(f())}
    except BaseException as e:  # noqa: BLE001
        return {"err": type(e).__name__}


def build_response(shape: dict, sites: list, json_log: list | None = None):
    """the stub object and its description for the evaluator"""
    class Response:
        pass
    r = Response()
    desc: dict = {"has": [], "attr": {}, "bytes": {}, "raise": {"ok": None}, "headers_is_dict": False, "headers_get": {},
                  "headers_get_default": {"ok": None}, "json": []}
    if shape["status"] != MISSING:
        r.status_code = shape["status"]
        desc["has"].append("status_code")
        desc["attr"]["status_code"] = proto.enc(shape["status"])
    if shape["raise"] != MISSING:
        o = shape["raise"]
        r.raise_for_status = (lambda: None) if o == "ok" else (lambda: raise_(o))
        desc["has"].append("raise_for_status")
        desc["raise"] = {"ok": None} if o == "ok" else {"err": o}
    hk, hv = shape["headers"]
    if hk != MISSING:
        h = (dict(hv) if hk == "dict" else CIHeaders(hv) if hk == "ci" else None if hk == "none" else RaisingHeaders(hv))
        r.headers = h
        desc["has"].append("headers")
        desc["headers_is_dict"] = isinstance(h, dict)
        for k in ("ETag", "etag", "Content-Type", "content-type"):
            desc["headers_get"][k] = outcome_of(lambda k=k: h.get(k))
    else:
        desc["headers_get_default"] = {"err": "AttributeError"}
    if shape["json"] != MISSING:
        outs = shape["json"]

        def js():
            line = sys._getframe(1).f_lineno
            i = sites.index(line) if line in sites else -1
            if i < 0 or i >= len(outs):
                raise LookupError(f"r.json() called from line {line}, not one of the translated call sites {sites}")
            if json_log is not None:
                json_log.append(i + 1)
            kind, v = outs[i]
            if kind == "err":
                raise_(v)
            return v
        r.json = js
        desc["has"].append("json")
        desc["json"] = [({"ok": proto.enc(v)} if k == "ok" else {"err": v}) for k, v in outs]
    if shape["text"] != MISSING:
        r.text = shape["text"]
        desc["has"].append("text")
        desc["attr"]["text"] = proto.enc(shape["text"])
    if shape["content"] != MISSING:
        c = shape["content"]
        r.content = c
        desc["has"].append("content")
        if isinstance(c, (bytes, bytearray)):
            desc["bytes"]["content"] = outcome_of(lambda: c.decode("utf-8"))
            desc["attr"]["content"] = proto.enc("<bytes>")
        else:
            desc["attr"]["content"] = proto.enc(c)
    return r, desc


DOCS = [{"marker": i, "rules": []} for i in range(4)]


def gen_shape(rng: random.Random) -> dict:
    status = rng.choice([200, 200, 200, 304, 304, 404, 500, MISSING, "304", 201])
    if isinstance(status, int) and status >= 400:
        rs = rng.choice(["HTTPError", "HTTPError", "HTTPError", MISSING, "ok", "KeyboardInterrupt"])
    else:
        rs = rng.choice(["ok", "ok", "ok", MISSING, "HTTPError"])
    hv: dict = {}
    ek = rng.choice(["ETag", "ETag", "etag", "Etag", None])
    if ek:
        hv[ek] = rng.choice(["t1", "t2", 'W/"x"', "", None, 7, "t3"])
    ck = rng.choice(["Content-Type", "Content-Type", "content-type", None])
    if ck:
        hv[ck] = rng.choice(["application/json", "application/json; charset=utf-8", "application/x-yaml", "text/yaml", "application/JSON",
                             "text/plain", None, 5, "application/problem+json", ""])
    hk = rng.choice(["dict", "dict", "dict", "ci", "ci", "none", MISSING, "raising"])
    headers = (hk, hv) if hk in ("dict", "ci") else (hk, rng.choice(["ValueError", "KeyboardInterrupt"])) if hk == "raising" else (hk, None)

    def jo():
        return rng.choice([("ok", rng.choice(DOCS)), ("ok", rng.choice(DOCS)), ("ok", [1, 2]), ("ok", None), ("err", "ValueError"),
                           ("err", "JSONDecodeError"), ("err", "KeyboardInterrupt")])
    js = MISSING if rng.random() < 0.25 else [jo(), jo()]
    text = rng.choice([MISSING, None, "", "body", '{"a": 1}', "rules: []"])
    content = rng.choice([MISSING, None, b"abc", bytearray(b"{}"), b"\xff\xfe", "zzz", b""])
    return {"status": status, "raise": rs, "headers": headers, "json": js, "text": text, "content": content}


def gen_case(rng: random.Random) -> dict:
    url = rng.choice(["http://h/p.json", "http://h/p.yaml", "http://h/p", "http://h/p.yml?x=1", "http://h/p.JSON"])
    uh = rng.choice([None, {}, {"X-Token": "1"}, {"If-None-Match": "user"}, {"if-none-match": "lower"}, {"If-None-Match": "", "A": "b"}])
    calls = []
    for _ in range(rng.choice([1, 2, 3, 3, 4, 5])):
        m = rng.choice(["load"] * 7 + ["etag"] * 2 + ["init"])
        if m != "load":
            calls.append({"m": m})
            continue
        imp = "ok" if rng.random() < 0.95 else rng.choice(["ImportError", "KeyboardInterrupt"])
        get = ("err", rng.choice(["ConnectionError", "KeyboardInterrupt"])) if rng.random() < 0.08 else ("ok", gen_shape(rng))
        parse = rng.choice([("ok", rng.choice(DOCS)), ("ok", rng.choice(DOCS)), ("ok", rng.choice(DOCS)), ("err", "JSONDecodeError"),
                            ("err", "ValueError"), ("ok", {})])
        rejects = [d["marker"] for d in DOCS if rng.random() < 0.3]
        calls.append({"m": "load", "import": imp, "get": get, "parse": parse, "rejects": rejects,
                      "validate_exc": rng.choice(["ValidationError", "ValidationError", "RuntimeError", "KeyboardInterrupt"])})
    return {"url": url, "user_headers": uh, "validate_schema": rng.random() < 0.5, "calls": calls}


def fixed_cases() -> list:
    """the paths the theorems name, each at least once whatever the seed"""
    def shape(**kw):
        s = {"status": 200, "raise": "ok", "headers": ("dict", {"ETag": "t1", "Content-Type": "application/json"}),
             "json": [("ok", DOCS[0]), ("ok", DOCS[1])], "text": MISSING, "content": MISSING}
        s.update(kw)
        return s

    def load(sh, **kw):
        c = {"m": "load", "import": "ok", "get": ("ok", sh), "parse": ("ok", DOCS[2]), "rejects": [], "validate_exc": "ValidationError"}
        c.update(kw)
        return c
    s304 = shape(status=304, headers=("dict", {"ETag": "t9"}))
    out = []
    for vs in (False, True):
        out += [
            {"url": "http://h/p.json", "user_headers": None, "validate_schema": vs,
             "calls": [load(shape()), {"m": "etag"}, load(s304), load(shape(status=500, **{"raise": "HTTPError"})), {"m": "etag"}]},
            {"url": "http://h/p.json", "user_headers": None, "validate_schema": vs, "calls": [load(s304), {"m": "etag"}]},
            # 200 / 304 / 200 with a validator that rejects the first document (DESIGN §12.5): the tag is remembered, the cache is not
            {"url": "http://h/p", "user_headers": None, "validate_schema": vs,
             "calls": [load(shape(json=MISSING, text="body"), rejects=[2]), {"m": "etag"}, load(s304), load(shape(json=MISSING, text="body"))]},
            # the body does not parse: the tag is remembered before the parser runs
            {"url": "http://h/p", "user_headers": None, "validate_schema": vs,
             "calls": [load(shape(json=MISSING, text="{"), parse=("err", "JSONDecodeError")), {"m": "etag"}, load(s304)]},
            # the user's If-None-Match wins
            {"url": "http://h/p.json", "user_headers": {"If-None-Match": "user"}, "validate_schema": vs, "calls": [load(shape()), load(shape())]},
            # F20: a YAML content type / a .yaml URL keeps the body away from r.json()
            {"url": "http://h/p.yaml", "user_headers": None, "validate_schema": vs,
             "calls": [load(shape(headers=("ci", {"Content-Type": "application/x-yaml"}), text="a: 1")),
                       load(shape(headers=("ci", {}), text="a: 1"))]},
            # last resort: empty text, JSON content type
            {"url": "http://h/p.yaml", "user_headers": None, "validate_schema": vs,
             "calls": [load(shape(headers=("dict", {"content-type": "application/problem+json"}), text="",
                                  json=[("err", "ValueError"), ("ok", DOCS[3])]), rejects=[3])]},
            {"url": "http://h/p.json", "user_headers": None, "validate_schema": vs,
             "calls": [load(shape(), **{"import": "ImportError"}), load(shape(), get=("err", "ConnectionError")), {"m": "init"}, {"m": "etag"}]},
        ]
    return out


def run_real(case: dict, sites: list) -> tuple[list, list, dict]:
    """→ (what each call did, the tables of each call for the evaluator, the configuration fields as the object holds them)"""
    import rbacx.dsl.validate as V
    import rbacx.store.http_store as H
    src = H.HTTPPolicySource(case["url"], headers=case["user_headers"], validate_schema=case["validate_schema"])
    cfg = {"url": src.url, "headers": src.headers, "validate_schema": src.validate_schema}
    steps, tables = [], []
    saved = (sys.modules.get("requests", MISSING), H.parse_policy_text, H._detect_format, V.validate_policy)
    real_detect = H._detect_format
    try:
        for call in case["calls"]:
            t: dict = {"m": call["m"]}
            if call["m"] == "etag":
                f = src.etag
            elif call["m"] == "init":
                f = lambda: src.__init__(case["url"], headers=case["user_headers"], validate_schema=case["validate_schema"])  # noqa: E731
            else:
                t.update({"import": {"ok": None} if call["import"] == "ok" else {"err": call["import"]}, "get": [], "detect": [], "parse": [],
                          "validate": [], "json_calls": []})

                def get(url, headers=None, timeout=None, _t=t, _call=call):
                    args = [proto.enc(url), proto.enc(headers), proto.enc(timeout)]
                    if _call["get"][0] == "err":
                        _t["get"].append([args, {"err": _call["get"][1]}])
                        raise_(_call["get"][1])
                    r, desc = build_response(_call["get"][1], sites, _t["json_calls"])
                    _t["get"].append([args, {"ok": desc}])
                    return r

                def parse(text, *, filename=None, content_type=None, _t=t, _call=call):
                    args = [proto.enc(text), proto.enc(filename), proto.enc(content_type)]
                    kind, v = _call["parse"]
                    _t["parse"].append([args, {"ok": proto.enc(v)} if kind == "ok" else {"err": v}])
                    if kind == "err":
                        raise_(v)
                    return json.loads(json.dumps(v))

                def validate(doc, _t=t, _call=call):
                    bad = isinstance(doc, dict) and doc.get("marker") in _call["rejects"]
                    _t["validate"].append([[proto.enc(doc)], {"err": _call["validate_exc"]} if bad else {"ok": None}])
                    if bad:
                        raise_(_call["validate_exc"])

                def detect(*a, _t=t, **kw):
                    res = real_detect(*a, **kw)
                    fn = kw.get("filename", a[0] if a else None)
                    ct = kw.get("content_type", a[1] if len(a) > 1 else None)
                    _t["detect"].append([[proto.enc(fn), proto.enc(ct)], proto.enc(res)])
                    return res
                if call["import"] == "ok":
                    mod = types.ModuleType("requests")
                    mod.get = get
                    sys.modules["requests"] = mod
                elif call["import"] == "ImportError":
                    sys.modules["requests"] = None      # `import requests` raises ImportError
                else:
                    sys.modules.pop("requests", None)
                    finder = _RaisingFinder(call["import"])
                    sys.meta_path.insert(0, finder)
                H.parse_policy_text, H._detect_format, V.validate_policy = parse, detect, validate
                f = src.load
            try:
                out = {"ok": proto.enc(f())}
            except BaseException as e:  # noqa: BLE001
                out = {"err": type(e).__name__}
            finally:
                sys.meta_path[:] = [m for m in sys.meta_path if not isinstance(m, _RaisingFinder)]
            steps.append({"out": out, "st": {"etag": proto.enc(src._etag), "policy_cache": proto.enc(src._policy_cache)}})
            tables.append(t)
    finally:
        if saved[0] is MISSING:
            sys.modules.pop("requests", None)
        else:
            sys.modules["requests"] = saved[0]
        H.parse_policy_text, H._detect_format, V.validate_policy = saved[1:]
    return steps, tables, cfg


class _RaisingFinder:
    def __init__(self, cls):
        self.cls = cls

    def find_spec(self, name, path=None, target=None):
        if name == "requests":
            raise_(self.cls)
        return None


def source_clauses(case: dict, steps: list, tables: list, cfg: dict) -> list:
    """the statements of the obligation's theorems, judged on the REAL run (independent of Lean): → [(call index, clause)] violated"""
    bad = []
    prev = {"etag": None, "policy_cache": None}
    for i, (call, st, t) in enumerate(zip(case["calls"], steps, tables)):
        now = st["st"]
        if call["m"] == "etag":
            if st["out"] != {"ok": prev["etag"]} or now != prev:
                bad.append((i, "etag() answers the remembered tag and changes nothing"))
        elif call["m"] == "load":
            raised = "err" in st["out"]
            if raised and now["policy_cache"] != prev["policy_cache"]:
                bad.append((i, "a load that raises keeps _policy_cache"))
            sh = call["get"][1] if call["get"][0] == "ok" else None
            is304 = sh is not None and sh["status"] == 304
            quiet = (call["import"] != "ok" or sh is None or is304
                     or (sh["raise"] not in ("ok", MISSING)))
            if quiet and now != prev:
                bad.append((i, "import failure / transport error / 304 / error status change nothing"))
            if is304 and call["import"] == "ok" and st["out"] != {"ok": prev["policy_cache"] if prev["policy_cache"] is not None else proto.enc({})}:
                bad.append((i, "304 answers the cached policy, {} when none"))
            for args, _o in t["get"]:
                sent = proto.dec(args[1]) or {}
                user = cfg["headers"]
                want = user["If-None-Match"] if "If-None-Match" in user else (proto.dec(prev["etag"]) or None)
                if sent.get("If-None-Match") != want or any(sent.get(k) != v for k, v in user.items()):
                    bad.append((i, "If-None-Match is the user's, else the remembered tag, else absent; the user's headers are sent"))
            if cfg["validate_schema"] and not raised and not is304 and [[st["out"]["ok"]], {"ok": None}] not in t["validate"]:
                bad.append((i, "with validate_schema a returned document was accepted by validate_policy in this call"))
            if cfg["validate_schema"] and now["policy_cache"] != prev["policy_cache"] and [[now["policy_cache"]], {"ok": None}] not in t["validate"]:
                bad.append((i, "with validate_schema only an accepted document is cached"))
            if any(a[1] != proto.enc(cfg["url"]) for a, _o in t["parse"]) or any(a[0] != proto.enc(cfg["url"]) for a, _o in t["detect"]):
                bad.append((i, "parser hints: filename = url"))
            if 1 in t["json_calls"] and not any(res == "json" for _a, res in t["detect"]):
                bad.append((i, "the fast path r.json() only when _detect_format(filename=url, content_type=ct) == 'json'"))
            if t["parse"] and t["detect"] and any(a[2] != d[0][1] for a, _o in t["parse"] for d in t["detect"]):
                bad.append((i, "parse_policy_text gets the content type _detect_format was asked about"))
        if call["m"] == "init" and now != {"etag": None, "policy_cache": None}:
            bad.append((i, "__init__ creates the state: nothing remembered, nothing cached"))
        prev = now
    return bad


def path_class(call: dict, step: dict) -> str:
    if call["m"] != "load":
        return call["m"]
    if call["import"] != "ok":
        return "load: import fails"
    if call["get"][0] == "err":
        return "load: transport error"
    sh = call["get"][1]
    res = "returns" if "ok" in step["out"] else "raises " + step["out"]["err"]
    return f"load: status {sh['status']}, headers {sh['headers'][0]}, json {'missing' if sh['json'] == MISSING else 'present'}: {res}"


def translated_vs_python(run: lib.Run, facts: dict, sink: list, n_random: int | None = None) -> tuple[bool, str]:
    sites = list((facts.get("json_sites") or {}).get("http_load") or [])
    rng = random.Random(f"{run.seed}:c10http")
    n = n_random if n_random is not None else 700 * max(1, getattr(run, "boost", 1))
    cases = fixed_cases() + [gen_case(rng) for _ in range(n)]
    lines, wants = [], []
    clause_failures: list = []
    for c in cases:
        steps, tables, cfg = run_real(c, sites)
        wants.append(steps)
        for i, clause in source_clauses(c, steps, tables, cfg):
            clause_failures.append({"clause": clause, "call": i, "case": json.loads(json.dumps(c, default=repr)), "real_run": steps})
        lines.append(json.dumps({"url": proto.enc(cfg["url"]), "headers": proto.enc(cfg["headers"]),
                                 "validate_schema": proto.enc(cfg["validate_schema"]), "st": {"etag": None, "policy_cache": None},
                                 "calls": tables}))
    p = subprocess.run(["lake", "env", "lean", "--run", "Rbacx/Run/SrcEvalHttp.lean"], cwd=lib.LEAN, input="\n".join(lines) + "\n",
                       capture_output=True, text=True, timeout=1800)
    outs = [ln for ln in p.stdout.split("\n") if ln]
    if p.returncode != 0 or len(outs) != len(lines):
        return False, "SrcEvalHttp: " + (p.stderr or p.stdout)[-800:]
    bad = calls = 0
    for c, want, ln in zip(cases, wants, outs):
        got = json.loads(ln)
        calls += len(want)
        if "error" in got or got.get("steps") != want:
            bad += 1
            if len(sink) < 5:
                first = next((i for i, (a, b) in enumerate(zip(want, got.get("steps") or [])) if a != b), 0)
                sink.append({"case": json.loads(json.dumps(c, default=repr)), "first_differing_call": first,
                             "python": want[first:first + 1], "lean": (got.get("steps") or [got])[first:first + 1]})
        for call, st in zip(c["calls"], want):
            run.count("translated-http: " + path_class(call, st))
    run.evaluations += calls
    run.extra["http_source_clauses_violated_on_the_real_code"] = {"count": len(clause_failures), "first": clause_failures[:2]}
    detail = f"{len(cases)} call sequences on one source object ({calls} calls), {bad} differ"
    if clause_failures:
        detail += (f"; on the REAL code {len(clause_failures)} call(s) violate a statement of the obligation's theorems, first: "
                   f"`{clause_failures[0]['clause']}` at call {clause_failures[0]['call']} of {json.dumps(clause_failures[0]['case'], default=repr)[:600]}")
    return bad == 0, detail
