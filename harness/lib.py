"""Shared check machinery: build+audit of the Lean project, differential runs, verdicts,
known findings, evidence and replay files (DESIGN §4)."""
from __future__ import annotations

import fcntl
import hashlib
import json
import os
import re
import subprocess
import sys
import time
from typing import Any, Callable

VERIF = os.path.dirname(os.path.dirname(os.path.abspath(__file__)))
# VERIF_LEAN_DIR: a private copy of the Lake project (development aid: lets a run against a scratch repo proceed while another run uses /verif/lean)
LEAN = os.environ.get("VERIF_LEAN_DIR") or os.path.join(VERIF, "lean")
EVID = os.path.join(VERIF, "evidence")
REPLAYS = os.path.join(VERIF, "replays")
ALLOWED_AXIOMS = {"propext", "Classical.choice", "Quot.sound"}

TRUSTED_BASE = [
    "Lean 4.33.0 kernel and elaborator",
    "axioms of every property theorem ⊆ {propext, Classical.choice, Quot.sound} (printed by Rbacx/Audit.lean on every run)",
    "hand-written model lean/Rbacx/Model/*.lean, tied to /repo by the correspondence harness (differential, this run) and harness/extract.py",
    "oracles computed by the harness without calling rbacx: CPython str()/float()/datetime parsing, json, hashlib",
    "where a check uses the source-to-Lean translation (C02, C03, C04, C05, C07, C17): harness/pytolean.py and the meaning of Python's operations in "
    "where a check uses the source-to-Lean translation (C01, C02, C03, C05, C07, C11, C17): harness/pytolean.py and the meaning of Python's operations in "
    "lean/Rbacx/Model/PyLib.lean, both validated against CPython on every run (Run/SrcEval.lean, Run/SrcEvalFrag.lean, Run/SrcEvalTarget.lean, "
    "Run/SrcEvalObl.lean); "
    "for the translated obligation checker BasicObligationChecker.check (C07): EXTERNAL-FUNCTION PARAMETERS — _finite_number is not translated "
    "but a function parameter of the translated loop body; the obligation C07_translated instantiates it with the model's finiteNumber "
    "(float(str) through the oracle), so the equality speaks about the source with finiteNumber in _finite_number's place, and what ties "
    "finiteNumber to the real _finite_number (float() parsing, NaN/Inf tests) is the differential run alone (model vs real function on a value "
    "grid, and the real function's results handed to the evaluator as a table); further trusted readings: try: X = E except TypeError: X = C "
    "around one D.get(K) is `if hashable K then E else C` (only hashing the key can raise TypeError on JSON-shaped values), < / > are defined "
    "on float×float and int×int only, an f-string field is str() of its value, ctx = getattr(context, 'attrs', context) or {} and the for "
    "statement itself are hand-written (Py.forFlow), d.get on a non-dict is None (CPython raises: the equalities speak about dict contexts); "
    "for the translated target matcher match_resource / _is_strict (C05) the trusted readings are: a set used only as the right operand of "
    "in / not in is membership by == (an unhashable member, a TypeError in CPython, is not represented: the source guards it), an "
    "early-return loop over d.items() is the first returned value in insertion order, a try/except-Exception function body is its try body, "
    "d.get on a non-dict is None (CPython raises: the equalities speak about dict resources), str() of floats/containers is the oracle's; "
    "for the translated "
    "FRAGMENTS of policy.evaluate / policyset.decide (C02) also the fragment designation in pytolean.py (which statement range, which "
    "variables are inputs/outputs) — the same designation builds the Python function the translation is compared with — and, by hand, "
    "what surrounds the fragments: variable initialisation, rule applicability (eval_condition; match_actions and match_resource are "
    "translated and proved equal to the model: C03_translated, C05_translated), exceptions; "
    "for the reference evaluators translated WHOLE (C02: policy.evaluate, policyset._decide_single / decide; harness/pytolean_except.py, plugin "
    "extractors/src_translation_evaluators.py, obligation Run/C02_whole.lean, validated against the real functions on every run by "
    "Run/SrcEvalEvaluators.lean) nothing of the two functions is hand-modelled any more; the trusted readings are: a top-level `for` with "
    "break/continue is PyE.forLoop on the tuple of the variables the body assigns that are defined before the loop (the other variables of "
    "the body are local to one iteration), `try: if T: <constants, continue> except C: …` protects the test T only (PyE.tryBind), x.lower() "
    "raises AttributeError on a non-str and lowers ASCII letters (the model's lowerField), dict(x) copies a dict, x['k'] = v on a local "
    "built by dict(…) is rebinding, keyword-only parameters are ordinary ones, the mutual recursion _decide_single ↔ decide is structural "
    "recursion on a budget that the obligation proves sufficient (the size of the document); CALLED, not re-translated: match_actions, "
    "_is_applicable, match_resource, _is_strict as the total translations of C03/C05 (so for a truthy non-dict env['resource'] CPython's "
    "AttributeError is not represented) and eval_condition as translated for C04, whose EXTERNALS stay parameters of the evaluators: _parse_dt "
    "(datetime parsing: the oracle's), getattr on a non-dict (answers 'absent'), the `rel` branch (the model's evalRel); .raised "
    "'ConditionTypeError' is not a value (ConditionTypeError is .typeMismatch): PyE.catches does not treat it as one; the theorems speak "
    "about documents whose policies, sets and rules are dicts and a dict env — on other shapes CPython raises AttributeError where the "
    "model's get answers None (model's domain, DESIGN §2.1; the translation itself raises like CPython and is compared with it every run)",
    "for the translated role resolver StaticRoleResolver.__init__ / .expand (C18): harness/pytolean_loops.py (on top of pytolean.py) and the "
    "new operations of Model/PyLib.lean, validated against CPython on every run (Run/SrcEvalRoles.lean); the trusted readings are: "
    "`while c: body` is Py.whileFuel — the body iterated on the tuple of the variables it assigns or mutates while c holds, at most `fuel` "
    "times, none when that budget runs out (that a budget always suffices is a theorem of the obligation, not an assumption); "
    "xs.pop() / xs.append(e) / s.add(e) on a local bound once to a fresh list/set and never used as a bare value are rebinding of that local "
    "(value semantics = CPython's reference semantics when nobody else holds the object); a set is the duplicate-free list of its members, "
    "observed only through `in`, `.add` and `sorted` (nothing that depends on CPython's iteration order); sorted() on str is code-point order "
    "= Lean's < on String; d.get(k, default) on a dict with a str key; self.graph is the value __init__ stored (values, not references: a caller "
    "mutating the graph dict during expand is not represented); the equalities speak about a dict[str, list[str]] graph and list[str] | None roles",
    "for the translated METHODS of DefaultInMemoryCache (C15; harness/pytolean_methods.py, lean/Rbacx/Model/PyOrdDict.lean, validated against the "
    "real cache on every run by Run/SrcEvalCache.lean) the trusted readings are: state-passing — self._data is THE state, an insertion-ordered "
    "association list with string keys rebound by every statement that changes it, self._maxsize is a parameter, a method returns the dict "
    "and how the call ended (returned value / raised KeyError with the dict at that moment); `with self._lock:` is transparent (mutual "
    "exclusion is C15_locked's and c15_atomic_ops' business); time.monotonic() is external and clock readings are passed in call-site "
    "order, one integer parameter per syntactic call site (a site inside a loop is rejected), float(int) is the same exact number "
    "(integer clock, ttl None or an int: now + float(ttl) is exact in CPython too); the OrderedDict meanings get / pop(k, None) / "
    "d[k] = v (replace in place, else append) / move_to_end / popitem(last=False) / clear / len / list(d.items())[:N] are those of "
    "PyOrdDict.lean on lists without a repeated key; `while …: popitem(last=False)` is fuel-bounded recursion with fuel len(d)+1 "
    "(proved sufficient: whilePopFirst_fuel); an instance of a dataclass no method ever assigns to is the record of its fields; "
    "by hand remain the RLock and thread interleavings (Model/CacheLock.lean) and __init__ (int(maxsize), the empty OrderedDict)",
    "for the translated CONDITION EVALUATOR eval_condition / resolve / _ensure_numeric_strict / _ensure_str / _as_collection / _is_strict (C04, "
    "C06; harness/pytolean_except.py on top of pytolean.py, lean/Rbacx/Model/PyExcept.lean, validated against the real functions on every C04 "
    "run by Run/SrcEvalCond.lean, exception classes included) the trusted readings are: EXCEPTION-PASSING — a translated function returns "
    "Except CondErr PyVal, .typeMismatch = ConditionTypeError, .raised cls = the builtin exception class cls; expressions are put into "
    "A-normal form in CPython's left-to-right evaluation order and the first exception ends the computation; which operation raises what on "
    "JSON-shaped values is PyExcept.lean's: x[k] (KeyError / IndexError / TypeError), `a, b = v` (TypeError when not iterable, ValueError "
    "when not two items), x in y (TypeError for a non-container, a non-str in a str, an unhashable key), < <= > >= (floats, ints, strs, "
    "datetimes of equal awareness; int against float and list against list are NOT represented and would show up as the class "
    "NotRepresented in the differential run; other kinds TypeError), d.get on a non-dict (AttributeError), len / list / float (OverflowError "
    "for an int beyond the doubles: Float.ofInt rounds to ±inf exactly then; float(<str>) is NOT represented), s.split / startswith / "
    "endswith on a non-str (AttributeError); ==, !=, isinstance, bool, not, str never raise; all()/any() over a generator go left to right "
    "with short-circuit and propagate exceptions; try/except catches by class name (Exception catches everything; no other base classes); "
    "a for loop that carries one variable is a left fold; recursion gets a budget `fuel` (0 = OutOfFuel) and the obligation proves that any "
    "budget above the size of the document suffices and that the budget never changes an answer; EXTERNALS — function parameters, not "
    "translated: getattr (the fallback of resolve on a non-dict; the obligation instantiates it with 'attribute absent', DESIGN §2.1 ii), "
    "_parse_dt (datetime parsing; instantiated with the model's parseDt through the oracle, instants as aware datetimes), and rel_branch = "
    "the statement `if 'rel' in cond: …` of eval_condition (ContextVars, relationship checker, memo: hand-modelled, instantiated with the "
    "model's evalRel) — for these three the equalities speak about the source with the model's function in their place and what ties them "
    "to CPython is the differential run alone (the evaluator gets the real Python's values per input line); the designation of the two "
    "statement ranges (rel branch; the fifteen operator branches = Src.eval_binops) by the text of their `if` tests",
    "for the translated DECISION CORE OF THE ENGINE, statement ranges of Guard._evaluate_core_async (C01, C07, C11; harness/pytolean_async.py on top "
    "of pytolean.py, lean/Rbacx/Model/PyAwait.lean, validated against CPython on every C01 run by Run/SrcEvalEngine.lean: the same statements "
    "compiled as a real async def, stub collaborators sync and async) the trusted readings are: AWAITED COLLABORATOR OUTCOMES AS INPUTS — "
    "`await maybe_await(self.obligations.check(raw, context))` / `…role_resolver.expand(roles)` is not translated but a function parameter whose "
    "result is the call's outcome, some v = returned v, none = raised something `except Exception` catches (BaseException — cancellation, "
    "KeyboardInterrupt — is not represented; maybe_await is part of the outcome: sync and async collaborators differ only in how the value "
    "arrives), so the equalities speak about the source with the model's checker / resolver outcome in the call's place and what the built-in "
    "checker computes is C07_translated's business; TRY/EXCEPT AS A CASE SPLIT — `try: T = <call>; <rest> except Exception: <handler>` is "
    "`match outcome | some => bind T, rest | none => handler`, accepted only when the call is the first statement of the try body and <rest> "
    "and <handler> consist of assignments of names / constants / bool(x) / not / is-None tests and ifs over them (nothing that raises on "
    "JSON-shaped values: a user object whose __bool__ raises is outside), a pair target `ok, ch = …` unpacks as CPython does (list/tuple of "
    "length 2, the keys of a 2-entry dict, a 2-character string) and anything else is the raising case with neither name bound; "
    "logger.<method>(…) statements have no effect on values; `with self.<lock>:` is transparent; self.<attr> reads are inputs; frozen "
    "dataclasses (Subject, Action, Resource, Context, Decision) are records of their declared fields — x.f = field read, getattr(x, 'f', d) = d "
    "also for x = None, C(f=…) = the record in declaration order; the range designation (first/last top-level statement by text prefix, or ONE "
    "nested assignment), which also builds the Python function the translation is compared with; the equalities hold for a subject whose roles "
    "is a list or falsy (a str / dict there is iterated by CPython and by the translation, the model takes no roles: outside `roles: list[str]`) "
    "and for raw decisions that are dicts (what evaluate / decide / the cache return); by hand remain _decide_async, the cache protocol around "
    "it (C08), the contextvars, whether and how often the sinks are called, the sync wrappers",
    "for the translated ASGI MIDDLEWARE RbacxMiddleware.__call__ / _send_json (C20; harness/pytolean_trace.py on top of pytolean_async.py and "
    "pytolean.py, lean/Rbacx/Model/PyTrace.lean, validated against the real middleware on every C20 run by Run/SrcEvalAsgi.lean: raw "
    "scope/receive/send, a stub builder / engine that behave as the outcomes say, full action lists compared) the trusted readings are: "
    "EFFECT TRACES — a translated method is the list of its effects in program order plus how the call ended (returned / raised cls): "
    "`scope['rbacx_guard'] = self.guard` on the parameter is the effect setItem (and rebinds the method's own view of scope), `await send(msg)` "
    "on a parameter is the effect send, `await self.app(scope, receive, send)` the effect call with the caller's objects passed on by name; the "
    "awaited send channel and the downstream application are TAKEN TO RETURN (an exception of theirs would propagate unchanged with nothing "
    "after it executed: not represented; BaseException / cancellation neither); `await self._send_json(…)` is the callee's trace spliced in; "
    "OUTCOME PARAMETERS — self.build_env(scope) and await self.guard.evaluate_async(…) are not translated but function parameters giving "
    ".ok v = returned v / .error cls = raised class cls (which then leaves __call__, effects so far kept), the 4-way unpacking belongs to the "
    "raising point (TypeError for a non-iterable result, ValueError for another number of items), so the equality speaks about the source with "
    "the model's builder / engine outcome in the calls' places (hypotheses BuilderAgrees / EngineAgrees) and what the engine answers is C01's "
    "business; CONSTANTS EVALUATED AT TRANSLATION TIME — json.dumps of a LITERAL display (the 403 body; a parameter whose only use is "
    "json.dumps(p) is handed over as that JSON text, the call site must give a literal) is computed by CPython's own json.dumps when the "
    "translator runs and emitted as a string constant, anything non-literal is rejected; BYTES / ENCODE — a bytes value is represented by the "
    "text it decodes to (UTF-8), b'…' literals must be valid UTF-8, str(…).encode('utf-8') / json.dumps(…).encode('utf-8') / "
    "str(len(…)).encode('ascii') are the identity on that abstract text (a Lean String has no lone surrogates, on which CPython raises "
    "UnicodeEncodeError: not representable), len of a bytes value is the UTF-8 byte count, a header is a 2-tuple of such values, str(x) is the "
    "oracle's; headers.append / headers.extend on a local bound to a fresh list display and not used as a bare value since are rebinding; an "
    "`if` whose branches only assign / append is a conditional VALUE of the variables it rebinds; scope.get on a non-dict is None (CPython "
    "raises: ASGI scopes are dicts); self.<attr> reads are inputs, Decision is the record of its declared fields; by hand remain __init__ "
    "and what the downstream application does",
    "for the translated REDACTION ENFORCER _ensure_list_size / _set_by_path / apply_obligations (C19; harness/pytolean_cursor.py on top of "
    "pytolean.py, lean/Rbacx/Model/PyCursor.lean, validated against the real functions on every C19 run by Run/SrcEvalEnforcer.lean — final "
    "tree, dict key order and escaping exceptions) the trusted readings are: CURSOR = ACCESS PATH — the first parameter of _set_by_path is THE "
    "state, a value tree; the local `cur`, bound once to it and re-bound only by subscripting itself, is the list of subscripts taken (str = "
    "dict key, int = list index, negative ones resolved against the list's length when used); reading through it is atPath state path, a "
    "store through it (cur[k] = v, cur[k][i] = v, lst.append(v) through the helper's reference parameter) is the functional update of the "
    "state at that path, seen by the caller because the state IS the caller's tree; sound on TREES only (no object reachable along two "
    "paths: updating one path then changes no other; a stored value may not mention the cursor or the state); which operation raises is "
    "PyCursor.lean's: x[k] load (KeyError / IndexError / TypeError), x[k] = v on a list in range only (IndexError otherwise, a list never "
    "grows by assignment; d[k] = v replaces in place else appends), `a, b = v` not two items, int(str) = the model's parsePyInt (compared "
    "with CPython's int on every run; a float argument is not represented), a bool as a list index is not represented; every translated "
    "function returns Option — none = an exception escaped or a while budget ran out — and the obligation proves `some`; the while loop of "
    "_ensure_list_size runs on the budget idx + 1 - len(lst), a measure supplied by the plugin and NOT trusted (too small a measure is `none`); "
    "`try: X = int(E) except Exception: H` is a match on int()'s outcome, accepted only when E is a name or a slice of one (nothing else in "
    "the try body can raise); DEEP COPY AS IDENTITY ON VALUES — copy.deepcopy(payload) is payload: what the copy buys in CPython (the result "
    "shares no object with the argument) is what a value has for free, so with in_place=False the input value is untouched by construction "
    "and that the caller's OBJECT is untouched (resp. is the returned object with in_place=True) is tied by the harness's identity / "
    "before-after comparison alone; ob.get(...) on a spec that is not a mapping is None here (CPython raises AttributeError) and a "
    "non-iterable `fields` iterates as empty (CPython raises TypeError): the equality for apply_obligations is stated for documented specs "
    "(plainSpec); by hand remains DecisionLogger (sampling, priority of the redaction sets, size bound, the except fall-back)",
    "for the translated local ReBAC checker rbacx/rebac/local.py (C12): the TYPED translator harness/pytolean_rebac.py and the meanings in lean/Rbacx/Model/PyRebac.lean, validated against CPython on every run (Run/SrcEvalRebac.lean: check, batch_check and every helper on the real store / checker); the trusted readings are: TYPES FROM ANNOTATIONS — str/int/bool/tuple/list/set/dict/`| None` are String/Int/Bool/products/List/PySet/Dict/Option, the frozen dataclass RelTuple is a structure generated from its fields, a This/ComputedUserset/TupleToUserset instance, a list of rule values, None or anything else is PyR.Obj (isinstance = constructor test, a field read behind it); the equalities speak about arguments of the annotated types; `while queue:` is PyR.whileRet on the tuple (clock counter, and the variables bound before the loop that the body assigns or mutates) with a budget (that Rebac.fuelBound suffices is a theorem), a body `return` ends the loop; queue.pop(0)/append, seen.add, memo[k] = v on locals bound once to a fresh []/set()/{} are rebinding; a set is the duplicate-free list of its members seen only through `in`/`.add`; a generator is the list of its yields, `for` inside it is flatMap, the recursion of _expand is well-founded on the size of the expression (proved at definition); self.<index>.setdefault(k, []).append(t) in `add` is state passing on the store value (the lists are created by the store and only read elsewhere; values, not references: a store or rule map mutated during a call is not represented); `context` is ERASED and the caveat registry is an OUTCOME TABLE name -> unregistered | raises | truth value of bool(pred(context)) (user code, external; calling None raises TypeError = raises), `try: … bool(pred(context)) … except Exception` is a match on that outcome and nothing else in the try body can raise; logger calls are dropped; time.perf_counter_ns() is the next element of a reading sequence `clock : Nat -> Int` (counter threaded through the loop state); in batch_check the method self.check is NOT unfolded but a parameter chk j = the result of the j-th call (the model's batchLoop has the same parameter; batch_check_model composes it with the translated check under per-call clocks); constructor defaults are not applied (callers pass every argument); the plugin test-compiles its own rendering (cached) and reports text that does not elaborate as a failed extraction",
    "for THE COMPILER translated whole, compile(policy) + the closure decide(env) it returns (C03; harness/pytolean_closure.py on top of "
    "pytolean_except.py, lean/Rbacx/Model/PyIdent.lean, plugin extractors/src_translation_compile.py, obligation Run/C03_whole.lean, validated "
    "against the real compile(policy)(env) on every C03 run by Run/SrcEvalCompile.lean: result dict with key order or exception class) the "
    "trusted readings are: CLOSURE = INLINING — `return decide` is the body of the nested def with the compile-time variables as they are at the "
    "return (accepted only when nothing rebinds or operates in place on a captured variable after the def, inside the closure or between "
    "calls), `return lambda env: e` is e, so one definition stands for compile(policy)(env) and state kept ACROSS calls of one compiled "
    "function is not represented (the session / overlap cases of the check look at that on the real code); OBJECT IDENTITY = POSITION — a "
    "shape inference finds the variables holding objects observed through id(); such an object is the pair (identity, value), identities "
    "are given where a plain value flows into a list of such objects (rules = … or []) as the position in that list, id(x) reads the "
    "identity and every other use the value: two occurrences of ONE dict object in a rules list (never produced by a JSON / YAML loader) "
    "are not represented; IN-PLACE OPERATIONS on a local that every assignment binds to a fresh display ([], {}, set(), a display of those) "
    "are rebinding — append / add / xs[i].append / xs[i] = v / d.setdefault(k, []).append / sort(key=…) — accepted only while no bare use "
    "of the variable or of an item of it that could be an alias is followed by such an operation; a dict all of whose keys are id(…) "
    "values is the insertion-ordered list of its entries; list.sort(key) is a stable insertion sort on int keys (other key kinds are not "
    "represented); range(<int constants>) is evaluated by CPython at translation time; a for loop carries the variables its body assigns or "
    "operates on that are definitely assigned before it; the string literal of `….get(\"algorithm\") or <literal>` is emitted as "
    "Src.compile_default and judged by C17; CALLED, not re-translated: _actions, _categorize, match_resource, _is_strict as the total "
    "translations of C03_translated / C05_translated (an item of rules, a rule's resource or env['resource'] that is a truthy non-dict "
    "makes CPython raise AttributeError where they answer: not judged by the comparison) and evaluate / decide as translated for C02_whole; "
    "PARTIAL: proved on the generated text are the set delegation and the prologue, plus three kernel-evaluated witnesses; the index / seen "
    "set / sort / bucket part is tied by the differential runs (its generic lemmas are proved in Proofs/CompileTranslated.lean)",
    "for the translated AUDIT LOGGER DecisionLogger.__init__ / _should_drop_by_sampling / log and _DEFAULT_REDACTIONS (C19; "
    "harness/pytolean_logger.py on top of pytolean.py, lean/Rbacx/Model/PyLogger.lean, validated against the REAL DecisionLogger on every "
    "C19 run by Run/SrcEvalLogger.lean — attributes after __init__, the sampling decision, dropped / the record handed to logging.Logger.log "
    "with dict key order) the trusted readings are: TYPED FLOATS — an expression is float-typed by its syntax (float literal, float(E), "
    "random.random(), min/max of float-typed arguments, an attribute __init__ assigns float(P) to, <rate map>.get(K, D) with a float-typed "
    "D, a local all of whose assignments are float-typed) and a float is the model's FNum, its exact order embedding x*2^1074 (NaN apart, "
    "±inf beyond every double): <=, <, >, >=, builtin min/max (b if b < a else a) depend on nothing else, no rounding is assumed; float(x) "
    "of a float-typed x is x (an int / bool / numeric str rate is converted by CPython's float() in the harness; a value float() rejects "
    "raises out of the method: not represented); random.random() is ONE draw parameter (call sites only in return statements, at most one "
    "per statement; how many draws an execution makes is not represented); self.<attr> reads the field __init__'s translation builds, the "
    "attributes logger / as_json / level and the parameters only they read belong to the EMIT effect and are left out; RAISING POINTS — in "
    "`try: B except Exception: H` exactly the external apply_obligations(...) (a parameter PyVal → PyVal → PyVal → CallOut = returned v / "
    "raised, each with the state of the first-argument object afterwards: the argument variable is re-bound to it) and the SIZE ORACLE "
    "(`S = json.dumps(E, ensure_ascii=False); N = len(S.encode(\"utf-8\", \"surrogatepass\"))` as jsonSize : PyVal → Option Nat) can "
    "raise, every other accepted statement is total on the domain (payload a dict whose env is a dict or falsy — dict() of another env "
    "raises out of log); the handler runs with the variables as they are at the raising point; FRESH DICTS — dict(payload), dict(env or "
    "{}) are values and safe[\"env\"] = v on a local bound once by dict(…) and used only as .get receiver / store target / rendering "
    "argument is a functional update (Py.setItem: replaces in place else appends); what in-place redaction does to nested objects the "
    "CALLER still holds is not part of the translated result (harness before/after checks); DIAGNOSTICS `dbg = getattr(self.logger, "
    "\"debug\", None); if callable(dbg): dbg(<constants>)` are skipped; EMIT — `msg = json.dumps(safe, ensure_ascii=False)` / "
    "`msg = f\"decision {safe}\"` under `if self.as_json` followed by the last statement `self.logger.log(self.level, msg)` is the result "
    "`some safe`, `return` before it `none`; that the rendering raises for an unserialisable record with as_json=True, the destination and "
    "the level stay by hand (the harness parses the captured message back)",
    "where C16 uses the world-passing translation of store/file_store.py (atomic_write, FilePolicySource._stat_sig / _ensure_content_sha / etag / "
    "load): harness/pytolean_world.py and lean/Rbacx/Model/PyWorld.lean, validated against the real functions on every run (Run/SrcEvalFileStore.lean "
    "vs the functions under scripted stubs, harness/fstranslated.py); trusted readings: a designated external call acts on Python-level state only "
    "through its returned value; `with <opener>(…) as f` — __enter__ returns the object and does not raise, __exit__ is close() on it, runs on every "
    "way out and never suppresses; handlers match by class NAME (leaf builtin classes, Exception, BaseException); import statements inside a "
    "function and logger calls have no effect; getattr(st, 'st_mtime_ns', D) on the stat record is the field and the eagerly evaluated D does not "
    "raise; os.path.dirname is total and pure; in Run/C16_atomic.lean the six calls of atomic_write are READ as the model's primitives "
    "(Rbacx.FileSrc.Sim.prim over execOp / partialOp, on the paths the code passes) — what mkstemp / rename / unlink do to a real file system "
    "is tied by the fault-injection run on real files; _hash_file (chunked sha256) and parse_policy_text stay external (an abstract tag function / "
    "the parser oracle)",
    "where a check uses the translated decision-cache protocol of the engine (C08, C09: Guard._normalize_env_for_cache / _cache_key, the cache range "
    "of Guard._evaluate_core_async, Guard.set_policy with _recompute_etag / clear_cache in place; harness/pytolean_proto.py, plugin "
    "extractors/src_translation_cacheproto.py, obligation Run/C08_translated.lean, validated against CPython on every C08 run by "
    "Run/SrcEvalCacheProto.lean): the trusted readings are — control in continuation-passing style over an explicit stack of enclosing blocks "
    "(try handler, finally body, with-lock), an external call (cache.get / cache.set / cache.clear / the awaited self._decide_async / compile_policy) "
    "a parameter giving its OUTCOME and the case split emitted at the point of the call, so that a variable keeps what it had been assigned when "
    "the exception was raised; expressions outside external calls restricted to a syntactic class that cannot raise on JSON-shaped values; "
    "`with self._policy_lock:` transparent in the evaluation range (sequential reading) and acq / rel effects on entry and every exit in set_policy; "
    "every textual read of self._policy_gen in the range an input of its own; ContextVar set / reset left out (they do not raise, no value depends on "
    "them); an `if` whose test was decided on the path and whose variables were not assigned since resolved statically; self.<m>() of a spliced "
    "method translated in place; `compile_policy is not None` a Bool parameter; json.dumps(X, sort_keys=True, separators=(',', ':'), default=str, "
    "ensure_ascii=False) — accepted with exactly these keywords only — the model's canonJson on float-free values and an oracle parameter elsewhere, "
    "json.dumps(X, sort_keys=True).encode('utf-8') and hashlib.sha3_256(X).hexdigest() opaque outcome parameters; lean/Rbacx/Model/PyProto.lean; "
    "hypotheses of the equalities: the etag a str or None, _policy_gen an int, a float-free env for the key; by hand remain _decide_async, the cache "
    "object's own behaviour (the built-in one: C15_translated), that the world's key / cache answers / decision of CacheHist.stepCached are the "
    "translated key / the cache object's answers / _decide_async's result (hypotheses of engine_cache_proto_stepCached, tied by the differential "
    "histories), the interleaving semantics of Model/Conc.lean and the evaluator's access order outside the range (C09_shape)",
    "for the translated command line and parser dispatch (C17: _parse_yaml / parse_policy_text / parse_policy_bytes of store/policy_loader.py; "
    "_read_text_from_path_or_stdin, _load_policy_from_arg, _lint_doc, _validate_doc, cmd_lint, cmd_validate, cmd_check, main of cli.py; "
    "harness/pytolean_cli.py, plugin extractors/src_translation_cli.py, obligation Run/C17_cli_translated.lean, validated against the real functions "
    "with stub collaborators on every run by Run/SrcEvalCli.lean and against the model by the driver's cli-model) the trusted readings are: "
    "exceptions are objects with a class NAME and `except C` catches by the table PyX.ancestors of CPython 3.12's builtin classes (a class not in the "
    "table is a direct subclass of Exception: jsonschema's ValidationError/SchemaError, PyYAML's YAMLError); collaborators are function parameters = the "
    "outcome of the call (open+read+close of `with open(P) as f: … f.read()` is ONE outcome; `import yaml` is one); OUTPUT-ONLY statements (they call "
    "_print / _format_issues_text / sys.stdout.write / parser.print_help, contain no return/raise/try and no collaborator call, assign nothing that is "
    "read later) are no-ops that do not raise — so the linters are assumed to return iterables of dicts; the message of `raise Cls('…')` is not "
    "represented; an argparse.Namespace is the dict of its attributes (getattr with default, hasattr); xs.append(e) on a local bound to a list display "
    "is rebinding; `any(a in (…) for a in argv)` does not raise (argv is a list of strings where it is truthy); int(rc) is represented for "
    "int/bool/None/list/dict (float and str statuses answer the uncatchable class NotRepresented); the hypothesis of the cmd_* equalities: the "
    "Namespace's `policy` is a str or absent/None; SYNTACTIC readings re-read on every run and compared with the pinned expectation: the delivery "
    "paths' parser calls and hints, validate_policy's schema resource and validator call, cli.py's imports, the default-algorithm literals",
    "for the translated _parse_dt (C04) and the translated `rel` branch of eval_condition / _canon_subject / _canon_resource (C13; harness/pytolean_rel.py "
    "on top of pytolean_except.py, lean/Rbacx/Model/PyRel.lean, validated against the real functions on every C04 / C13 run by Run/SrcEvalRel.lean: result or "
    "exception class, checker calls, final memo) the trusted readings are: STATE-AND-EXCEPTION-PASSING for the rel range (St -> Except CondErr PyVal x St; the "
    "state = content of the object REL_LOCAL_CACHE.get() returns, `none` = not a dict, + the list of checker calls; it survives an exception); "
    "REL_CHECKER.get() = an optional OUTCOME function of check's argument list (some v returned / none raised), every call recorded, a call never touches "
    "the memo; EVAL_LOOP.get() = a handle or None; resolve_awaitable_in_worker, _ctx_hash and getattr are function parameters (the obligation instantiates "
    "them with the identity on the outcome, a str function that identifies exactly the contexts normCtx identifies, 'absent'); the two datetime conversions "
    "of _parse_dt are external EXPRESSIONS — datetime.fromtimestamp(float(x), tz=timezone.utc), datetime.fromisoformat(x.replace('Z', '+00:00')) — whose "
    "text the plugin pins and whose outcome is the oracle's (fromtimestamp assumed to raise only OverflowError / ValueError / OSError); x.tzinfo is not "
    "None is the awareness bit of PyVal.dt and x.replace(tzinfo=timezone.utc) on a naive value only sets it; d.update(e) on a local built by dict(...) and "
    "stored nowhere is rebinding (the model's dictUpdate); logger calls are skipped; the theorems speak about envs Guard builds (EnvOk) and caveat contexts "
    "that are not non-empty lists / strs (CtxOk); the memo is threaded through condition trees / rule lists / decisions by the hand-written evalCondM … "
    "guardDecideM only (the translated branch is tied node by node)",
    "for the translated SINK BLOCK of Guard._evaluate_core_async (C11: `if self.metrics is not None:` … `return d`; harness/pytolean_sinks.py, plugin "
    "extractors/src_translation_sinks.py, meanings in Model/PySinks.lean, obligation Run/C11_sinks_translated.lean, validated against the same "
    "statements run by CPython with recording sinks of every kind on every run by Run/SrcEvalSinks.lean): SINKS AS PARAMETERS — what "
    "getattr(<sink object>, name, None) finds is absent / a plain function / a coroutine function whose body returns or raises an Exception "
    "(Rbacx.PyS.Sink); the block is a function to the list of sink calls whose body ran (label = the attribute path, not the local's name; "
    "ran as a coroutine?; positional arguments) and its ending (returned v / raised / next); `x(args)` / `await x(args)` runs the body exactly "
    "when the way of calling fits what the sink is (a coroutine function called without await never runs, a plain function awaited runs and "
    "then raises TypeError, None called raises); try … except Exception is tryExcept (what is raised is an Exception: BaseException / "
    "cancellation is not represented); the pure expressions of the block (dict displays, record fields, is-None tests) do not raise; "
    "max(0.0, _now() - start) is an OPAQUE value (not looked into; evaluated by CPython in the comparison); NOT represented: a getattr whose "
    "look-up itself raises, a plain function that RETURNS an awaitable (the engine never awaits it: the call is made, its deferred work is lost), "
    "what a sink does to the payload object it is handed; "
    "for the ASSEMBLY obligation Run/C14_core_assembly.lean (C14, C11): harness/pytolean_sinks.assembly is a purely syntactic reading — which "
    "designated statement range covers each top-level statement of _evaluate_core_async (prefix designators; engine_env / engine_gate are the "
    "engine plugin's), where `return` and reads of self.metrics / self.logger_sink occur in class Guard, where the sink block's inputs are "
    "assigned, and each API method's body as a term of Rbacx.PyAsm.Api (Model/PyAssembly.lean) — with the readings that `await e`, "
    "asyncio.run(e) and ThreadPoolExecutor.submit(f).result() hand on the value or the exception of what they run, that statements containing "
    "no call of the core / an API method and no return / raise (the running-loop probe) do not affect what is handed back, and that the core "
    "is a FUNCTION of the four request objects (calling context, event loop and thread are not arguments: observed by C14's flavour runs)",
    "guardDecideM only (the translated branch is tied node by node for any memo — rel_range_model — and, run from the empty memo at every rel node, "
    "for whole condition trees: eval_condition_rel_tree, C04_eval_condition_closed)",
    "the obligation proves the whole translation equal to the model's compiledDecide (compile_decide_src: dict policy, rules falsy or a list "
    "of dicts, dict env with a dict-or-falsy resource, compilerDefault := Src.compile_default, policy.size + 2 < fuel) and set documents "
    "delegated to Src.decide; nothing of compile / decide is hand-modelled any more",
    "for the translated HOT RELOADER HotReloader.check_and_reload_async / _register_error / the state-creating statements of __init__ (C10; "
    "harness/pytolean_state.py, lean/Rbacx/Model/PyReloader.lean, validated against the real methods on every C10 run by Run/SrcEvalReloader.lean + "
    "harness/reloader_tr.py: a real HotReloader, scripted source / guard sync and async, injected clock / PRNG, dyadic values) the trusted readings "
    "are: STATE PASSING — the fields the methods assign are a record passed in and out, `with self._lock:` is transparent (atomicity of the locked "
    "blocks belongs to the interleaving model and the run-time lock check); READINGS AND OUTCOMES NUMBERED IN EXECUTION ORDER — time.time(), "
    "random.uniform(-1.0, 1.0) and the designated collaborator calls (source.etag / source.load / guard.set_policy) are parameters, the k-th of a "
    "kind along the executed path; a collaborator call is appended to the call trace, then replaced by its outcome .ok v / .error cls (BaseException "
    "is not represented, maybe_await is part of the outcome); an exception is known by the NAME of the first class named in an except clause of the "
    "method that it is an instance of, else by its own class name; ONLY collaborator calls and called methods raise (arithmetic, comparisons, "
    "isinstance(x, str), `is None`, == on str / None are total on the annotated types); ABSTRACT NUMBERS — float arithmetic is an uninterpreted "
    "structure Num T: the obligation reads it as integers of microseconds with + min max < exact, 0.2 = 200000, 0.0 = 0, x*2.0 = 2x and EVERY "
    "OTHER PRODUCT ARBITRARY (the jitter is the model's arbitrary `jit`; nothing is claimed about float rounding), the evaluator as exact rationals, "
    "the differential run uses dyadic values (the literal 0.2 compared within 2^-30); logger.* statements, the locals only they read and "
    "self._src_name() are total and without effect; the PROBE `etag_attr is not None and not inspect.iscoroutinefunction(etag_attr)` is an input "
    "and getattr(self.source, 'etag', None) is total; the range designation in __init__ (first / last statement by text prefix); Guard.set_policy "
    "is taken to return in reloader_check (the raising case is proved separately, outside the model); field / parameter types are read off the "
    "annotations; by hand remain the four atomic blocks and their interleaving, the sync wrapper check_and_reload, start / stop / _run_loop, "
    "Guard.set_policy, and every source (HTTPPolicySource.load / etag included)",
    "for the translated sink block after the repair of finding F21 (supersedes the sentence above about a plain function returning an awaitable): a "
    "sink (Rbacx.PyS.Sink) is absent or a function in one of THREE spellings — plain def, async def, plain def returning an awaitable — whose "
    "work returns or raises where it runs; a Call in the trace means the sink's WORK ran (for the asynchronous spellings: what the call "
    "returned was awaited); `await maybe_await(x(args))` is PyS.callMaybe — maybe_await awaits any awaitable and hands anything else on "
    "(core/helpers.py, not translated; tied by the comparison with CPython, whose sinks are real def / async def / coroutine-returning / "
    "__await__-object-returning methods) — so the work runs once in every spelling and a raise at call time or at await time leaves from that "
    "statement; the unrepaired `iscoroutinefunction` dispatch stays translatable (PyS.call) and is kernel-checked to drop the awaitable "
    "spelling's work (PyS.f21_old_shape_drops_awaitable)",
    "where a check uses the translated decision dispatch / constructor of the engine (C09, C01, C03): Guard._decide_async whole and Guard.__init__ "
    "with _recompute_etag in place, and the cache range of _evaluate_core_async once more as the evaluator's access program; "
    "harness/pytolean_decide.py (on top of pytolean_proto.py), plugin extractors/src_translation_decide.py, lean/Rbacx/Model/PyDecide.lean — "
    "`await asyncio.to_thread(F, args)` read as the OUTCOME of F(args) (returned / raised something `except Exception` catches; cancellation and "
    "BaseException outside), for a local F the outcome of calling its value; asyncio.get_running_loop() in a coroutine does not raise; "
    "EVAL_LOOP.set/reset do not raise and no value depends on them (the try/finally is transparent for the value); every textual read of "
    "self._compiled / self.policy an input of its own; `\"k\" in E` raises exactly on non-containers (= PyE.containsE); truthiness of the "
    "obligation_checker argument is PyVal.truthy; BasicObligationChecker() / threading.Lock() arity-0 outcomes; the event-loop provisioning block of "
    "__init__ assigns no field and lets nothing escape; the defaults of __init__'s signature are not translated; Generated.Src.cacheKeyReads (what "
    "_cache_key reads of self) is syntactic — validated against CPython on every C09 run (Run/SrcEvalDecide.lean: the methods compiled from the source, "
    "real event loop and to_thread, per-read values); by hand / differential remain: that decide_policy / decide_policyset / the compiled closure are "
    "the model's (C02_whole / C03_whole are not instantiated into the outcome parameters), that the real compiler returns a function for the policies "
    "used (probed), step granularity and atomicity (C09_shape)",
    "harness/pytolean_lint.py and lean/Rbacx/Model/PyLint.lean (C17, linter): trusted to render the Python subset of dsl/lint.py's analyze_policy / "
    "analyze_policyset faithfully — a `for` over range / enumerate / an iterable with break and continue as `forStep` over the carried variables "
    "(found by a liveness analysis: assigned in the body and live at the loop head), an `if` that cannot leave by return/break/continue as a phi over the "
    "variables it assigns that are live afterwards, `x.append(e)` / `x[k] = e` on a local list / a local `dict(…)` copy as rebinding (no aliasing), the "
    "FIRST PASS (the first top-level `for` and the `for`s right after it) as an external function of the variables it reads whose one result is "
    "`issues`, `_actions` / `_resource_covers` / `_first_applicable_unreachable` as function parameters, `set(a) & set(b)` in a test as 'some member of a "
    "equals some member of b' (hashable members), `xs[i]` without IndexError, `.get` on a non-dict as None (rules / children are dicts), "
    "`str(x).lower()` = the oracle's text lower-cased on ASCII letters (the result is only compared with ASCII literals that contain no `k`). "
    "Validated against CPython on every run (Run/SrcEvalLint.lean vs the real analyze_policy / analyze_policyset on the algorithm-dependent issues); "
    "`_resource_covers` (existing pytolean) and `_first_applicable_unreachable` (`set(e)` = the list of its members, `issubset`) are translated and "
    "proved equal to the model helpers (Run/C17_lint_helpers_translated.lean); the helper model Lint.actions (`_actions`) is tied only by that differential run",
    "for the STATIC LOCK PROGRAMS of the hot reloader (C14; harness/pytolean_locks.py, plugin extractors/src_translation_locks.py, "
    "lean/Rbacx/Model/PyLockProg.lean, obligation Run/C14_locks_static.lean): the reading is syntactic and trusted — WHICH calls are operations is "
    "decided by the text of the callee: `with self._lock` / self._lock.acquire() / .release() = acquire / release (the kind RLock / Lock from the one "
    "assignment in __init__), <x>.join(…) = wait for the polling thread and <x>.start() = its spawn (every threading.Thread of the class has "
    "target=self._run_loop, checked), <x>.submit(f) / <x>.result() = spawn of / wait for the helper thread running the local def f, "
    "self.source.<anything>(…) = an external call of unbounded duration, self._stop_event.wait() without a timeout likewise (with a timeout: bounded, no "
    "operation); self.<method>(…) and property reads are inlined (acyclic call graph, checked); asyncio.run(E) / maybe_await(E) / await E run E to "
    "completion on the calling thread; NO operation and bounded duration: builtins, time, random, logger / logging, inspect, json, "
    "asyncio.get_running_loop, the constructors of Thread / RLock / Lock / Event / ThreadPoolExecutor, is_alive / is_set / set / clear, and "
    "self.guard.set_policy (called UNDER the lock by design: that it neither blocks on another thread nor re-enters the reloader is assumed); `with "
    "ThreadPoolExecutor(…) as ex` is transparent (its shutdown waits for the helper that fut.result() already waited for); control flow is "
    "over-approximated — tests are not interpreted (both branches, any number of iterations), a statement containing a call may raise after its "
    "operations, an except clause may or may not match — so infeasible paths are included (never excluded); acquire()/release() themselves do not "
    "raise; anything else is `.unsupported` (no path, never safe). One helper thread per calling context and ONE run of each thread's program are the "
    "model's (Model/Locks.lean): a polling loop that submits a helper on every iteration is represented by one helper run. SpawnSafe (a join / result "
    "is for a thread that was spawned or is running) is a hypothesis of reloader_deadlock_free, not derived (data-dependent in stop()). Tied to CPython "
    "on every run by traced_paths_are_static_paths: the dynamically traced programs are paths of the static ones",
    "for the translated BUNDLED SCHEMA dsl/policy.schema.json (C06, C17; harness/pytolean_schema.py, lean/Rbacx/Model/JsonSchema.lean, validated against "
    "the real jsonschema validator built from the same file and against rbacx.dsl.validate.validate_policy on every C06 run by Run/SrcEvalSchema.lean — "
    "every generated document, accepted or rejected, + ~400 hostile shapes, both directions) the trusted readings are: SHALLOW EMBEDDING — a schema "
    "object is the conjunction of its keywords, a sub-schema a function PyVal -> Bool, `$ref: #/$defs/X` a call of the definition X costing one unit of "
    "fuel (the obligation's theorems hold for EVERY fuel; the evaluator uses 2*size+16; below the needed budget `not` / `oneOf` make the verdict "
    "fuel-dependent, which only the comparison rules out for the evaluator's budget); object member order has no meaning (keywords are emitted in a "
    "canonical order, `properties` sorted by key); $schema / title / description are annotations, `$defs` the table of definitions; jsonschema's "
    "keyword semantics on Python values: each keyword constrains its own instance type and passes on others (properties / required / "
    "additionalProperties:false / minProperties / maxProperties: dict; items / prefixItems / minItems / maxItems: list; minLength: str, in code "
    "points), type number = int | float but not bool, integer also an integral float, enum (strings only) = a str in the list, oneOf = exactly one "
    "branch, `format` is NOT asserted (validate_policy installs no format checker); a dict is an association list with distinct keys (a Python dict; "
    "`type: integer` is the one meaning the current schema does not exercise); any keyword outside this set, a non-local $ref, a non-string enum, "
    "a schema-valued additionalProperties are REFUSED by the translator and fail the named obligation C06_schema; documents holding lone surrogates "
    "or non-string keys are outside the value universe and not compared",
    "harness/pytolean_http.py and lean/Rbacx/Model/PyHttp.lean (C10 / C17, HTTPPolicySource.load / etag / the state-creating statements of __init__): "
    "trusted to render the Python subset of store/http_store.py faithfully — STATE AND EXCEPTION PASSING (the fields `_etag`, `_policy_cache` are a "
    "record passed in and out, also when an exception escapes: what was assigned before the raise stays assigned; `if` / `try` statements joined "
    "with what follows over the locals they assign that are live afterwards — a backward liveness analysis; a handler starts from the fields as "
    "the `try` body left them, and a local the body assigns and the handler does not re-assign must not be live afterwards); exception objects are "
    "class names caught through `Rbacx.PyX.ancestors` (an unknown class is a direct subclass of Exception; KeyboardInterrupt is not); the RESPONSE "
    "OBJECT is a record of outcomes (`hasattr` / `getattr(r, k, None)` / `isinstance(getattr(r, 'headers', None), dict)` total, `r.headers.get(K)`, "
    "`r.raise_for_status()`, `r.json()` per CALL SITE in source order — each site runs at most once per load —, `<bytes attribute>.decode('utf-8')` "
    "outcomes; a local bound by `x = getattr(r, k, None)` and not rebound is a handle of that attribute); `requests.get`, `parse_policy_text`, "
    "`validate_policy`, `import requests` are outcome parameters, `_detect_format` a TOTAL function parameter (its own translation is C17_translated's "
    "business); configuration fields (`url`, `headers`, `validate_schema`) are parameters read as JSON-shaped values (`dict(self.headers)` of a dict); "
    "`.lower()` / `in` / `==` / truthiness / `isinstance` on the values that occur (header values str / None / int …) never raise; SILENT: the "
    "`logging` call of the fast path's handler and `from rbacx.dsl.validate import validate_policy` (taken to be total: validate.py imports jsonschema "
    "inside the function). Validated against CPython on every C10 run (Run/SrcEvalHttp.lean vs the real methods over stub `requests` modules and "
    "response objects of many shapes, sequences of calls on one source object; harness/http_tr.py). The equality with the model (`http_load_eq`) is "
    "stated under the refinement `Answers` / `StSim` / `Delivers` of Proofs/HttpTranslated.lean and WITHOUT schema validation (the model has no "
    "validator); what the faked server of the C10 differential run answers is the harness's, not the translation's, business",
]


class CheckError(RuntimeError):
    """Infrastructure failure (exit 2), never a verdict."""


def sh(cmd: list[str], cwd: str | None = None, timeout: int = 3600) -> subprocess.CompletedProcess:
    return subprocess.run(cmd, cwd=cwd, capture_output=True, text=True, timeout=timeout)


# ----------------------------------------------------------------------------- build + audit

_FORBIDDEN = re.compile(r"\bsorry\b|\badmit\b|^axiom |native_decide|bv_decide|implemented_by|\bunsafe |maxHeartbeats 0")


def _strip_comments(text: str) -> str:
    text = re.sub(r"/-.*?-/", "", text, flags=re.S)
    return "\n".join(ln.split("--", 1)[0] for ln in text.splitlines())


def grep_forbidden() -> list[str]:
    hits = []
    for root, _, files in os.walk(os.path.join(LEAN, "Rbacx")):
        for fn in files:
            if fn.endswith(".lean"):
                p = os.path.join(root, fn)
                body = _strip_comments(open(p, encoding="utf-8").read())
                for i, ln in enumerate(body.splitlines(), 1):
                    if _FORBIDDEN.search(ln):
                        hits.append(f"{os.path.relpath(p, LEAN)}:{i}: {ln.strip()}")
    return hits


def _sources_digest() -> str:
    h = hashlib.sha256()
    for root, dirs, files in os.walk(LEAN):
        dirs[:] = sorted(d for d in dirs if d != ".lake")
        for fn in sorted(files):
            if fn.endswith((".lean", ".toml")):
                p = os.path.join(root, fn)
                h.update(p.encode())
                h.update(open(p, "rb").read())
    return h.hexdigest()


def library_modules() -> list[str]:
    mods = []
    for root, dirs, files in os.walk(os.path.join(LEAN, "Rbacx")):
        dirs[:] = sorted(d for d in dirs if d != "Run")
        for fn in sorted(files):
            if fn.endswith(".lean") and fn not in ("Generated.lean", "Audit.lean"):
                rel = os.path.relpath(os.path.join(root, fn), LEAN)[:-5]
                mods.append(rel.replace(os.sep, "."))
    return mods


def leanchecker(digest: str) -> dict:
    """thorough tier: replay every library module (model, specs, proofs, property theorems) through `leanchecker`, the toolchain's
    independent re-checker of compiled .olean files; cached by the digest of the Lean sources"""
    cache_p = os.path.join(LEAN, ".lake", "leanchecker.json")
    if os.path.exists(cache_p):
        c = json.load(open(cache_p))
        if c.get("digest") == digest and c.get("ok"):
            return c
    mods = library_modules()
    t0 = time.time()
    p = sh(["lake", "env", "leanchecker"] + mods, cwd=LEAN, timeout=3000)
    res = {"digest": digest, "ok": p.returncode == 0, "modules": len(mods), "seconds": round(time.time() - t0, 1),
           "log": (p.stdout + p.stderr)[-1500:] if p.returncode != 0 else ""}
    if res["ok"]:
        json.dump(res, open(cache_p, "w"))
    return res


def build_and_audit(tier: str = "quick") -> dict:
    """Regenerate Generated.lean from /repo, `lake build`, forbidden-token grep, axiom audit.

    Serialised with a file lock; the audit result is cached by a digest of all Lean sources."""
    import extract  # noqa: WPS433

    os.makedirs(os.path.join(LEAN, ".lake"), exist_ok=True)
    with open(os.path.join(LEAN, ".lake", "verif.lock"), "w") as lock:
        fcntl.flock(lock, fcntl.LOCK_EX)
        facts = extract.extract()
        extract.write(facts)
        t0 = time.time()
        p = sh(["lake", "build", "Rbacx", "driver", "Rbacx.Generated"], cwd=LEAN)
        for _ in range(4):
            if p.returncode == 0:
                break
            # a TRANSLATION of the current source text that does not compile is a translation that failed, not a broken installation: the
            # plugin's section is replaced by its failure note (its obligation is then undischarged and the check searches for a failing
            # input); anything else that does not build stays an infrastructure error
            import re as _re
            bad = set()
            for m in _re.finditer(r"error: \S*Rbacx/Generated\.lean:(\d+):\d+", p.stdout + p.stderr):
                key = extract.section_of_line(facts, int(m.group(1)))
                if key and key.startswith("translated") and not (isinstance(facts.get(key), dict) and "extraction_failed" in facts[key]):
                    bad.add((key, m.group(0)))
            if not bad:
                break
            for key, where in bad:
                line = next((ln for ln in (p.stdout + p.stderr).splitlines() if where in ln), where)
                facts[key] = {"extraction_failed": "the translation does not compile: " + line.strip()[:300]}
            extract.write(facts)
            p = sh(["lake", "build", "Rbacx", "driver", "Rbacx.Generated"], cwd=LEAN)
        if p.returncode != 0:
            return {"ok": False, "stage": "build", "log": (p.stdout + p.stderr)[-4000:], "facts": facts}
        digest = _sources_digest()
        cache_p = os.path.join(LEAN, ".lake", "audit.json")
        if os.path.exists(cache_p):
            c = json.load(open(cache_p))
            if c.get("digest") == digest:
                c["facts"] = facts
                c["build_s"] = time.time() - t0
                if tier == "thorough":
                    c["leanchecker"] = leanchecker(digest)
                    if not c["leanchecker"]["ok"]:
                        return {**c, "ok": False, "stage": "leanchecker", "log": c["leanchecker"]["log"]}
                return c
        hits = grep_forbidden()
        a = sh(["lake", "env", "lean", "Rbacx/Audit.lean"], cwd=LEAN)
        axioms: dict[str, list[str]] = {}
        for m in re.finditer(r"'([^']+)' depends on axioms: \[([^\]]*)\]", a.stdout.replace("\n ", " ")):
            axioms[m.group(1)] = [x.strip() for x in m.group(2).split(",") if x.strip()]
        for m in re.finditer(r"'([^']+)' does not depend on any axioms", a.stdout):
            axioms[m.group(1)] = []
        bad = {k: v for k, v in axioms.items() if not set(v) <= ALLOWED_AXIOMS}
        res = {"ok": a.returncode == 0 and not hits and not bad, "stage": "audit", "digest": digest,
               "forbidden": hits, "axioms": axioms, "bad_axioms": bad,
               "log": (a.stdout + a.stderr)[-3000:] if a.returncode != 0 else "", "facts": facts,
               "build_s": time.time() - t0}
        if res["ok"]:
            json.dump({k: v for k, v in res.items() if k != "facts"}, open(cache_p, "w"))
        if res["ok"] and tier == "thorough":
            res["leanchecker"] = leanchecker(digest)
            if not res["leanchecker"]["ok"]:
                return {**res, "ok": False, "stage": "leanchecker", "log": res["leanchecker"]["log"]}
        return res


def run_obligation(name: str, deps: tuple[str, ...] | list[str] = ()) -> tuple[bool, str]:
    """Compile one per-run obligation file lean/Rbacx/Run/<name>.lean on its own.

    `deps`: other obligation files whose theorems this one uses (it `import`s them as modules `Rbacx.Run.<dep>`): they are built
    first (`lake build`, serialised with the build lock; cached by Lake while Generated.lean does not change).  A prerequisite that
    does not check makes this obligation undischarged, naming the prerequisite."""
    if deps:
        with open(os.path.join(LEAN, ".lake", "verif.lock"), "w") as lock:
            fcntl.flock(lock, fcntl.LOCK_EX)
            b = sh(["lake", "build"] + [f"Rbacx.Run.{d}" for d in deps], cwd=LEAN, timeout=1800)
        if b.returncode != 0:
            out = b.stdout + b.stderr
            first = out.find("error")
            return False, (f"prerequisite obligation(s) {list(deps)} of {name} do not check: " + (out[max(first - 200, 0):][:1800] if first >= 0 else out[-1800:]))
    p = sh(["lake", "env", "lean", f"Rbacx/Run/{name}.lean"], cwd=LEAN, timeout=900)
    out = p.stdout + p.stderr
    if p.returncode != 0:
        # a theorem that does not check is elaborated with `sorryAx`: report the error itself, not the axiom listing that follows from it
        first = out.find("error")
        return False, out[max(first - 200, 0):][:2000] if first >= 0 else out[-2000:]
    # obligations that print the axioms of their theorems are held to the same standard as the library
    for m in re.finditer(r"'([^']+)' depends on axioms: \[([^\]]*)\]", out.replace("\n ", " ")):
        used = {x.strip() for x in m.group(2).split(",") if x.strip()}
        if not used <= ALLOWED_AXIOMS:
            return False, f"{m.group(1)} depends on axioms {sorted(used - ALLOWED_AXIOMS)}"
    if p.returncode == 0 and re.search(r"\bsorry\b", out):
        return False, "obligation file mentions sorry: " + out[-500:]
    return p.returncode == 0, out[-2000:]


# ----------------------------------------------------------------------------- known findings


def load_findings() -> list[dict]:
    p = os.path.join(VERIF, "known_findings.json")
    return json.load(open(p))["findings"] if os.path.exists(p) else []


# ----------------------------------------------------------------------------- run bookkeeping


class Run:
    def __init__(self, prop: str, tier: str, seed: int):
        self.prop, self.tier, self.seed = prop, tier, seed
        self.t0 = time.time()
        self.evaluations = 0
        self.nontrivial: set[str] = set()
        self.hist: dict[str, int] = {}
        self.samples: list[Any] = []
        self.disagreements: list[dict] = []   # model ≠ implementation (property-relevant projection)
        self.spec_failures: list[dict] = []   # implementation output violates the spec predicate
        self.known: list[str] = []            # KNOWN-FINDING lines
        self.notes: list[str] = []
        self.obligations: list[tuple[str, bool, str]] = []   # (name, discharged, detail)
        self.undischarged_known: list[dict] = []
        self.extra: dict[str, Any] = {}
        self.rule = ""
        self.exhaustive = False
        self.assumptions: list[str] = []
        self.theorems: list[str] = []
        # anchored source files that differ from the tree the checks were validated on ⇒ a deeper random search (never a verdict)
        try:
            import anchors
            self.anchored_changed: list[str] = anchors.changed(prop)
        except Exception:  # noqa: BLE001
            self.anchored_changed = []
        self.boost = 3 if self.anchored_changed else 1

    def count(self, cls: str, n: int = 1) -> None:
        self.hist[cls] = self.hist.get(cls, 0) + n

    def case(self, key: Any, nontrivial: bool, sample: Any = None) -> None:
        self.evaluations += 1
        if nontrivial:
            self.nontrivial.add(hashlib.sha1(json.dumps(key, sort_keys=True, default=str).encode()).hexdigest())
        if sample is not None and len(self.samples) < 3:
            self.samples.append(sample)

    def obligation(self, name: str, ok: bool, detail: str = "", known: str | None = None) -> None:
        """a per-run proof obligation; `known` = id of the listed known finding that makes it false on this tree
        (then it is reported under `undischarged_known`, not counted as an obligation of this run)"""
        if not ok and known:
            self.undischarged_known.append({"name": name, "finding": known, "detail": detail[:300]})
        else:
            self.obligations.append((name, ok, detail))

    # -- output

    def write_replay(self, kind: str, payload: dict) -> str:
        os.makedirs(REPLAYS, exist_ok=True)
        path = os.path.join(REPLAYS, f"{self.prop}_{kind}_{self.seed}.json")
        with open(path, "w") as f:
            json.dump({"property": self.prop, "kind": kind, "seed": self.seed, "tier": self.tier, **payload}, f,
                      indent=1, default=str)
        return os.path.relpath(path, VERIF)

    def finish(self, audit: dict, violations: list[tuple[str, bool]]) -> int:
        """violations: list of (replay_path, failing_input_found)."""
        # witnesses of repaired defects listed for this property (known_findings.json, status=fixed) are replayed on every run:
        # a reproduction is a violation like any other (a fixed entry suppresses nothing)
        try:
            import fixedwit
            ids = [f["id"] for f in load_findings() if f.get("property") == self.prop and f.get("status") == "fixed"
                   and str(f.get("witness", "")).startswith("corpus/fixed.json#")]
            violations = list(violations) + fixedwit.replay_fixed(self, ids)
        except CheckError:
            raise
        except Exception as e:  # noqa: BLE001
            raise CheckError(f"replay of the fixed-defect witnesses failed: {type(e).__name__}: {e}")
        n_obl = len(self.theorems) + len(self.obligations)
        n_dis = sum(1 for t in self.theorems if t in audit.get("axioms", {}) and t not in audit.get("bad_axioms", {})) \
            + sum(1 for _, ok, _ in self.obligations if ok)
        missing = [t for t in self.theorems if t not in audit.get("axioms", {})]
        if missing:
            raise CheckError(f"property theorems missing from the axiom audit: {missing}")
        ev = {
            "property_id": self.prop, "tier": self.tier, "seed": self.seed, "level": "proof",
            "coverage": {
                "obligations": max(n_obl, 1), "discharged": n_dis,
                "checker_cmd": "cd lean && lake build && lake env lean Rbacx/Audit.lean   (+ lake env lean Rbacx/Run/<obligation>.lean)",
                "trusted_base": TRUSTED_BASE,
                "theorems": self.theorems,
                "theorem_axioms": {t: audit.get("axioms", {}).get(t) for t in self.theorems},
                "run_obligations": [{"name": n, "discharged": ok, "detail": d[:300]} for n, ok, d in self.obligations],
                "undischarged_known": self.undischarged_known,
                "evaluations": self.evaluations, "distinct_nontrivial": len(self.nontrivial),
                "rule": self.rule, "samples": self.samples[:3], "exhaustive": self.exhaustive,
                "outcome_histogram": dict(sorted(self.hist.items())),
                "disagreements_checked": self.evaluations,
                "model_vs_impl_disagreements": len(self.disagreements),
                "spec_failures_on_impl": len(self.spec_failures),
                "known_findings_reproduced": self.known,
                "anchored_files_changed": self.anchored_changed, "search_scale": self.boost,
                "extracted": audit.get("facts"),
                "leanchecker": ({k: v for k, v in audit["leanchecker"].items() if k != "log"} if audit.get("leanchecker") else "not run (thorough tier only)"),
                **self.extra,
            },
            "assumptions": self.assumptions + self.notes,
            "wall_s": round(time.time() - self.t0, 2),
            "violations": len(violations),
        }
        os.makedirs(EVID, exist_ok=True)
        with open(os.path.join(EVID, f"{self.prop}.json"), "w") as f:
            json.dump(ev, f, indent=1, default=str)
        for line in self.known:
            print(f"KNOWN-FINDING: property={self.prop} {line}")
        for path, found in violations:
            print(f"VIOLATION property={self.prop} replay={path}" + ("" if found else " no-failing-input-found"))
        print(f"[{self.prop}] tier={self.tier} seed={self.seed} evaluations={self.evaluations} "
              f"nontrivial={len(self.nontrivial)} theorems={len(self.theorems)} obligations={n_dis}/{n_obl} "
              f"disagreements={len(self.disagreements)} spec_failures={len(self.spec_failures)} "
              f"wall={ev['wall_s']}s -> {'FAIL' if violations else 'ok'}")
        return 1 if violations else 0


def shrink_list(xs: list, still_fails: Callable[[list], bool], budget: int = 200) -> list:
    """Greedy one-at-a-time removal."""
    cur = list(xs)
    i = 0
    while i < len(cur) and budget > 0:
        cand = cur[:i] + cur[i + 1:]
        budget -= 1
        try:
            if still_fails(cand):
                cur = cand
                continue
        except Exception:  # noqa: BLE001
            pass
        i += 1
    return cur
