"""Entry point: ./check <Cxx> [--tier quick|thorough] [--replay FILE]   (exit 0 ok / 1 violation / 2 infra)."""
from __future__ import annotations

import argparse
import importlib
import os
import sys
import traceback

import lib
import registry


def main() -> int:
    ap = argparse.ArgumentParser()
    ap.add_argument("prop")
    ap.add_argument("--tier", default=os.environ.get("VERIF_TIER", "quick"), choices=["quick", "thorough"])
    ap.add_argument("--replay", default=None)
    args = ap.parse_args()
    seed = int(os.environ.get("VERIF_SEED", "0") or 0)
    # a check that hangs is an infrastructure failure (exit 2), never a verdict and never an endless run
    # (a timer thread, not SIGALRM: some checks use the real-time timer for their own per-case guards)
    import threading
    limit = int(os.environ.get("VERIF_TIMEOUT", "1800" if args.tier == "quick" else "7200"))

    def _too_long():
        print(f"[{args.prop.upper()}] infrastructure error: the check did not finish within {limit} s", file=sys.stderr, flush=True)
        os._exit(2)
    _wd = threading.Timer(limit, _too_long)
    _wd.daemon = True
    _wd.start()
    prop = args.prop.upper()
    try:
        mod = importlib.import_module(f"props.{prop.lower()}")
    except ModuleNotFoundError:
        print(f"no check registered for {prop}", file=sys.stderr)
        return 2
    try:
        # Audit.lean is regenerated from the registry so that it can never drift from it
        audit_p = os.path.join(lib.LEAN, "Rbacx", "Audit.lean")
        src = registry.audit_source()
        if not os.path.exists(audit_p) or open(audit_p).read() != src:
            open(audit_p, "w").write(src)
        audit = lib.build_and_audit(args.tier)
        run = lib.Run(prop, args.tier, seed)
        run.theorems = list(registry.THEOREMS.get(prop, []))
        if args.replay:
            return mod.replay(run, audit, args.replay)
        return mod.check(run, audit)
    except lib.CheckError as e:
        print(f"[{prop}] infrastructure error: {e}", file=sys.stderr)
        return 2
    except Exception:  # noqa: BLE001
        traceback.print_exc()
        return 2


if __name__ == "__main__":
    sys.exit(main())
