"""Regenerates /verif/MANIFEST.json from the table below (kept valid at all times)."""
from __future__ import annotations

import json
import os
import sys

sys.path.insert(0, os.path.dirname(os.path.abspath(__file__)))

VERIF = os.path.dirname(os.path.dirname(os.path.abspath(__file__)))

import registry

CLAIMS: dict[str, dict] = {pid: d["claim"] for pid, d in registry.load_claims().items() if d.get("claim")}

CLAIMS["C10"] = {
    "text": "Lean theorems over a hand-written model of HotReloader.check_and_reload_async (four atomic blocks: snapshot under the lock / "
            "etag() / load() / publish-or-register-error under the lock) for arbitrary answers of the source, proved by case analysis "
            "and induction over histories of any length: a check never raises and returns a bool; a False check leaves engine policy and "
            "cache untouched; the active policy is always the initial one or a document a successful load() returned, installed with one "
            "cache clear in the very check that returned True, and for non-overlapping checks it is the most recently loaded one; the "
            "suppression window never exceeds max(0.2, backoff_max*(1+jitter_ratio)) and forced checks ignore it; the three safety "
            "statements also hold, by an invariant of a small-step semantics, for every interleaving of any number of overlapping checks. "
            "Convergence (engine = source's document after one unforced check once the source is stable and the window is over, two if the "
            "source settles in the middle of the first; later checks False without loading when the source has a tag; initial_load off: "
            "provided the source changed after construction) is proved for every 'honest' source and the file (under the (size,mtime) "
            "proviso), S3 (all detectors and fall-backs), scripted custom and HTTP-without-server-ETags sources are proved honest. "
            "PARTIAL for HTTP with server ETags: the code's etag() returns the locally cached tag (known finding F9); a counterexample "
            "theorem shows non-convergence for the code as it is, convergence is proved for the repaired variant, and every run determines "
            "which variant the code refines. The model is tied to the real HotReloader + Guard + File/HTTP/S3 sources on every run by an "
            "exhaustive small-scope + random differential run with injected clock/PRNG (12 source kinds, plain/forced/async/overlapping "
            "checks, mid-check changes, all fault kinds), and the spec predicates are evaluated by the Lean driver on the implementation's trace.",
    "design_ref": "DESIGN.md §5 C10, §3.4, §4.3; notes/C10.md",
    "note": "Trusted: Lean kernel; the hand-written model (validated differentially, not verified, against the code); harness generators, fakes "
            "and the deterministic interleaving of overlapping checks at the source calls (the two locked blocks are assumed atomic; every "
            "write to the guarded fields and every set_policy is checked at run time to happen under the reloader lock, every source call "
            "outside it). Assumptions: sources raise only Exception subclasses; every written document is new (no return to an earlier "
            "content); file contents change together with size or mtime. Cannot exhibit: real network and S3 behaviour (faked), wall-clock "
            "jumps, the background polling thread's timing (start/stop belong to C14). Known finding F9 (HTTP etag() is the cached tag) is "
            "reported as KNOWN-FINDING on every run while the code refines the defect variant.",
    "technique": "Lean 4 proof over a hand-written model + differential correspondence check",
}

ALL = [f"C{i:02d}" for i in range(1, 21)]


def main() -> None:
    checks = []
    for pid in ALL:
        if pid not in CLAIMS:
            continue
        c = CLAIMS[pid]
        checks.append({
            "property_id": pid,
            "quick_cmd": f"./check {pid} --tier quick",
            "thorough_cmd": f"./check {pid} --tier thorough",
            "evidence_file": f"evidence/{pid}.json",
            "replay_cmd_template": f"./check {pid} --replay {{path}}",
            "engine": "lean-model+harness",
            "level_claimed": {"category": "proof", "text": c["text"], "design_ref": c["design_ref"]},
            "level_note": c["note"],
            "technique": c["technique"],
        })
    m = {
        "version": 1,
        "setup_cmd": "./setup.sh",
        "hooks": {"guard": "RBACX_VERIF", "enable": "none needed: all observation is by subclassing/wrapping from the harness; no hook commits in /repo",
                  "baseline_off_cmd": "cd /repo && /venv/bin/python -m pytest -ra -q -p no:cacheprovider --timeout=900 --continue-on-collection-errors",
                  "source_commits": [], "add_only": True},
        "engines": [{"name": "lean-model+harness", "path": "lean/ , harness/", "serves_properties": sorted(CLAIMS),
                     "kind_free_text": "Lean 4 model + theorems (lake project, no Mathlib), compiled line-protocol driver, Python correspondence harness running the real rbacx in-process"}],
        "checks": checks,
        "notes": "See DESIGN.md. Every check: regenerate extracted facts from /repo, lake build, axiom audit, correspondence run, spec predicates on the implementation's output.",
        "not_applicable": [{"property_id": pid, "reason": "check not built yet in this session (planned, see DESIGN.md §5); not claimed"}
                           for pid in ALL if pid not in CLAIMS],
    }
    with open(os.path.join(VERIF, "MANIFEST.json"), "w") as f:
        json.dump(m, f, indent=1)
        f.write("\n")


if __name__ == "__main__":
    main()
