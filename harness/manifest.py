"""Regenerates /verif/MANIFEST.json from the table below (kept valid at all times)."""
from __future__ import annotations

import json
import os

VERIF = os.path.dirname(os.path.dirname(os.path.abspath(__file__)))

CLAIMS: dict[str, dict] = {
    "C02": {
        "text": "Lean theorems (induction over the rule list, any length/order/outcome pattern) that the modelled reference evaluator "
                "computes exactly the documented deny-overrides / permit-overrides / first-applicable result; the model is tied to "
                "rbacx.core.policy.evaluate and rbacx.core.policyset.decide on every run by an exhaustive small-scope + random differential "
                "run, and the independent combining spec is evaluated on the implementation's own output.",
        "design_ref": "DESIGN.md §5 C02",
        "note": "Trusted: Lean kernel; hand-written model validated differentially (not verified) against the code; harness generators. "
                "Set-level statement is checked by the spec predicate on every case; its Lean proof covers single policies (sets: see DESIGN).",
        "technique": "Lean 4 proof over a hand-written model + differential correspondence check",
    },
    "C15": {
        "text": "Lean theorems, each an induction over an arbitrary op history from the empty cache (any capacity incl. <= 0, any purge prefix, "
                "any value type): c15_inv (no duplicate keys, never more than max(maxsize,0) entries), c15_refines_map / c15_sound_cache (a get "
                "returns None or the latest value set since the last delete/clear, never one whose deadline is reached), c15_get_latest (exact get "
                "result under a monotone clock: latest value unless expired `<=`, deleted, cleared or capacity-evicted; ttl None/0/negative never "
                "expires), c15_evict_only_lru (a capacity victim: dict over-full, >= maxsize distinct other keys stored or found since, every "
                "survivor touched more recently, <= 1 victim per set when maxsize >= 1 - the full counting statement, not a partial), "
                "c15_lru_exact_no_ttl, c15_trace_ok (the decidable observation spec the driver evaluates on the implementation holds of every model "
                "history), c15_atomic_ops (all accesses under the one lock => every interleaving of single accesses by any number of threads is the "
                "sequential history of whole calls in lock-acquisition order) with the per-run obligation C15_locked over lock facts extracted from "
                "cache.py by AST. Tie: exhaustive op trees + seeded random sequences (dict > 128 entries, clocks exactly on deadlines) compared on "
                "(result, key order of _data) after every call; Lean spec evaluated on the implementation's observations; 2-8 real threads replayed "
                "in lock order and tiny histories brute-force linearised against the model.",
        "design_ref": "DESIGN.md §5 C15",
        "note": "Trusted: Lean kernel; hand-written model Model/Cache.lean validated differentially (not verified) against cache.py; the AST "
                "extractor (lock facts, purge prefix); the interleaving semantics Model/CacheLock.lean (lock held over a run of consecutive "
                "flagged accesses). Cannot exhibit: that threading.RLock is a correct mutex and that `with` releases it. Model domain: integer "
                "clock, int/None ttl, str keys. c15_get_latest assumes a monotone clock (time.monotonic); the other theorems do not. "
                "A change that only alters which expired entries linger in _data (e.g. purge `<`) breaks the correspondence but not the "
                "property as stated: it is reported with no-failing-input-found.",
        "technique": "Lean 4 proof over a hand-written model + extracted lock-discipline obligation + differential correspondence check (sequential and concurrent)",
    },
}

ALL = [f"C{i:02d}" for i in range(1, 21)]


def main() -> None:
    checks = []
    for pid in ALL:
        if pid not in CLAIMS:
            continue
        c = CLAIMS[pid]
        checks.append({
            "property_id": pid,
            "quick_cmd": f"./check {pid} --tier quick",
            "thorough_cmd": f"./check {pid} --tier thorough",
            "evidence_file": f"evidence/{pid}.json",
            "replay_cmd_template": f"./check {pid} --replay {{path}}",
            "engine": "lean-model+harness",
            "level_claimed": {"category": "proof", "text": c["text"], "design_ref": c["design_ref"]},
            "level_note": c["note"],
            "technique": c["technique"],
        })
    m = {
        "version": 1,
        "setup_cmd": "./setup.sh",
        "hooks": {"guard": "RBACX_VERIF", "enable": "none needed: all observation is by subclassing/wrapping from the harness; no hook commits in /repo",
                  "baseline_off_cmd": "cd /repo && /venv/bin/python -m pytest -ra -q -p no:cacheprovider --timeout=900 --continue-on-collection-errors",
                  "source_commits": [], "add_only": True},
        "engines": [{"name": "lean-model+harness", "path": "lean/ , harness/", "serves_properties": sorted(CLAIMS),
                     "kind_free_text": "Lean 4 model + theorems (lake project, no Mathlib), compiled line-protocol driver, Python correspondence harness running the real rbacx in-process"}],
        "checks": checks,
        "notes": "See DESIGN.md. Every check: regenerate extracted facts from /repo, lake build, axiom audit, correspondence run, spec predicates on the implementation's output.",
        "not_applicable": [{"property_id": pid, "reason": "check not built yet in this session (planned, see DESIGN.md §5); not claimed"}
                           for pid in ALL if pid not in CLAIMS],
    }
    with open(os.path.join(VERIF, "MANIFEST.json"), "w") as f:
        json.dump(m, f, indent=1)
        f.write("\n")


if __name__ == "__main__":
    main()
