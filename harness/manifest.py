"""Regenerates /verif/MANIFEST.json from the table below (kept valid at all times)."""
from __future__ import annotations

import json
import os

VERIF = os.path.dirname(os.path.dirname(os.path.abspath(__file__)))

TECH = "Lean 4 proof over a hand-written model + differential correspondence check"
BASE_NOTE = ("Trusted: Lean kernel (axioms ⊆ propext, Classical.choice, Quot.sound, audited every run); the hand-written model is validated "
             "differentially (not verified) against the code on every run; harness generators; CPython str()/float()/datetime as oracles. ")

CLAIMS: dict[str, dict] = {
    "C01": {
        "text": "Theorems for every policy document (single or nested set, any algorithm string), configuration and request: allowed ⇔ effect=permit; an "
                "allowed decision is backed by an applicable non-deny rule of the document carrying exactly the returned obligations, all met per the "
                "built-in checker; nothing applicable ⇒ deny. Proved by loop/tree invariants (induction over rule lists and set trees, early breaks "
                "included) through the compiled path and the interpreter fall-back. Tie: real Guard (5 API flavours, random collaborators) vs model on "
                "(allowed, effect), and the statement itself (Rbacx.Spec.c01) evaluated in Lean on the implementation's decision.",
        "design_ref": "DESIGN.md §5 C01", "note": BASE_NOTE, "technique": TECH},
    "C02": {
        "text": "Lean theorems (induction over the rule list, any length/order/outcome pattern) that the modelled reference evaluator "
                "computes exactly the documented deny-overrides / permit-overrides / first-applicable result; the model is tied to "
                "rbacx.core.policy.evaluate and rbacx.core.policyset.decide on every run by an exhaustive small-scope + random differential "
                "run, and the independent combining spec (incl. nested sets, deciding child id) is evaluated on the implementation's own output.",
        "design_ref": "DESIGN.md §5 C02",
        "note": BASE_NOTE + "Set-level statement: checked by the spec predicate on every case; Lean proofs cover single policies (set theorem: see DESIGN §8).",
        "technique": TECH},
    "C04": {
        "text": "Theorems over every operator, operand pair, environment and oracle: a Boolean result only inside the documented typing table (ordering: "
                "numbers only, never booleans/strings; time: instants only, strict ⇒ aware datetimes; string and collection operators on their kinds; "
                "equality kind-strict up to the numeric tower), between inclusive, and/or short-circuit left to right, not, null-absorbing paths, type "
                "mismatch local to the rule. Tie: exhaustive operator × 30×30 operand-kind cells × lax/strict × literal/attribute placement + random "
                "nested trees against eval_condition.",
        "design_ref": "DESIGN.md §5 C04", "note": BASE_NOTE + "Domain: no getattr path segments; no NaN inside containers.", "technique": TECH},
    "C05": {
        "text": "Theorems characterising the matcher declaratively (actions; type / id / attribute checks as ∃/∀ statements; strict mode never matches "
                "through string forms; the engine's strict flag reaches the matcher on the reference, compiled and set paths). Tie: exhaustive target × "
                "resource cells × lax/strict × 5 real paths (matcher, legacy flag, Guard single, Guard set, compile).",
        "design_ref": "DESIGN.md §5 C05", "note": BASE_NOTE + "Strict equality is Python == (True/1/1.0 identified) — stated interpretation.", "technique": TECH},
    "C06": {
        "text": "Theorem c06_total: for every well-formed document (docWF = what the bundled schema guarantees; every schema-accepted generated document "
                "is checked against it each run), every request over the value universe and every configuration, evaluation returns a decision with "
                "effect ∈ {permit, deny}, allowed ⇔ permit and a documented reason; operators fail only with a type mismatch (structural induction over "
                "the condition tree, rule list and set tree). Tie: grammar + mutation documents filtered by the real schema, JSON/YAML round trips, "
                "hostile requests through the real Guard.",
        "design_ref": "DESIGN.md §5 C06", "note": BASE_NOTE + "Quantifier reading: roles list|null, attrs/context object|null.", "technique": TECH},
    "C07": {
        "text": "Theorems: checker verdict positive iff no permit-targeted obligation unmet; challenge = that of the first unmet one; one theorem per row "
                "of the documented table (truthiness rows, level, re-auth, consent, http challenge, unknown types / other effects ignored, non-numbers "
                "unmet); engine gate (allowed=false, deny, obligation_failed, challenge) for built-in and custom negative verdicts; a deny is never "
                "lifted. Tie: full cross product of obligation shapes × context values × pairs, through the checker and through Guard (sync/async).",
        "design_ref": "DESIGN.md §5 C07", "note": BASE_NOTE + "float(str) is an oracle.", "technique": TECH},
    "C20": {
        "text": "Theorems about the middleware model composed with the engine model: downstream ⇔ allowed (enforce+http+builder), otherwise exactly "
                "[start 403, generic body], body independent of the decision, diagnostics only as X-RBACX-* headers when enabled, errors block "
                "downstream, pass-through otherwise, obligation-failed permit ⇒ 403. Tie: raw ASGI calls on the real middleware + real Guard; full action "
                "list compared.",
        "design_ref": "DESIGN.md §5 C20", "note": BASE_NOTE, "technique": TECH},
}

ALL = [f"C{i:02d}" for i in range(1, 21)]


def main() -> None:
    checks = []
    for pid in ALL:
        if pid not in CLAIMS:
            continue
        c = CLAIMS[pid]
        checks.append({
            "property_id": pid,
            "quick_cmd": f"./check {pid} --tier quick",
            "thorough_cmd": f"./check {pid} --tier thorough",
            "evidence_file": f"evidence/{pid}.json",
            "replay_cmd_template": f"./check {pid} --replay {{path}}",
            "engine": "lean-model+harness",
            "level_claimed": {"category": "proof", "text": c["text"], "design_ref": c["design_ref"]},
            "level_note": c["note"],
            "technique": c["technique"],
        })
    m = {
        "version": 1,
        "setup_cmd": "./setup.sh",
        "hooks": {"guard": "RBACX_VERIF", "enable": "none needed: all observation is by subclassing/wrapping from the harness; no hook commits in /repo",
                  "baseline_off_cmd": "cd /repo && /venv/bin/python -m pytest -ra -q -p no:cacheprovider --timeout=900 --continue-on-collection-errors",
                  "source_commits": [], "add_only": True},
        "engines": [{"name": "lean-model+harness", "path": "lean/ , harness/", "serves_properties": sorted(CLAIMS),
                     "kind_free_text": "Lean 4 model + theorems (lake project, no Mathlib), compiled line-protocol driver, Python correspondence harness running the real rbacx in-process"}],
        "checks": checks,
        "notes": "See DESIGN.md. Every check: regenerate extracted facts from /repo, lake build, axiom audit, correspondence run, spec predicates on the implementation's output.",
        "not_applicable": [{"property_id": pid, "reason": "check not built yet in this session (planned, see DESIGN.md §5); not claimed"}
                           for pid in ALL if pid not in CLAIMS],
    }
    with open(os.path.join(VERIF, "MANIFEST.json"), "w") as f:
        json.dump(m, f, indent=1)
        f.write("\n")


if __name__ == "__main__":
    main()
