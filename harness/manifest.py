"""Regenerates /verif/MANIFEST.json from the table below (kept valid at all times)."""
from __future__ import annotations

import json
import os
import sys

sys.path.insert(0, os.path.dirname(os.path.abspath(__file__)))

VERIF = os.path.dirname(os.path.dirname(os.path.abspath(__file__)))

import registry

CLAIMS: dict[str, dict] = {pid: d["claim"] for pid, d in registry.load_claims().items() if d.get("claim")}

ALL = [f"C{i:02d}" for i in range(1, 21)]


def main() -> None:
    checks = []
    for pid in ALL:
        if pid not in CLAIMS:
            continue
        c = CLAIMS[pid]
        checks.append({
            "property_id": pid,
            "quick_cmd": f"./check {pid} --tier quick",
            "thorough_cmd": f"./check {pid} --tier thorough",
            "evidence_file": f"evidence/{pid}.json",
            "replay_cmd_template": f"./check {pid} --replay {{path}}",
            "engine": "lean-model+harness",
            "level_claimed": {"category": "proof", "text": c["text"], "design_ref": c["design_ref"]},
            "level_note": c["note"],
            "technique": c["technique"],
        })
    m = {
        "version": 1,
        "setup_cmd": "./setup.sh",
        "hooks": {"guard": "RBACX_VERIF", "enable": "none needed: all observation is by subclassing/wrapping from the harness; no hook commits in /repo",
                  "baseline_off_cmd": "cd /repo && /venv/bin/python -m pytest -ra -q -p no:cacheprovider --timeout=900 --continue-on-collection-errors",
                  "source_commits": [], "add_only": True},
        "engines": [{"name": "lean-model+harness", "path": "lean/ , harness/", "serves_properties": sorted(CLAIMS),
                     "kind_free_text": "Lean 4 model + theorems (lake project, no Mathlib), compiled line-protocol driver, Python correspondence harness running the real rbacx in-process"}],
        "checks": checks,
        "notes": "See DESIGN.md. Every check: regenerate extracted facts from /repo, lake build, axiom audit, correspondence run, spec predicates on the implementation's output.",
        "not_applicable": [{"property_id": pid, "reason": "check not built yet in this session (planned, see DESIGN.md §5); not claimed"}
                           for pid in ALL if pid not in CLAIMS],
    }
    with open(os.path.join(VERIF, "MANIFEST.json"), "w") as f:
        json.dump(m, f, indent=1)
        f.write("\n")


if __name__ == "__main__":
    main()
