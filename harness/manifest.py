"""Regenerates /verif/MANIFEST.json from the table below (kept valid at all times)."""
from __future__ import annotations

import json
import os

VERIF = os.path.dirname(os.path.dirname(os.path.abspath(__file__)))

CLAIMS: dict[str, dict] = {
    "C02": {
        "text": "Lean theorems (induction over the rule list, any length/order/outcome pattern) that the modelled reference evaluator "
                "computes exactly the documented deny-overrides / permit-overrides / first-applicable result; the model is tied to "
                "rbacx.core.policy.evaluate and rbacx.core.policyset.decide on every run by an exhaustive small-scope + random differential "
                "run, and the independent combining spec is evaluated on the implementation's own output.",
        "design_ref": "DESIGN.md §5 C02",
        "note": "Trusted: Lean kernel; hand-written model validated differentially (not verified) against the code; harness generators. "
                "Set-level statement is checked by the spec predicate on every case; its Lean proof covers single policies (sets: see DESIGN).",
        "technique": "Lean 4 proof over a hand-written model + differential correspondence check",
    },
    "C19": {
        "text": "Lean theorems over a model of _set_by_path / apply_obligations / DecisionLogger.log, for every env (any nesting), path string, "
                "spec list, leaf predicate, configuration and draw: (i) reading a path back after the write yields the placeholder exactly when "
                "the final assignment is reached, and the no-op cases are characterised exactly (root not a dict, bracket content not an int() "
                "literal, index before the start of the list); (ii) no leak: every secret-carrying leaf of the redacted env was already outside "
                "the configured path; lifted to the whole spec list both at the state the path is applied in and - for paths of plain keys / "
                "non-negative indices - judged on the input env alone (two-path induction: no write moves a leaf out from under such a path), "
                "and writes never re-introduce a value; (iii) landed placeholders survive later disjoint writes; (iv) well-formed specs never "
                "raise, so the unredacted fall-back is unreachable; (v) priority explicit > opt-in defaults > none; (vi) rate<=0 drops, rate>=1 "
                "keeps every draw in [0,1), smart defaults always emit denies and permits with obligations; (vii) emitted in full iff the "
                "serialised UTF-8 size is within the bound, else the marker. Tied to the code on every run by exhaustive small-scope + random "
                "differential runs (message captured from the rbacx.audit logger in text and JSON mode, random.random injected) and by the Lean "
                "spec predicates evaluated on the implementation's emitted record, plus harness-side checks (caller's env deep-compared, raw "
                "secret search, log never raises).",
        "design_ref": "DESIGN.md §5 C19",
        "note": "All listed theorems are proved at full strength (no _partial). c19_caller_untouched is definitional in a pure model; its content is "
                "the harness's before/after deep comparison. Trusted: Lean kernel; hand-written model validated differentially (not verified) "
                "against the code; the jsonSize oracle (json.dumps + UTF-8 length computed by the harness); Python int() modelled on ASCII index "
                "strings only; envs are trees without shared sub-objects; placeholders are scalars; malformed spec lists (non-mapping spec, "
                "non-iterable fields) are outside the property's domain - the code then emits the unredacted env (notes/C19.md O1).",
        "technique": "Lean 4 proof over a hand-written model + differential correspondence check",
    },
}

ALL = [f"C{i:02d}" for i in range(1, 21)]


def main() -> None:
    checks = []
    for pid in ALL:
        if pid not in CLAIMS:
            continue
        c = CLAIMS[pid]
        checks.append({
            "property_id": pid,
            "quick_cmd": f"./check {pid} --tier quick",
            "thorough_cmd": f"./check {pid} --tier thorough",
            "evidence_file": f"evidence/{pid}.json",
            "replay_cmd_template": f"./check {pid} --replay {{path}}",
            "engine": "lean-model+harness",
            "level_claimed": {"category": "proof", "text": c["text"], "design_ref": c["design_ref"]},
            "level_note": c["note"],
            "technique": c["technique"],
        })
    m = {
        "version": 1,
        "setup_cmd": "./setup.sh",
        "hooks": {"guard": "RBACX_VERIF", "enable": "none needed: all observation is by subclassing/wrapping from the harness; no hook commits in /repo",
                  "baseline_off_cmd": "cd /repo && /venv/bin/python -m pytest -ra -q -p no:cacheprovider --timeout=900 --continue-on-collection-errors",
                  "source_commits": [], "add_only": True},
        "engines": [{"name": "lean-model+harness", "path": "lean/ , harness/", "serves_properties": sorted(CLAIMS),
                     "kind_free_text": "Lean 4 model + theorems (lake project, no Mathlib), compiled line-protocol driver, Python correspondence harness running the real rbacx in-process"}],
        "checks": checks,
        "notes": "See DESIGN.md. Every check: regenerate extracted facts from /repo, lake build, axiom audit, correspondence run, spec predicates on the implementation's output.",
        "not_applicable": [{"property_id": pid, "reason": "check not built yet in this session (planned, see DESIGN.md §5); not claimed"}
                           for pid in ALL if pid not in CLAIMS],
    }
    with open(os.path.join(VERIF, "MANIFEST.json"), "w") as f:
        json.dump(m, f, indent=1)
        f.write("\n")


if __name__ == "__main__":
    main()
