"""Regenerates /verif/MANIFEST.json from the table below (kept valid at all times)."""
from __future__ import annotations

import json
import os

VERIF = os.path.dirname(os.path.dirname(os.path.abspath(__file__)))

CLAIMS: dict[str, dict] = {
    "C02": {
        "text": "Lean theorems (induction over the rule list, any length/order/outcome pattern) that the modelled reference evaluator "
                "computes exactly the documented deny-overrides / permit-overrides / first-applicable result; the model is tied to "
                "rbacx.core.policy.evaluate and rbacx.core.policyset.decide on every run by an exhaustive small-scope + random differential "
                "run, and the independent combining spec is evaluated on the implementation's own output.",
        "design_ref": "DESIGN.md §5 C02",
        "note": "Trusted: Lean kernel; hand-written model validated differentially (not verified) against the code; harness generators. "
                "Set-level statement is checked by the spec predicate on every case; its Lean proof covers single policies (sets: see DESIGN).",
        "technique": "Lean 4 proof over a hand-written model + differential correspondence check",
    },
    "C16": {
        "text": "Lean theorems over a small file-system model: for every program of the stated shape (temp file in the target's directory, "
                "writes only to the temp handle, closed before the single replace(temp→target), unlink(temp) in finally) and every fault – "
                "a kill after any prefix (= every instant) or any step raising, partial writes/flushes included – the target is the complete "
                "old or the complete new file, no temp file survives an exception, no other file is touched (c16_all_or_nothing, "
                "c16_failure_leaves_no_temp, c16_success_writes_new); for every history of writes/touches/deletes/etag()/load() from every "
                "cache state: load() is the parse of the disk, unchanged file ⇒ equal tags, and under the property's own proviso (no content "
                "change that keeps size and mtime between consecutive tag observations) every tag is the hash of the content on disk (+mtime "
                "when configured), hence different for different content and, in mtime mode, for a touch (signature cache as invariant, sha "
                "injective as hypothesis). Tie on every run: the step list of the real atomic_write is traced (wrapping os/tempfile inside "
                "file_store) and a decide-obligation shows it has the shape; faults are injected at every traced step of the real function "
                "(exceptions incl. mid-write, os._exit in a fork, SIGKILL in a child interpreter), a reader runs between every two steps and "
                "in a concurrent thread; all histories up to a bound + random ones run on real files with exact mtimes, JSON and YAML.",
        "design_ref": "DESIGN.md §5 C16",
        "note": "cannot exhibit: power-loss durability (no fsync — outside the statement), kernel rename atomicity (trusted). Also trusted: "
                "mkstemp name freshness, sha256 injectivity (named hypothesis), the hand-written model (validated differentially, not verified), "
                "the tracer in harness/awtrace.py; etag()'s stat-then-hash race under a concurrent writer is outside the quantifier (sequential histories).",
        "technique": "Lean 4 proof over a hand-written model + traced program with shape obligation + fault injection / history correspondence check",
    },
}

ALL = [f"C{i:02d}" for i in range(1, 21)]


def main() -> None:
    checks = []
    for pid in ALL:
        if pid not in CLAIMS:
            continue
        c = CLAIMS[pid]
        checks.append({
            "property_id": pid,
            "quick_cmd": f"./check {pid} --tier quick",
            "thorough_cmd": f"./check {pid} --tier thorough",
            "evidence_file": f"evidence/{pid}.json",
            "replay_cmd_template": f"./check {pid} --replay {{path}}",
            "engine": "lean-model+harness",
            "level_claimed": {"category": "proof", "text": c["text"], "design_ref": c["design_ref"]},
            "level_note": c["note"],
            "technique": c["technique"],
        })
    m = {
        "version": 1,
        "setup_cmd": "./setup.sh",
        "hooks": {"guard": "RBACX_VERIF", "enable": "none needed: all observation is by subclassing/wrapping from the harness; no hook commits in /repo",
                  "baseline_off_cmd": "cd /repo && /venv/bin/python -m pytest -ra -q -p no:cacheprovider --timeout=900 --continue-on-collection-errors",
                  "source_commits": [], "add_only": True},
        "engines": [{"name": "lean-model+harness", "path": "lean/ , harness/", "serves_properties": sorted(CLAIMS),
                     "kind_free_text": "Lean 4 model + theorems (lake project, no Mathlib), compiled line-protocol driver, Python correspondence harness running the real rbacx in-process"}],
        "checks": checks,
        "notes": "See DESIGN.md. Every check: regenerate extracted facts from /repo, lake build, axiom audit, correspondence run, spec predicates on the implementation's output.",
        "not_applicable": [{"property_id": pid, "reason": "check not built yet in this session (planned, see DESIGN.md §5); not claimed"}
                           for pid in ALL if pid not in CLAIMS],
    }
    with open(os.path.join(VERIF, "MANIFEST.json"), "w") as f:
        json.dump(m, f, indent=1)
        f.write("\n")


if __name__ == "__main__":
    main()
