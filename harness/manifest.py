"""Regenerates /verif/MANIFEST.json from the table below (kept valid at all times)."""
from __future__ import annotations

import json
import os

VERIF = os.path.dirname(os.path.dirname(os.path.abspath(__file__)))

CLAIMS: dict[str, dict] = {
    "C02": {
        "text": "Lean theorems (induction over the rule list, any length/order/outcome pattern) that the modelled reference evaluator "
                "computes exactly the documented deny-overrides / permit-overrides / first-applicable result; the model is tied to "
                "rbacx.core.policy.evaluate and rbacx.core.policyset.decide on every run by an exhaustive small-scope + random differential "
                "run, and the independent combining spec is evaluated on the implementation's own output.",
        "design_ref": "DESIGN.md §5 C02",
        "note": "Trusted: Lean kernel; hand-written model validated differentially (not verified) against the code; harness generators. "
                "Set-level statement is checked by the spec predicate on every case; its Lean proof covers single policies (sets: see DESIGN).",
        "technique": "Lean 4 proof over a hand-written model + differential correspondence check",
    },
    "C12": {
        "text": "Lean theorems about an executable model of LocalRelationshipChecker (FIFO queue, seen set, visit counter, depth cut, "
                "adversarial clock oracle, caveat registry unregistered/raises/true/false; BFS termination by a checked lexicographic "
                "measure, no fuel) for every tuple store, rewrite-rule map, query, max_depth/max_nodes (any Python int) and clock behaviour: "
                "soundness (answer true => derivable within max_depth from satisfied tuples, whatever the limits: c12_sound), completeness "
                "(a run cut by neither max_nodes nor the deadline answers true for everything derivable within max_depth - full BFS "
                "minimal-depth argument: c12_complete, c12_exact), limits fail closed and can only lose answers (c12_limits_fail_closed, "
                "c12_limits_only_lose), unknown/raising/false caveats are inert (c12_bad_caveats_inert), batch_check = map check "
                "(c12_batch_eq_map, c12_batch_each), and the executable derivability spec the driver uses decides the inductive "
                "Derivable (c12_spec_decides, c12_model_meets_spec).  The model is tied to rbacx/rebac/local.py on every run by an "
                "exhaustive small-scope + random differential run with an injected clock; the spec predicate is evaluated in Lean on the "
                "implementation's own answers (true => derivable; no limit hit => answer = derivable; batch = individual checks; every "
                "call returns a bool and terminates).",
        "design_ref": "DESIGN.md §5 C12",
        "note": "Nothing partial in the Lean part: all listed theorems are proved without sorry, axioms within {propext, Classical.choice, "
                "Quot.sound}.  Trusted: Lean kernel; the hand-written model and the reading of Python semantics in it, validated "
                "differentially (not verified) against the code; the harness generators and the clock injection (module attribute / "
                "import-time binding of time.perf_counter_ns).  Assumed: caveat predicates are pure functions of the context; ids, relations "
                "and caveat names are str; limits are int.  'No limit hit' is judged by the model's run.  Termination of the Python loop "
                "itself is covered by the model's well-founded recursion plus a hang guard in the differential run, not by a proof about "
                "CPython.  A clock-independent sufficient condition for 'no node limit hit' (max_nodes >= number of distinct reachable nodes) "
                "is not stated as a theorem.",
        "technique": "Lean 4 proof over a hand-written model + differential correspondence check",
    },
}

ALL = [f"C{i:02d}" for i in range(1, 21)]


def main() -> None:
    checks = []
    for pid in ALL:
        if pid not in CLAIMS:
            continue
        c = CLAIMS[pid]
        checks.append({
            "property_id": pid,
            "quick_cmd": f"./check {pid} --tier quick",
            "thorough_cmd": f"./check {pid} --tier thorough",
            "evidence_file": f"evidence/{pid}.json",
            "replay_cmd_template": f"./check {pid} --replay {{path}}",
            "engine": "lean-model+harness",
            "level_claimed": {"category": "proof", "text": c["text"], "design_ref": c["design_ref"]},
            "level_note": c["note"],
            "technique": c["technique"],
        })
    m = {
        "version": 1,
        "setup_cmd": "./setup.sh",
        "hooks": {"guard": "RBACX_VERIF", "enable": "none needed: all observation is by subclassing/wrapping from the harness; no hook commits in /repo",
                  "baseline_off_cmd": "cd /repo && /venv/bin/python -m pytest -ra -q -p no:cacheprovider --timeout=900 --continue-on-collection-errors",
                  "source_commits": [], "add_only": True},
        "engines": [{"name": "lean-model+harness", "path": "lean/ , harness/", "serves_properties": sorted(CLAIMS),
                     "kind_free_text": "Lean 4 model + theorems (lake project, no Mathlib), compiled line-protocol driver, Python correspondence harness running the real rbacx in-process"}],
        "checks": checks,
        "notes": "See DESIGN.md. Every check: regenerate extracted facts from /repo, lake build, axiom audit, correspondence run, spec predicates on the implementation's output.",
        "not_applicable": [{"property_id": pid, "reason": "check not built yet in this session (planned, see DESIGN.md §5); not claimed"}
                           for pid in ALL if pid not in CLAIMS],
    }
    with open(os.path.join(VERIF, "MANIFEST.json"), "w") as f:
        json.dump(m, f, indent=1)
        f.write("\n")


if __name__ == "__main__":
    main()
