"""Regenerates /verif/MANIFEST.json from the table below (kept valid at all times)."""
from __future__ import annotations

import json
import os

VERIF = os.path.dirname(os.path.dirname(os.path.abspath(__file__)))

CLAIMS: dict[str, dict] = {
    "C02": {
        "text": "Lean theorems (induction over the rule list, any length/order/outcome pattern) that the modelled reference evaluator "
                "computes exactly the documented deny-overrides / permit-overrides / first-applicable result; the model is tied to "
                "rbacx.core.policy.evaluate and rbacx.core.policyset.decide on every run by an exhaustive small-scope + random differential "
                "run, and the independent combining spec is evaluated on the implementation's own output.",
        "design_ref": "DESIGN.md §5 C02",
        "note": "Trusted: Lean kernel; hand-written model validated differentially (not verified) against the code; harness generators. "
                "Set-level statement is checked by the spec predicate on every case; its Lean proof covers single policies (sets: see DESIGN).",
        "technique": "Lean 4 proof over a hand-written model + differential correspondence check",
    },
    "C18": {
        "text": "Lean theorems about a model of StaticRoleResolver.expand written as the code is (worklist popped from the end, visited set, "
                "sorted): membership in the result is exactly reachability along configured inheritance edges from a given role (both directions, "
                "by loop invariants, any graph incl. cycles/self-loops/non-key parents/duplicates, any role list), the result is strictly increasing "
                "in code-point order hence duplicate-free, empty/None give [], termination is by well-founded recursion (no fuel); for the engine "
                "model: the resolver's answer is the env's subject.roles seen by conditions and carried by the audit record, the subject's own roles "
                "when the resolver fails, and the whole result equals that of a resolver-less engine given the expanded roles. Tied to the code on "
                "every run: exhaustive graphs over <=3 (quick) / <=4 (thorough) roles x all role lists of length <=3, random graphs <=12 nodes, "
                "non-ASCII sort-order corpus against the real resolver, and the real Guard with sync/async/raising resolvers; an independent "
                "closure verdict (proved sound and complete in Lean) is evaluated on the implementation's own output.",
        "design_ref": "DESIGN.md §5 C18",
        "note": "Trusted: Lean kernel; hand-written models (Model/Roles.lean, Model/Engine.lean) validated differentially (not verified) against "
                "the code; harness generators; Python's str ordering = code-point order (checked by the corpus). Domain: role names are str of "
                "Unicode scalar values; subject.roles is a list or None.",
        "technique": "Lean 4 proof over a hand-written model + differential correspondence check",
    },
}

ALL = [f"C{i:02d}" for i in range(1, 21)]


def main() -> None:
    checks = []
    for pid in ALL:
        if pid not in CLAIMS:
            continue
        c = CLAIMS[pid]
        checks.append({
            "property_id": pid,
            "quick_cmd": f"./check {pid} --tier quick",
            "thorough_cmd": f"./check {pid} --tier thorough",
            "evidence_file": f"evidence/{pid}.json",
            "replay_cmd_template": f"./check {pid} --replay {{path}}",
            "engine": "lean-model+harness",
            "level_claimed": {"category": "proof", "text": c["text"], "design_ref": c["design_ref"]},
            "level_note": c["note"],
            "technique": c["technique"],
        })
    m = {
        "version": 1,
        "setup_cmd": "./setup.sh",
        "hooks": {"guard": "RBACX_VERIF", "enable": "none needed: all observation is by subclassing/wrapping from the harness; no hook commits in /repo",
                  "baseline_off_cmd": "cd /repo && /venv/bin/python -m pytest -ra -q -p no:cacheprovider --timeout=900 --continue-on-collection-errors",
                  "source_commits": [], "add_only": True},
        "engines": [{"name": "lean-model+harness", "path": "lean/ , harness/", "serves_properties": sorted(CLAIMS),
                     "kind_free_text": "Lean 4 model + theorems (lake project, no Mathlib), compiled line-protocol driver, Python correspondence harness running the real rbacx in-process"}],
        "checks": checks,
        "notes": "See DESIGN.md. Every check: regenerate extracted facts from /repo, lake build, axiom audit, correspondence run, spec predicates on the implementation's output.",
        "not_applicable": [{"property_id": pid, "reason": "check not built yet in this session (planned, see DESIGN.md §5); not claimed"}
                           for pid in ALL if pid not in CLAIMS],
    }
    with open(os.path.join(VERIF, "MANIFEST.json"), "w") as f:
        json.dump(m, f, indent=1)
        f.write("\n")


if __name__ == "__main__":
    main()
