"""C01 — deny by default.

Tie: the real `Guard` (sync / async / sync-inside-a-loop; sync and async collaborators) against the
model's `guardEval` on (allowed, effect); the statement itself (`Rbacx.Spec.c01`: allowed ⇔ permit,
allowed ⇒ an applicable non-deny rule with exactly the returned obligations, all met per the built-in
checker; nothing applicable ⇒ deny) is evaluated by the Lean driver on the implementation's Decision.

Tie by regeneration: the statements of `Guard._evaluate_core_async` that build the env and that turn the raw decision into the returned
`Decision` are translated from the current source text (harness/pytolean_async.py, plugin extractors/src_translation_engine.py; the
awaited collaborator calls are outcome parameters), proved equal to the model's `buildEnv` / `finishDecision` by the per-run obligation
`Run/C01_translated.lean`, and the translation is evaluated against the same statements run by CPython (`translated_vs_python`)."""
from __future__ import annotations

import itertools
import json
import random

import guardcases as gc
import lib

FLAVOURS = ["sync", "async", "sync-in-loop", "sync-collab-async", "async-collab-async", "sync-collab-awaitable", "async-collab-awaitable"]


def deep_condition_probes(run: lib.Run) -> None:
    """conditions nested far deeper than the interpreter's call stack allows (the schema is recursive and accepts them; its validator,
    the wire format of the model and the evaluator all run out of stack, so these are judged on the real engine only): raising is
    outside the statement, but a PERMIT needs an applicable rule at any depth — a false or ill-typed leaf never permits"""
    import real
    req = gc.REQUESTS[0]
    for depth in (150, 700, 1500):
        for leaf, truth in (({"==": [1, 2]}, False), ({"<": ["a", 1]}, None), ({"==": [1, 1]}, True)):
            for op in ("and", "or", "not"):
                c = leaf
                for _ in range(depth if op != "not" else depth * 2):        # an even number of `not`s: the leaf's value
                    c = {op: [c]} if op != "not" else {"not": c}
                pol = {"algorithm": "deny-overrides", "rules": [{"id": "deep", "effect": "permit", "actions": ["read"], "resource": {"type": "doc"},
                                                                  "condition": c}]}
                out = real.run_guard(pol, req, {"strict": False})
                run.evaluations += 1
                run.count("deep-condition:" + ("raised" if "raised" in out else out["ok"]["effect"]))
                if "ok" in out and out["ok"]["allowed"] and truth is not True:
                    run.spec_failures.append({"policy": {"rules": f"one permit rule whose condition is {leaf} under {depth} nested {op}"}, "request": req,
                                              "cfg": {"strict": False}, "impl": out, "model": None,
                                              "spec": "permit although the only rule's condition is false / ill-typed (deeply nested condition)"})


# ---------------------------------------------------------------------- the translated decision core vs the same statements run by CPython
ABSENT = "<absent>"
G_DECISIONS = ["permit", "deny", "Permit", None, 5]
G_REASONS = ["matched", "explicit_deny", "no_match", None]
G_IDS = [None, "r", ""]
G_POLICY_IDS = [ABSENT, None, "p"]
G_OBLIGATIONS = [ABSENT, None, [], [{"type": "require_mfa"}], "x"]
G_CHALLENGES = [ABSENT, None, "c"]
# what the awaited checker call did: returned a value (any value: the unpacking `ok, ch = …` is part of the range) or raised
G_OUTCOMES = [("ok", (True, None)), ("ok", (False, None)), ("ok", (False, "mfa")), ("ok", (True, "c")), ("ok", (0, None)), ("ok", ("yes", None)),
              ("ok", (None, None)), ("raised",), ("ok", (True, None, 1)), ("ok", 5), ("ok", None), ("ok", "ab"), ("ok", {"a": 1, "b": 2}),
              ("ok", [False, "x"]), ("ok", ()), ("ok", "abc")]
G_ROLES = [None, [], ["a"], ["b", "a", "a"], "ab", ""]
G_ATTRS = [None, {}, {"k": 1}]
G_RESOLVER = [(None, ("raised",)), ("<resolver>", ("ok", ["x", "y"])), ("<resolver>", ("ok", [])), ("<resolver>", ("ok", None)),
              ("<resolver>", ("ok", "junk")), ("<resolver>", ("raised",))]


def _raw(dec, reason, rid, lrid, pid, obls, ch):
    d = {"decision": dec, "reason": reason, "rule_id": rid, "last_rule_id": lrid}
    for k, v in (("policy_id", pid), ("obligations", obls), ("challenge", ch)):
        if v != ABSENT:
            d[k] = v
    return d


def gate_grid(run: lib.Run, n_random: int, full: bool):
    """(raw, checker outcome): the fields the gate itself looks at exhaustively against every outcome, the fields it copies against a
    few, then a seeded sample of (thorough: all of) the full product"""
    if full:
        for t in itertools.product(G_DECISIONS, G_REASONS, G_IDS, G_IDS, G_POLICY_IDS, G_OBLIGATIONS, G_CHALLENGES, G_OUTCOMES):
            yield _raw(*t[:7]), t[7]
        return
    for dec, reason, obls, ch, out in itertools.product(G_DECISIONS, G_REASONS, G_OBLIGATIONS, G_CHALLENGES, G_OUTCOMES):
        yield _raw(dec, reason, "r", None, ABSENT, obls, ch), out
    for dec, rid, lrid, pid, out in itertools.product(G_DECISIONS, G_IDS, G_IDS, G_POLICY_IDS, G_OUTCOMES[:4] + G_OUTCOMES[7:9]):
        yield _raw(dec, "matched", rid, lrid, pid, [], ABSENT), out
    r = random.Random(run.seed * 263 + 5)
    for _ in range(n_random):
        yield (_raw(*(r.choice(g) for g in (G_DECISIONS, G_REASONS, G_IDS, G_IDS, G_POLICY_IDS, G_OBLIGATIONS, G_CHALLENGES))), r.choice(G_OUTCOMES))


def env_grid(run: lib.Run, n_random: int):
    """(subject fields, action name, resource fields, context attrs | ABSENT = no Context, self.role_resolver, resolver outcome, strict)"""
    subjects = list(itertools.product(["u", None, 7], G_ROLES, G_ATTRS))
    resources = list(itertools.product(["doc", None], [None, "1", 7], G_ATTRS + [{"level": 1.5}]))
    contexts = [ABSENT, None, {}, {"mfa": True}]
    for sub, (rr, out), strict in itertools.product(subjects, G_RESOLVER, (False, True)):
        yield sub, "read", ("doc", "1", {}), {}, rr, out, strict
    for res, act, ctx, strict in itertools.product(resources, ["read", None], contexts, (False, True)):
        yield ("u", ["a"], {}), act, res, ctx, None, ("raised",), strict
    r = random.Random(run.seed * 269 + 7)
    for _ in range(n_random):
        rr, out = r.choice(G_RESOLVER)
        yield r.choice(subjects), r.choice(["read", None]), r.choice(resources), r.choice(contexts), rr, out, r.choice((False, True))


def translated_vs_python(run: lib.Run, facts: dict) -> tuple[bool, str]:
    """each translated range of `Guard._evaluate_core_async` (Generated.Src.engine_env / engine_gate, evaluated by `lake env lean --run
    Rbacx/Run/SrcEvalEngine.lean`) against the SAME statements of the current source text, compiled as a real `async def` and driven by
    CPython (pytolean_async.range_as_python): the awaited collaborator call is answered by a stub that returns the outcome's value or
    raises — alternately a plain method and an `async def`, so that `maybe_await` takes both of its paths — and `maybe_await`, the
    try/except, the tuple unpacking and the `Decision` constructor are CPython's own.  Validates the readings the obligation
    C01_translated trusts (outcomes as inputs, try/except as a case split, the unpacking as part of the raising point, dataclasses as
    records) and Model/PyLib.lean."""
    import copy
    import dataclasses
    import subprocess

    import proto
    import pytolean_async as pa
    import real
    import rbacx.core.engine as reng
    from extractors import src_translation_engine as plug
    from rbacx.core.model import Action, Context, Resource, Subject
    src, cfg = plug.config(real.REPO)
    quick = run.tier == "quick"
    runners = {}
    for lean_name, start, last in plug.RANGES:
        try:
            pyf, inputs, _outs, exts = pa.range_as_python(src, plug.METHOD, start, last, cfg, vars(reng))
        except pa.Unsupported as e:
            return False, f"range {lean_name}: {e}"
        if inputs != facts[lean_name]["inputs"] or exts != [x for x, _, _ in facts[lean_name]["externals"]]:
            return False, f"range {lean_name}: inputs of the imported module {inputs} differ from the extracted ones {facts[lean_name]['inputs']}"
        runners[lean_name] = (pyf, inputs, {x: p for x, p, _ in facts[lean_name]["externals"]})
    fields = facts["decision_fields"]

    def rec(obj):
        return None if obj is None else {f.name: getattr(obj, f.name) for f in dataclasses.fields(obj)}
    calls = []          # (range, wire args, wire outcomes, wanted)

    def add(lean_name, values: dict, outcomes: dict, wire: dict, i: int, post=lambda x: x):
        pyf, inputs, params = runners[lean_name]
        try:
            want = ("ok", proto.enc(post(pyf(copy.deepcopy(values), outcomes, use_async=bool(i % 2)))))
        except Exception as e:  # noqa: BLE001
            want = ("raised", type(e).__name__)
        ext = {params[x]: ({"ok": proto.enc(o[1])} if o[0] == "ok" else {"raised": True}) for x, o in outcomes.items()}
        calls.append((lean_name, [wire[v] for v in inputs], ext, want))
    for i, (raw, out) in enumerate(gate_grid(run, 3000 * run.boost, not quick)):
        add("engine_gate", {"raw": raw, "context": None}, {"self.obligations.check": out}, {"raw": raw, "context": None}, i,
            post=lambda d: {f: getattr(d, f) for f in fields})
    for i, (sub, act, res, ctx, rr, out, strict) in enumerate(env_grid(run, (1500 if quick else 15000) * run.boost)):
        objs = {"subject": Subject(id=sub[0], roles=sub[1], attrs=sub[2]), "action": Action(name=act),
                "resource": Resource(type=res[0], id=res[1], attrs=res[2]), "context": None if ctx == ABSENT else Context(attrs=ctx)}
        values = {**objs, "self.role_resolver": rr, "self.strict_types": strict}
        wire = {**{k: rec(v) for k, v in objs.items()}, "self.role_resolver": rr, "self.strict_types": strict}
        add("engine_env", values, {"self.role_resolver.expand": out}, wire, i)
    # what the sinks are handed: the `labels = …` / `payload = …` statements on Decision objects of every shape
    for i, t in enumerate(itertools.product((True, False), ("permit", "deny"), ([], [{"type": "require_mfa"}]), (None, "mfa"), (None, "r"),
                                            (None, "p"), ("matched", "obligation_failed", None))):
        d = reng.Decision(**dict(zip(fields, t)))
        add("engine_metric_labels", {"d": d}, {}, {"d": rec(d)}, i)
        for env in ({}, {"subject": {"id": "u", "roles": ["a"], "attrs": {}}, "action": "read", "__strict_types__": True}):
            add("engine_audit_payload", {"env": env, "d": d}, {}, {"env": env, "d": rec(d)}, i)
    lines =[json.dumps({"fn": fn, "args": [proto.enc(a) for a in args], "oracle": proto.build_oracle(*args), "ext": ext}) for fn, args, ext, _ in calls]
    p = subprocess.run(["lake", "env", "lean", "--run", "Rbacx/Run/SrcEvalEngine.lean"], cwd=lib.LEAN, input="\n".join(lines) + "\n",
                       capture_output=True, text=True, timeout=1800)
    outs = [ln for ln in p.stdout.split("\n") if ln]
    if p.returncode != 0 or len(outs) != len(lines):
        return False, "SrcEvalEngine: " + (p.stderr or p.stdout)[-800:]
    bad = 0
    for (fn, args, ext, want), ln in zip(calls, outs):
        got = json.loads(ln)
        run.count("translated-engine")
        if want[0] != "ok":
            run.count(f"translated-engine: {fn}: python raised {want[1]} (not judged)")
            continue          # CPython raised (an argument outside the range's domain, e.g. attrs that dict() rejects): not judged
        run.count(f"translated-engine: {fn}")
        if got.get("value") != want[1]:
            bad += 1
            if bad == 1:
                run.disagreements.append({"part": "translated source vs python", "range": fn, "args": args, "outcomes": ext,
                                          "impl": {"python": want[1]}, "model": got,
                                          "what": f"the translated range {fn} (Generated.Src) and the same statements run by CPython differ"})
    run.evaluations += len(calls)
    return bad == 0, f"{bad} of {len(calls)} evaluations differ" if bad else f"agree on {len(calls)} evaluations"


def translated_obligation(run: lib.Run, audit: dict, differential: bool = True) -> tuple[bool, bool, str, dict | None]:
    """run and register the per-run obligation C01_translated (and, with `differential`, the comparison with CPython); returns
    (obligation discharged, comparison ok, Lean's message or the comparison's, the extracted translation)"""
    tr = audit["facts"].get("translated_engine")
    untranslatable = isinstance(tr, dict) and "extraction_failed" in tr
    ok_tr, detail_tr = lib.run_obligation("C01_translated")
    run.obligation("C01_translated: Generated.Src.{engine_env,engine_gate} (the current source text of Guard._evaluate_core_async: env "
                   "construction, obligation gate and Decision; the awaited role resolver / obligation checker calls as outcome parameters) = "
                   "the model's buildEnv / the Decision of finishDecision, for every raw decision, checker outcome, engine configuration and request",
                   ok_tr, "discharged" if ok_tr else (str(tr["extraction_failed"]) if untranslatable else detail_tr))
    if not differential:
        return ok_tr, True, detail_tr, tr
    if untranslatable or not isinstance(tr, dict):
        ok_py, detail_py = True, "skipped: the decision core is not in the translatable subset (see C01_translated)"
    else:
        ok_py, detail_py = translated_vs_python(run, tr)
    run.obligation("translated decision core evaluates like the same statements run by CPython (pytolean_async + Model/PyLib.lean + "
                   "Model/PyAwait.lean vs CPython: awaited outcomes, try/except, unpacking, dataclass records)", ok_py, detail_py)
    return ok_tr, ok_py, (detail_tr if not ok_tr else detail_py), tr


def run_cases(run: lib.Run, audit: dict, scale: int = 1):
    quick = run.tier == "quick"
    consts = audit["facts"]["consts"]
    cases = list(gc.enum_cases(quick))
    n_enum = len(cases)
    cases += list(gc.random_cases(run.seed * 31337 + 1, (2500 if quick else 25000) * scale, hostile=0.15, rel=0.25, nested=0.3))
    res = gc.run_batch(cases, consts, flavour_of=lambda i: "sync" if i < n_enum else FLAVOURS[i % len(FLAVOURS)])
    for i, (pol, req, cfg, out, model, extra) in enumerate(res):
        if out.get("raised") == "RecursionError":
            run.count("outside-domain:interpreter stack exhausted")
            continue
        run.count(gc.outcome_class(out))
        nontrivial = "ok" in out and out["ok"]["reason"] in ("matched", "explicit_deny", "obligation_failed")
        run.case([pol, req, cfg], nontrivial, {"policy": pol, "request": req, "cfg": cfg, "impl": out} if i >= n_enum else None)
        proj = (lambda o: ("raised",) if "raised" in o else (o["ok"]["allowed"], o["ok"]["effect"]))
        case = {"policy": pol, "request": req, "cfg": cfg, "impl": out, "model": model}
        if proj(out) != proj(model):
            run.disagreements.append(case)
        if extra.get("spec_c01") is False:
            run.spec_failures.append({**case, "spec": "Rbacx.Spec.c01 is false on the implementation's decision"})


def check(run: lib.Run, audit: dict) -> int:
    run.rule = ("exhaustive: every policy of ≤2 (quick, pairs subsampled 1/3) / ≤3 (thorough) rules from an 11-template pool × {3 algorithms, none} × "
                "6 requests × lax/strict, sets of ≤2 children; random: schema-grammar policies, (nested) sets, rel conditions, hostile values, "
                "with random checker (built-in / custom verdict / raising), role resolver, relationship checker, sinks, over 5 API flavours; "
                "the translated source of the engine's decision core vs the same statements run by CPython: 5 decisions × 4 reasons × 5 obligations "
                "shapes × 3 challenge shapes × 16 checker outcomes (verdict pairs, raised, values that do not unpack), 9 rule-id pairs × 3 policy ids, "
                "a seeded sample (quick) / all (thorough) of the full product; 54 subjects × 6 resolver outcomes, 24 resources × 4 contexts, lax/strict. "
                "non-trivial = a rule decided (reason matched / explicit_deny / obligation_failed)")
    run.exhaustive = True
    run.assumptions = ["rules are JSON objects; effect/algorithm strings; roles a list or null; attrs/context objects or null (DESIGN §5 C06)",
                       "oracles: str()/float()/datetime parsing"]
    if not audit["ok"]:
        raise lib.CheckError(f"Lean build/audit failed at {audit['stage']}: {audit.get('log') or audit.get('forbidden') or audit.get('bad_axioms')}")
    # the decision core as it is written NOW, translated into Lean, is proved equal to the model's (per-run obligation)
    ok_tr, ok_py, detail, tr = translated_obligation(run, audit)
    # … and the decision dispatch `_decide_async` (compiled function, fallback to the interpreters, exceptions propagate) is proved to be
    # the model's `guardDecide` when `self.policy` is one value (the comparison with CPython is C09's)
    from props import c09
    ok_dec, _, detail_dec = c09.decide_obligation(run, audit, differential=False)
    run_cases(run, audit, scale=run.boost * (1 if ok_tr and ok_dec else 2))
    deep_condition_probes(run)
    violations = []
    if (run.disagreements or not ok_tr or not ok_dec) and not run.spec_failures:
        run_cases(run, audit, scale=4)
    if run.spec_failures:
        path = run.write_replay("spec", {"what": "the implementation's decision contradicts C01 (Rbacx.Spec.c01)", "case": run.spec_failures[0],
                                         "count": len(run.spec_failures)})
        violations.append((path, True))
    elif not ok_tr:
        path = run.write_replay("obligation", {"what": "per-run obligation Rbacx/Run/C01_translated.lean no longer checks: the translated source of the "
                                               "engine's decision core (Guard._evaluate_core_async: env construction, obligation gate, Decision) is "
                                               "not proved equal to the model's buildEnv / finishDecision, the functions theorems Rbacx.C01.* / "
                                               "C07.c07_guard_* are about; the widened search found no policy and request on which the decision "
                                               "contradicts C01",
                                               "translation": tr, "lean": detail[-1500:], "first_disagreement": run.disagreements[:1]})
        violations.append((path, False))
    elif not ok_dec:
        path = run.write_replay("obligation", {"what": "per-run obligation Rbacx/Run/C09_decide_translated.lean no longer checks: the translated source of "
                                               "Guard._decide_async is not proved to be the model's guardDecide (the compiled function's answer; if it is "
                                               "absent or raises, the set / single-policy interpreter chosen by `\"policies\" in policy`; an interpreter's "
                                               "exception propagates), the function theorems Rbacx.C01.* are about; the widened search found no policy and "
                                               "request on which the decision contradicts C01",
                                               "lean": detail_dec[-1500:], "first_disagreement": run.disagreements[:1]})
        violations.append((path, False))
    elif not ok_py or any(d.get("part") == "translated source vs python" for d in run.disagreements):
        first = next((d for d in run.disagreements if d.get("part") == "translated source vs python"),
                     {"part": "translated source vs python", "what": detail})
        path = run.write_replay("correspondence", {"what": "translated source vs python: " + str(first.get("what")) + "; the obligation "
                                                   "C01_translated rests on a translation that CPython contradicts (or that could not be evaluated)",
                                                   "first": first, "count": len(run.disagreements)})
        violations.append((path, False))
    elif run.disagreements:
        path = run.write_replay("correspondence", {"what": "model Rbacx.guardEval and Guard disagree on (allowed, effect); theorems Rbacx.C01.* no longer "
                                                   "speak about this code", "first": run.disagreements[0], "count": len(run.disagreements)})
        violations.append((path, False))
    return run.finish(audit, violations)


def replay(run: lib.Run, audit: dict, path: str) -> int:
    import json

    import real
    rp = json.load(open(path))
    c = rp.get("case") or rp.get("first")
    if not c or "policy" not in c:
        print("nothing to re-run on the implementation:", rp.get("what"))
        print("recorded:", c or rp.get("first_disagreement") or rp.get("lean"))
        return 0
    print("impl now:", real.run_guard(c["policy"], c["request"], c["cfg"]))
    print("recorded:", c["impl"], "model:", c["model"])
    return 0
