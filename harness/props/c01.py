"""C01 — deny by default.

Tie: the real `Guard` (sync / async / sync-inside-a-loop; sync and async collaborators) against the
model's `guardEval` on (allowed, effect); the statement itself (`Rbacx.Spec.c01`: allowed ⇔ permit,
allowed ⇒ an applicable non-deny rule with exactly the returned obligations, all met per the built-in
checker; nothing applicable ⇒ deny) is evaluated by the Lean driver on the implementation's Decision."""
from __future__ import annotations

import guardcases as gc
import lib

FLAVOURS = ["sync", "async", "sync-in-loop", "sync-collab-async", "async-collab-async", "sync-collab-awaitable", "async-collab-awaitable"]


def deep_condition_probes(run: lib.Run) -> None:
    """conditions nested far deeper than the interpreter's call stack allows (the schema is recursive and accepts them; its validator,
    the wire format of the model and the evaluator all run out of stack, so these are judged on the real engine only): raising is
    outside the statement, but a PERMIT needs an applicable rule at any depth — a false or ill-typed leaf never permits"""
    import real
    req = gc.REQUESTS[0]
    for depth in (150, 700, 1500):
        for leaf, truth in (({"==": [1, 2]}, False), ({"<": ["a", 1]}, None), ({"==": [1, 1]}, True)):
            for op in ("and", "or", "not"):
                c = leaf
                for _ in range(depth if op != "not" else depth * 2):        # an even number of `not`s: the leaf's value
                    c = {op: [c]} if op != "not" else {"not": c}
                pol = {"algorithm": "deny-overrides", "rules": [{"id": "deep", "effect": "permit", "actions": ["read"], "resource": {"type": "doc"},
                                                                  "condition": c}]}
                out = real.run_guard(pol, req, {"strict": False})
                run.evaluations += 1
                run.count("deep-condition:" + ("raised" if "raised" in out else out["ok"]["effect"]))
                if "ok" in out and out["ok"]["allowed"] and truth is not True:
                    run.spec_failures.append({"policy": {"rules": f"one permit rule whose condition is {leaf} under {depth} nested {op}"}, "request": req,
                                              "cfg": {"strict": False}, "impl": out, "model": None,
                                              "spec": "permit although the only rule's condition is false / ill-typed (deeply nested condition)"})


def run_cases(run: lib.Run, audit: dict, scale: int = 1):
    quick = run.tier == "quick"
    consts = audit["facts"]["consts"]
    cases = list(gc.enum_cases(quick))
    n_enum = len(cases)
    cases += list(gc.random_cases(run.seed * 31337 + 1, (2500 if quick else 25000) * scale, hostile=0.15, rel=0.25, nested=0.3))
    res = gc.run_batch(cases, consts, flavour_of=lambda i: "sync" if i < n_enum else FLAVOURS[i % len(FLAVOURS)])
    for i, (pol, req, cfg, out, model, extra) in enumerate(res):
        if out.get("raised") == "RecursionError":
            run.count("outside-domain:interpreter stack exhausted")
            continue
        run.count(gc.outcome_class(out))
        nontrivial = "ok" in out and out["ok"]["reason"] in ("matched", "explicit_deny", "obligation_failed")
        run.case([pol, req, cfg], nontrivial, {"policy": pol, "request": req, "cfg": cfg, "impl": out} if i >= n_enum else None)
        proj = (lambda o: ("raised",) if "raised" in o else (o["ok"]["allowed"], o["ok"]["effect"]))
        case = {"policy": pol, "request": req, "cfg": cfg, "impl": out, "model": model}
        if proj(out) != proj(model):
            run.disagreements.append(case)
        if extra.get("spec_c01") is False:
            run.spec_failures.append({**case, "spec": "Rbacx.Spec.c01 is false on the implementation's decision"})


def check(run: lib.Run, audit: dict) -> int:
    run.rule = ("exhaustive: every policy of ≤2 (quick, pairs subsampled 1/3) / ≤3 (thorough) rules from an 11-template pool × {3 algorithms, none} × "
                "6 requests × lax/strict, sets of ≤2 children; random: schema-grammar policies, (nested) sets, rel conditions, hostile values, "
                "with random checker (built-in / custom verdict / raising), role resolver, relationship checker, sinks, over 5 API flavours. "
                "non-trivial = a rule decided (reason matched / explicit_deny / obligation_failed)")
    run.exhaustive = True
    run.assumptions = ["rules are JSON objects; effect/algorithm strings; roles a list or null; attrs/context objects or null (DESIGN §5 C06)",
                       "oracles: str()/float()/datetime parsing"]
    if not audit["ok"]:
        raise lib.CheckError(f"Lean build/audit failed at {audit['stage']}: {audit.get('log') or audit.get('forbidden') or audit.get('bad_axioms')}")
    run_cases(run, audit, scale=run.boost)
    deep_condition_probes(run)
    violations = []
    if run.disagreements and not run.spec_failures:
        run_cases(run, audit, scale=4)
    if run.spec_failures:
        path = run.write_replay("spec", {"what": "the implementation's decision contradicts C01 (Rbacx.Spec.c01)", "case": run.spec_failures[0],
                                         "count": len(run.spec_failures)})
        violations.append((path, True))
    elif run.disagreements:
        path = run.write_replay("correspondence", {"what": "model Rbacx.guardEval and Guard disagree on (allowed, effect); theorems Rbacx.C01.* no longer "
                                                   "speak about this code", "first": run.disagreements[0], "count": len(run.disagreements)})
        violations.append((path, False))
    return run.finish(audit, violations)


def replay(run: lib.Run, audit: dict, path: str) -> int:
    import json

    import real
    rp = json.load(open(path))
    c = rp.get("case") or rp.get("first")
    print("impl now:", real.run_guard(c["policy"], c["request"], c["cfg"]))
    print("recorded:", c["impl"], "model:", c["model"])
    return 0
