"""C02 — combining algorithms (reference evaluator and policy sets).

Tie: `rbacx.core.policy.evaluate` / `rbacx.core.policyset.decide` against the model's
`evaluate` / `decideTree` on (decision, policy_id), and the independent combining spec
(`Rbacx.Spec.tree`) evaluated by the Lean driver on the implementation's output."""
from __future__ import annotations

import itertools
import random

import gen
import lib
import proto
import real  # noqa: F401  (sets sys.path to /repo/src)
from rbacx.core import policy as rpolicy
from rbacx.core import policyset as rset

ENV = {"subject": {"id": "u", "roles": [], "attrs": {}}, "action": "read",
       "resource": {"type": "doc", "id": "1", "attrs": {}}, "context": {}}

CLASSES = ["permit", "deny", "action", "resource", "cfalse", "ctype"]


def template(cls: str, i: int) -> dict:
    r = {"id": f"r{i}", "effect": "permit", "actions": ["read"], "resource": {"type": "doc"}}
    if cls == "deny":
        r["effect"] = "deny"
    elif cls == "action":
        r["actions"] = ["write"]
    elif cls == "resource":
        r["resource"] = {"type": "file"}
    elif cls == "cfalse":
        r["condition"] = {"==": [1, 2]}
    elif cls == "ctype":
        r["condition"] = {"<": ["a", 1]}
    return r


def enum_policies(maxlen: int):
    for n in range(0, maxlen + 1):
        for seq in itertools.product(CLASSES, repeat=n):
            for algo in gen.ALGOS:
                yield {"algorithm": algo, "rules": [template(c, i) for i, c in enumerate(seq)]}, "/".join(seq) + "|" + algo


def enum_ids(maxlen: int):
    """the same rule sequences with ids that are falsy, absent, repeated or not strings: which rule is reported must not depend on
    an id being 'truthy', and an id is never used to tell rules apart."""
    variants = {"empty": lambda i: "", "absent": lambda i: None, "dup": lambda i: "r", "zero": lambda i: 0,
                "first-empty": lambda i: "" if i == 0 else f"r{i}", "last-empty": lambda i: f"r{i}"}
    for n in range(1, maxlen + 1):
        for seq in itertools.product(CLASSES, repeat=n):
            for name, f in variants.items():
                rules = []
                for i, c in enumerate(seq):
                    t = template(c, i)
                    rid = "" if (name == "last-empty" and i == n - 1) else f(i)
                    if rid is None:
                        del t["id"]
                    else:
                        t["id"] = rid
                    rules.append(t)
                for algo in gen.ALGOS:
                    yield {"algorithm": algo, "rules": rules}, f"ids-{name}|" + "/".join(seq) + "|" + algo
    # sets whose children have falsy / absent / repeated ids
    P = {"algorithm": "deny-overrides", "rules": [template("permit", 0)]}
    D = {"algorithm": "deny-overrides", "rules": [template("deny", 0)]}
    N = {"algorithm": "deny-overrides", "rules": [template("action", 0)]}
    for kids in itertools.product((P, D, N), repeat=2):
        for ida, idb in (("", ""), ("", "p"), ("p", ""), (None, None), ("p", "p"), (0, 1)):
            ch = []
            for k, i in zip(kids, (ida, idb)):
                c = dict(k)
                if i is not None:
                    c["id"] = i
                ch.append(c)
            for algo in gen.ALGOS:
                yield {"algorithm": algo, "policies": ch}, f"set-ids|{algo}"


def enum_sets(quick: bool):
    """all sets of ≤3 children drawn from a pool of small policies (+ one level of nesting)."""
    pool = []
    for algo in gen.ALGOS:
        for seq in [(), ("permit",), ("deny",), ("action",), ("permit", "deny"), ("deny", "permit"), ("ctype", "permit"),
                    ("cfalse",)]:
            pool.append({"algorithm": algo, "rules": [template(c, i) for i, c in enumerate(seq)]})
    pool = pool if not quick else pool[::2] + pool[1:6:2]
    for n in range(0, 3 if quick else 4):
        for kids in itertools.product(range(len(pool)), repeat=n):
            for algo in gen.ALGOS:
                children = []
                for j, k in enumerate(kids):
                    c = dict(pool[k])
                    c["id"] = f"p{j}"
                    children.append(c)
                yield {"algorithm": algo, "policies": children}, f"set{kids}|{algo}"
    # nesting: a set inside a set
    inner_pool = [{"algorithm": a, "id": "inner", "policies": [dict(pool[k], id=f"q{k}") for k in ks]}
                  for a in gen.ALGOS for ks in [(0,), (1, 2), (3,), (2, 1), ()]]
    for inner in inner_pool:
        for k in range(0, len(pool), 3):
            for algo in gen.ALGOS:
                for order in (0, 1):
                    kids2 = [inner, dict(pool[k], id="leaf")]
                    if order:
                        kids2.reverse()
                    yield {"algorithm": algo, "policies": kids2}, f"nested|{algo}"


def enum_deep():
    """a deciding policy wrapped in d nested single-child sets, next to a sibling of the opposite effect: nesting depth is unbounded
    in the statement ("at any nesting depth"), so depths far beyond what a document normally has are part of it."""
    P = {"algorithm": "deny-overrides", "id": "P", "rules": [template("permit", 0)]}
    D = {"algorithm": "deny-overrides", "id": "D", "rules": [template("deny", 0)]}
    N = {"algorithm": "deny-overrides", "id": "N", "rules": [template("action", 0)]}
    for depth in (6, 20, 33, 34, 48, 90):
        for leaf, sib in ((D, P), (P, D), (P, N), (N, P), (D, N)):
            for walgo in gen.ALGOS:
                inner = leaf
                for k in range(depth):
                    inner = {"algorithm": walgo, "id": f"w{k}", "policies": [inner]}
                for algo in gen.ALGOS:
                    for order in (0, 1):
                        kids = [inner, sib] if order == 0 else [sib, inner]
                        yield {"algorithm": algo, "policies": kids}, f"deep{depth}|{algo}"


def impl(policy: dict, env: dict) -> dict:
    try:
        raw = rset.decide(policy, env) if "policies" in policy else rpolicy.evaluate(policy, env)
    except Exception as e:  # noqa: BLE001
        return {"raised": type(e).__name__}
    return {"ok": real.render_raw(raw)}


def env_of(req: dict) -> dict:
    return {"subject": {"id": req["sid"], "roles": list(req["roles"] or []), "attrs": dict(req["sattrs"] or {})},
            "action": req["action"],
            "resource": {"type": req["rtype"], "id": req["rid"], "attrs": dict(req["rattrs"] or {})},
            "context": dict(req.get("ctx") or {})}


def cases(run: lib.Run, scale: int = 1):
    quick = run.tier == "quick"
    for pol, label in enum_policies(4 if quick else 6):
        yield pol, ENV, label
    for pol, label in enum_sets(quick):
        yield pol, ENV, label
    for pol, label in enum_deep():
        yield pol, ENV, label
    for pol, label in enum_ids(3 if quick else 4):
        yield pol, ENV, label
    r = random.Random(run.seed * 7919 + 2)
    n = (1500 if quick else 15000) * scale
    for i in range(n):
        if r.random() < 0.5:
            pol = gen.gen_policy(r, algo="explicit" if r.random() < 0.9 else "any")
        else:
            pol = gen.gen_policyset(r, depth=3, schema_valid=r.random() < 0.4)
        req = gen.gen_request(r, pol)
        env = env_of(req)
        if r.random() < 0.3:
            env["__strict_types__"] = True
        yield pol, env, f"random#{i}"


def run_cases(run: lib.Run, audit: dict, scale: int = 1):
    consts = audit["facts"]["consts"]
    batch, cmds = [], []
    for pol, env, label in cases(run, scale):
        out = impl(pol, env)
        batch.append((pol, env, label, out))
        cmds.append({"cmd": "c02", "policy": proto.enc(pol), "env": proto.enc(env), "consts": consts,
                     "oracle": proto.build_oracle(pol, env)})
    answers = proto.run_driver(cmds)
    for (pol, env, label, out), ans in zip(batch, answers):
        model, spec = ans["model"], ans["spec"]
        cls = "raised" if "raised" in out else f"{out['ok']['decision']}/{out['ok']['reason']}"
        run.count(cls)
        nontrivial = "ok" in out and out["ok"]["reason"] in ("matched", "explicit_deny")
        run.case([pol, env], nontrivial, {"policy": pol, "env": env, "impl": out} if label.startswith("random") or nontrivial else None)
        proj = (lambda o: ("raised", o["raised"]) if "raised" in o else (o["ok"]["decision"], o["ok"]["policy_id"]))
        if proj(out) != proj(model):
            run.disagreements.append({"label": label, "policy": pol, "env": env, "impl": out, "model": model})
        if spec is not None and "ok" in out:
            ok = out["ok"]["decision"] == spec["decision"] and (not spec["applicable"] or out["ok"]["policy_id"] == spec["policy_id"])
            if not ok:
                run.spec_failures.append({"label": label, "policy": pol, "env": env, "impl": out, "spec": spec})
        elif spec is not None and "raised" in out:
            run.spec_failures.append({"label": label, "policy": pol, "env": env, "impl": out, "spec": spec})
    # policy sets through the engine: whatever the engine does with a set before evaluating it, the decision is the set evaluator's
    k = 0
    for (pol, env, label, out), ans in zip(batch, answers):
        if "policies" not in pol or "ok" not in out or ans["spec"] is None:
            continue
        k += 1
        if k % 5:
            continue
        try:
            s_, r_ = env.get("subject") or {}, env.get("resource") or {}
            req = {"sid": s_.get("id"), "roles": list(s_.get("roles") or []), "sattrs": dict(s_.get("attrs") or {}), "action": env.get("action"),
                   "rtype": r_.get("type"), "rid": r_.get("id"), "rattrs": dict(r_.get("attrs") or {}), "ctx": dict(env.get("context") or {})}
            g = real.run_guard(pol, req, {"strict": bool(env.get("__strict_types__"))})
        except Exception:  # noqa: BLE001
            continue
        run.count("set-through-engine")
        if "ok" in g and g["ok"]["reason"] != "obligation_failed" and g["ok"]["effect"] != ans["spec"]["decision"]:
            run.spec_failures.append({"label": label + "|engine", "policy": pol, "env": env, "impl": {"ok": {"decision": g["ok"]["effect"], "reason": g["ok"]["reason"],
                                      "rule_id": g["ok"]["rule_id"], "policy_id": g["ok"]["policy_id"]}}, "spec": ans["spec"]})


def shrink(case: dict) -> dict:
    """drop rules / children while the implementation still contradicts the spec"""
    def fails(pol):
        out = impl(pol, case["env"])
        cmd = {"cmd": "c02", "policy": proto.enc(pol), "env": proto.enc(case["env"]), "consts": case["consts"],
               "oracle": proto.build_oracle(pol, case["env"])}
        spec = proto.run_driver([cmd])[0]["spec"]
        if spec is None:
            return False
        if "raised" in out:
            return True
        return out["ok"]["decision"] != spec["decision"] or (spec["applicable"] and out["ok"]["policy_id"] != spec["policy_id"])
    pol = case["policy"]
    key = "policies" if "policies" in pol else "rules"
    items = lib.shrink_list(pol.get(key) or [], lambda xs: fails({**pol, key: xs}), budget=60)
    return {**case, "policy": {**pol, key: items}}


def check(run: lib.Run, audit: dict) -> int:
    run.rule = ("exhaustive: every outcome sequence (6 classes) of length ≤4 (quick) / ≤6 (thorough) × 3 algorithms, every set of "
                "≤2/≤3 children from a policy pool × 3 algorithms + one level of nesting; deciding policies wrapped in 6…90 nested sets; random: schema-grammar policies/sets "
                "(nested, with ids) with requests generated towards them. non-trivial = some rule applied (reason matched/explicit_deny)")
    run.exhaustive = True
    run.assumptions = ["rules are JSON objects; effect/algorithm are strings (schema)",
                       "attribute-path segments do not name Python attributes of builtin values (DESIGN §2.1 ii)"]
    if not audit["ok"]:
        raise lib.CheckError(f"Lean build/audit failed at {audit['stage']}: {audit.get('log') or audit.get('forbidden') or audit.get('bad_axioms')}")
    run_cases(run, audit, scale=run.boost)
    violations = []
    consts = audit["facts"]["consts"]
    if run.disagreements and not run.spec_failures:
        run_cases(run, audit, scale=5)  # correspondence broke: widen the search for a failing input
    if run.spec_failures:
        c = shrink({**run.spec_failures[0], "consts": consts})
        path = run.write_replay("spec", {"what": "implementation output contradicts the combining spec (Rbacx.Spec.tree)", "case": c,
                                         "more": len(run.spec_failures) - 1})
        violations.append((path, True))
    elif run.disagreements:
        path = run.write_replay("correspondence", {"what": "model (Rbacx.decideTree/evaluate) and implementation disagree on (decision, policy_id); "
                                                   "theorems Rbacx.C02.* no longer speak about this code", "first": run.disagreements[0],
                                                   "count": len(run.disagreements)})
        violations.append((path, False))
    return run.finish(audit, violations)


def replay(run: lib.Run, audit: dict, path: str) -> int:
    import json
    rp = json.load(open(path))
    c = rp.get("case") or rp.get("first")
    out = impl(c["policy"], c["env"])
    print("impl:", out)
    print("recorded:", c.get("impl"), c.get("spec") or c.get("model"))
    return 0
