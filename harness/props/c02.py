"""C02 — combining algorithms (reference evaluator and policy sets).

Tie: `rbacx.core.policy.evaluate` / `rbacx.core.policyset.decide` against the model's
`evaluate` / `decideTree` on (decision, policy_id), and the independent combining spec
(`Rbacx.Spec.tree`) evaluated by the Lean driver on the implementation's output.

Tie by regeneration: the combining logic itself — the tail of the rule loop and the finalisation of `evaluate`, the tail of the child
loop and the finalisation of `decide` — is translated from the current source text (harness/extractors/src_translation_fragments.py),
proved equal to the model by the per-run obligation `Run/C02_translated.lean`, and evaluated against the same statements run by
CPython (`translated_vs_python`)."""
from __future__ import annotations

import itertools
import random

import gen
import lib
import proto
import real  # noqa: F401  (sets sys.path to /repo/src)
from rbacx.core import policy as rpolicy
from rbacx.core import policyset as rset

ENV = {"subject": {"id": "u", "roles": [], "attrs": {}}, "action": "read",
       "resource": {"type": "doc", "id": "1", "attrs": {}}, "context": {}}

CLASSES = ["permit", "deny", "action", "resource", "cfalse", "ctype"]


def template(cls: str, i: int) -> dict:
    r = {"id": f"r{i}", "effect": "permit", "actions": ["read"], "resource": {"type": "doc"}}
    if cls == "deny":
        r["effect"] = "deny"
    elif cls == "action":
        r["actions"] = ["write"]
    elif cls == "resource":
        r["resource"] = {"type": "file"}
    elif cls == "cfalse":
        r["condition"] = {"==": [1, 2]}
    elif cls == "ctype":
        r["condition"] = {"<": ["a", 1]}
    return r


def enum_policies(maxlen: int):
    for n in range(0, maxlen + 1):
        for seq in itertools.product(CLASSES, repeat=n):
            for algo in gen.ALGOS:
                yield {"algorithm": algo, "rules": [template(c, i) for i, c in enumerate(seq)]}, "/".join(seq) + "|" + algo


def enum_ids(maxlen: int):
    """the same rule sequences with ids that are falsy, absent, repeated or not strings: which rule is reported must not depend on
    an id being 'truthy', and an id is never used to tell rules apart."""
    variants = {"empty": lambda i: "", "absent": lambda i: None, "dup": lambda i: "r", "zero": lambda i: 0,
                "first-empty": lambda i: "" if i == 0 else f"r{i}", "last-empty": lambda i: f"r{i}"}
    for n in range(1, maxlen + 1):
        for seq in itertools.product(CLASSES, repeat=n):
            for name, f in variants.items():
                rules = []
                for i, c in enumerate(seq):
                    t = template(c, i)
                    rid = "" if (name == "last-empty" and i == n - 1) else f(i)
                    if rid is None:
                        del t["id"]
                    else:
                        t["id"] = rid
                    rules.append(t)
                for algo in gen.ALGOS:
                    yield {"algorithm": algo, "rules": rules}, f"ids-{name}|" + "/".join(seq) + "|" + algo
    # sets whose children have falsy / absent / repeated ids
    P = {"algorithm": "deny-overrides", "rules": [template("permit", 0)]}
    D = {"algorithm": "deny-overrides", "rules": [template("deny", 0)]}
    N = {"algorithm": "deny-overrides", "rules": [template("action", 0)]}
    for kids in itertools.product((P, D, N), repeat=2):
        for ida, idb in (("", ""), ("", "p"), ("p", ""), (None, None), ("p", "p"), (0, 1)):
            ch = []
            for k, i in zip(kids, (ida, idb)):
                c = dict(k)
                if i is not None:
                    c["id"] = i
                ch.append(c)
            for algo in gen.ALGOS:
                yield {"algorithm": algo, "policies": ch}, f"set-ids|{algo}"


def enum_sets(quick: bool):
    """all sets of ≤3 children drawn from a pool of small policies (+ one level of nesting)."""
    pool = []
    for algo in gen.ALGOS:
        for seq in [(), ("permit",), ("deny",), ("action",), ("permit", "deny"), ("deny", "permit"), ("ctype", "permit"),
                    ("cfalse",)]:
            pool.append({"algorithm": algo, "rules": [template(c, i) for i, c in enumerate(seq)]})
    pool = pool if not quick else pool[::2] + pool[1:6:2]
    for n in range(0, 3 if quick else 4):
        for kids in itertools.product(range(len(pool)), repeat=n):
            for algo in gen.ALGOS:
                children = []
                for j, k in enumerate(kids):
                    c = dict(pool[k])
                    c["id"] = f"p{j}"
                    children.append(c)
                yield {"algorithm": algo, "policies": children}, f"set{kids}|{algo}"
    # nesting: a set inside a set
    inner_pool = [{"algorithm": a, "id": "inner", "policies": [dict(pool[k], id=f"q{k}") for k in ks]}
                  for a in gen.ALGOS for ks in [(0,), (1, 2), (3,), (2, 1), ()]]
    for inner in inner_pool:
        for k in range(0, len(pool), 3):
            for algo in gen.ALGOS:
                for order in (0, 1):
                    kids2 = [inner, dict(pool[k], id="leaf")]
                    if order:
                        kids2.reverse()
                    yield {"algorithm": algo, "policies": kids2}, f"nested|{algo}"


def enum_deep():
    """a deciding policy wrapped in d nested single-child sets, next to a sibling of the opposite effect: nesting depth is unbounded
    in the statement ("at any nesting depth"), so depths far beyond what a document normally has are part of it."""
    P = {"algorithm": "deny-overrides", "id": "P", "rules": [template("permit", 0)]}
    D = {"algorithm": "deny-overrides", "id": "D", "rules": [template("deny", 0)]}
    N = {"algorithm": "deny-overrides", "id": "N", "rules": [template("action", 0)]}
    for depth in (6, 20, 33, 34, 48, 90):
        for leaf, sib in ((D, P), (P, D), (P, N), (N, P), (D, N)):
            for walgo in gen.ALGOS:
                inner = leaf
                for k in range(depth):
                    inner = {"algorithm": walgo, "id": f"w{k}", "policies": [inner]}
                for algo in gen.ALGOS:
                    for order in (0, 1):
                        kids = [inner, sib] if order == 0 else [sib, inner]
                        yield {"algorithm": algo, "policies": kids}, f"deep{depth}|{algo}"


def impl(policy: dict, env: dict) -> dict:
    try:
        raw = rset.decide(policy, env) if "policies" in policy else rpolicy.evaluate(policy, env)
    except Exception as e:  # noqa: BLE001
        return {"raised": type(e).__name__}
    return {"ok": real.render_raw(raw)}


def env_of(req: dict) -> dict:
    return {"subject": {"id": req["sid"], "roles": list(req["roles"] or []), "attrs": dict(req["sattrs"] or {})},
            "action": req["action"],
            "resource": {"type": req["rtype"], "id": req["rid"], "attrs": dict(req["rattrs"] or {})},
            "context": dict(req.get("ctx") or {})}


def cases(run: lib.Run, scale: int = 1):
    quick = run.tier == "quick"
    for pol, label in enum_policies(4 if quick else 6):
        yield pol, ENV, label
    for pol, label in enum_sets(quick):
        yield pol, ENV, label
    for pol, label in enum_deep():
        yield pol, ENV, label
    for pol, label in enum_ids(3 if quick else 4):
        yield pol, ENV, label
    r = random.Random(run.seed * 7919 + 2)
    n = (1500 if quick else 15000) * scale
    for i in range(n):
        if r.random() < 0.5:
            pol = gen.gen_policy(r, algo="explicit" if r.random() < 0.9 else "any")
        else:
            pol = gen.gen_policyset(r, depth=3, schema_valid=r.random() < 0.4)
        req = gen.gen_request(r, pol)
        env = env_of(req)
        if r.random() < 0.3:
            env["__strict_types__"] = True
        yield pol, env, f"random#{i}"


def run_cases(run: lib.Run, audit: dict, scale: int = 1):
    consts = audit["facts"]["consts"]
    batch, cmds = [], []
    for pol, env, label in cases(run, scale):
        out = impl(pol, env)
        batch.append((pol, env, label, out))
        cmds.append({"cmd": "c02", "policy": proto.enc(pol), "env": proto.enc(env), "consts": consts,
                     "oracle": proto.build_oracle(pol, env)})
    answers = proto.run_driver(cmds)
    for (pol, env, label, out), ans in zip(batch, answers):
        model, spec = ans["model"], ans["spec"]
        cls = "raised" if "raised" in out else f"{out['ok']['decision']}/{out['ok']['reason']}"
        run.count(cls)
        nontrivial = "ok" in out and out["ok"]["reason"] in ("matched", "explicit_deny")
        run.case([pol, env], nontrivial, {"policy": pol, "env": env, "impl": out} if label.startswith("random") or nontrivial else None)
        proj = (lambda o: ("raised", o["raised"]) if "raised" in o else (o["ok"]["decision"], o["ok"]["policy_id"]))
        if proj(out) != proj(model):
            run.disagreements.append({"label": label, "policy": pol, "env": env, "impl": out, "model": model})
        if spec is not None and "ok" in out:
            ok = out["ok"]["decision"] == spec["decision"] and (not spec["applicable"] or out["ok"]["policy_id"] == spec["policy_id"])
            if not ok:
                run.spec_failures.append({"label": label, "policy": pol, "env": env, "impl": out, "spec": spec})
        elif spec is not None and "raised" in out:
            run.spec_failures.append({"label": label, "policy": pol, "env": env, "impl": out, "spec": spec})
    # policy sets through the engine: whatever the engine does with a set before evaluating it, the decision is the set evaluator's
    k = 0
    for (pol, env, label, out), ans in zip(batch, answers):
        if "policies" not in pol or "ok" not in out or ans["spec"] is None:
            continue
        k += 1
        if k % 5:
            continue
        try:
            s_, r_ = env.get("subject") or {}, env.get("resource") or {}
            req = {"sid": s_.get("id"), "roles": list(s_.get("roles") or []), "sattrs": dict(s_.get("attrs") or {}), "action": env.get("action"),
                   "rtype": r_.get("type"), "rid": r_.get("id"), "rattrs": dict(r_.get("attrs") or {}), "ctx": dict(env.get("context") or {})}
            g = real.run_guard(pol, req, {"strict": bool(env.get("__strict_types__"))})
        except Exception:  # noqa: BLE001
            continue
        run.count("set-through-engine")
        if "ok" in g and g["ok"]["reason"] != "obligation_failed" and g["ok"]["effect"] != ans["spec"]["decision"]:
            run.spec_failures.append({"label": label + "|engine", "policy": pol, "env": env, "impl": {"ok": {"decision": g["ok"]["effect"], "reason": g["ok"]["reason"],
                                      "rule_id": g["ok"]["rule_id"], "policy_id": g["ok"]["policy_id"]}}, "spec": ans["spec"]})


# ---------------------------------------------------------------------- translated fragments vs the same statements run by CPython

ALGOS4 = ["deny-overrides", "permit-overrides", "first-applicable", "no-such-algorithm"]
OBL = [{"type": "require_mfa"}]


def edited_in_place(run: lib.Run) -> None:
    """a document that has been evaluated, is then edited IN PLACE (a rule replaced at its index, an action list changed, a child set
    re-ordered) and evaluated again: the result is the one of the document as it stands — the same as for a fresh copy of it"""
    import copy
    r = random.Random(run.seed * 4409 + 2)
    edits = 0
    for k in range(300 if run.tier == "quick" else 3000):
        if k % 3:
            seq = [r.choice(CLASSES) for _ in range(r.randrange(1, 5))]
            doc = {"algorithm": r.choice(gen.ALGOS), "rules": [template(c, i) for i, c in enumerate(seq)]}
            holders = [doc]
        else:
            kids = [{"algorithm": r.choice(gen.ALGOS), "id": f"p{j}", "rules": [template(r.choice(CLASSES), i) for i in range(r.randrange(1, 4))]}
                    for j in range(r.randrange(1, 4))]
            doc = {"algorithm": r.choice(gen.ALGOS), "policies": kids}
            holders = kids
        first = impl(doc, ENV)
        for _ in range(r.randrange(1, 4)):
            h = r.choice(holders)
            rules = h["rules"]
            i = r.randrange(len(rules))
            m = r.random()
            if m < 0.35:
                rules[i] = template(r.choice(CLASSES), i)                     # replaced at its index (the list object stays)
            elif m < 0.6:
                rules[i]["actions"][:] = r.choice([["read"], ["write"], ["*"]])  # the action list edited in place
            elif m < 0.75:
                rules[i]["effect"] = r.choice(["permit", "deny"])
            elif m < 0.9:
                rules.reverse()
            elif "policies" in doc:
                doc["policies"].reverse()
            else:
                h["algorithm"] = r.choice(gen.ALGOS)
            edits += 1
            got, fresh = impl(doc, ENV), impl(copy.deepcopy(doc), ENV)
            run.evaluations += 1
            if got != fresh:
                run.spec_failures.append({"part": "edited in place", "policy": copy.deepcopy(doc), "env": ENV, "before_the_edits": first, "impl": got,
                                          "impl_on_a_fresh_copy": fresh,
                                          "spec": "a document edited in place after an earlier evaluation is not evaluated as it stands"})
                return
    run.count("edited-in-place", edits)


def _raw(decision="permit", reason="matched", rule_id="r", last_rule_id="r", obligations=(), policy_id="<absent>", tail=False):
    """a raw decision dict; `policy_id` absent (what evaluate returns), fifth (decide's display) or last (`tail`: a copied policy result)"""
    d = {"decision": decision, "reason": reason, "rule_id": rule_id, "last_rule_id": last_rule_id}
    if policy_id != "<absent>" and not tail:
        d["policy_id"] = policy_id
    d["obligations"] = obligations if not isinstance(obligations, tuple) else list(obligations)
    if policy_id != "<absent>" and tail:
        d["policy_id"] = policy_id
    return d


def _res_pool():
    out = []
    k = 0
    for dec in ("permit", "deny", "other", "", None, 5, 1.5):
        for rid, lid in ((None, None), ("r", "r"), ("", ""), (None, "l"), ("a", None), (5, None), ("", "l")):
            for reason in ("matched", "explicit_deny", "no_match"):
                k += 1
                shape = k % 3
                out.append(_raw(dec, reason, rid, lid, OBL if k % 2 else [], "<absent>" if shape == 0 else "inner", tail=shape == 2))
    return out


# value pools per variable NAME of the current source; a variable the pools do not know gets DEFAULT_POOL
DEFAULT_POOL = [None, False, True, "x", ""]
STATE_EVALUATE = [   # loop states of `evaluate`: initial / a permit seen / a deny seen / both / after first-applicable
    {"last_rule_id": None, "decision": "deny", "obligations": [], "reason": "no_match", "any_deny": False, "deny_rule_id": None,
     "any_permit": False, "permit_rule_id": None, "permit_obligations": []},
    {"last_rule_id": "p1", "decision": "deny", "obligations": [], "reason": "action_mismatch", "any_deny": False, "deny_rule_id": None,
     "any_permit": True, "permit_rule_id": "p1", "permit_obligations": OBL},
    {"last_rule_id": "", "decision": "deny", "obligations": [], "reason": "condition_mismatch", "any_deny": True, "deny_rule_id": "",
     "any_permit": False, "permit_rule_id": None, "permit_obligations": []},
    {"last_rule_id": "d1", "decision": "deny", "obligations": [], "reason": "no_match", "any_deny": True, "deny_rule_id": "d1",
     "any_permit": True, "permit_rule_id": "", "permit_obligations": []},
    {"last_rule_id": "f", "decision": "permit", "obligations": OBL, "reason": "matched", "any_deny": False, "deny_rule_id": None,
     "any_permit": False, "permit_rule_id": None, "permit_obligations": []},
]
D1, D2 = _raw("deny", "explicit_deny", "d", "d", OBL), _raw("deny", "explicit_deny", None, "", "ab", "in")
P1, P2, P3 = _raw("permit", "matched", "p", "p", OBL), _raw("permit", "", "", None, None, "in"), _raw("permit", None, "q", "q", [], "in", tail=True)
STATE_DECIDE = [     # loop states of `decide`
    {"last_rule_id": None, "first_applicable_result": None, "first_applicable_pid": None, "any_deny": False, "deny_result": None,
     "deny_pid": None, "any_permit": False, "permit_result": None, "permit_pid": None},
    {"last_rule_id": "d", "first_applicable_result": None, "first_applicable_pid": None, "any_deny": True, "deny_result": D1,
     "deny_pid": "pd", "any_permit": False, "permit_result": None, "permit_pid": None},
    {"last_rule_id": "p", "first_applicable_result": None, "first_applicable_pid": None, "any_deny": False, "deny_result": None,
     "deny_pid": None, "any_permit": True, "permit_result": P1, "permit_pid": None},
    {"last_rule_id": "", "first_applicable_result": None, "first_applicable_pid": None, "any_deny": True, "deny_result": D2,
     "deny_pid": "", "any_permit": True, "permit_result": P2, "permit_pid": "pp"},
    {"last_rule_id": "q", "first_applicable_result": P3, "first_applicable_pid": "pf", "any_deny": False, "deny_result": None,
     "deny_pid": None, "any_permit": False, "permit_result": None, "permit_pid": None},
]
RULES = [{}, {"obligations": None}, {"obligations": []}, {"obligations": OBL}, {"obligations": "ab"}, {"obligations": {"k": 1}},
         {"obligations": [1, None, OBL[0]]}]
GRID = {
    # fragment: (explicit axes by variable name, state vectors or None)
    "evaluate_step": ({"rule": RULES, "rid": ["r1", "", None], "algo": ALGOS4, "effect": ["permit", "deny", "other"]}, STATE_EVALUATE),
    "evaluate_final": ({"algo": ALGOS4, "any_deny": [False, True], "any_permit": [False, True], "deny_rule_id": [None, "d"],
                        "permit_rule_id": [None, ""], "permit_obligations": [[], OBL], "last_rule_id": [None, "", "l"],
                        "decision": ["deny", "permit"], "reason": ["no_match", "matched"], "obligations": [[], OBL]}, None),
    "decide_step": ({"res": _res_pool(), "algo": ALGOS4, "pid": [None, "pol"]}, STATE_DECIDE),
    "decide_final": ({"algo": ALGOS4, "any_deny": [False, True], "any_permit": [False, True], "first_applicable_result": [None, P1, P3],
                      "first_applicable_pid": ["pf"], "deny_result": [None, D1, D2], "deny_pid": ["pd"],
                      "permit_result": [None, P1, P2, P3], "permit_pid": ["pp"], "last_rule_id": [None, "l"]}, None),
}
MAX_PER_FRAGMENT = 8000


def fragment_grid(name: str, inputs: list[str], r: random.Random):
    """every combination of the axes (× the state vectors) as argument lists in the order `inputs`; variables that are neither an
    axis nor in the state vectors range over DEFAULT_POOL; sampled down (seeded) beyond MAX_PER_FRAGMENT"""
    axes, states = GRID.get(name, ({}, None))
    states = states or [{}]
    free_axes = [v for v in inputs if v not in states[0]]
    pools = [axes.get(v, DEFAULT_POOL) for v in free_axes]
    total = len(states)
    for pl in pools:
        total *= len(pl)
    combos = itertools.product(states, *pools)
    if total > MAX_PER_FRAGMENT:
        keep = set(r.sample(range(total), MAX_PER_FRAGMENT))
        combos = (c for i, c in enumerate(combos) if i in keep)
    for st, *vals in combos:
        env = dict(st)
        env.update(zip(free_axes, vals))
        yield [env.get(v) for v in inputs]


def translated_vs_python(run: lib.Run, facts: dict | None = None) -> tuple[bool, str]:
    """each translated fragment (Generated.Src.*, evaluated by `lake env lean --run Rbacx/Run/SrcEvalFrag.lean`) against the SAME
    statement range of the current source text, wrapped into a Python function and run by CPython, over an exhaustive grid of small
    inputs: validates the translator's fragment mode and Model/PyLib.lean (what the obligation C02_translated trusts)"""
    import copy
    import json
    import subprocess
    import pytolean
    from extractors import src_translation_fragments as frs
    r = random.Random(run.seed * 223 + 9)
    mods = {"src/rbacx/core/policy.py": rpolicy, "src/rbacx/core/policyset.py": rset}
    calls = []
    for rel, fn, kind, start, lean_name, _known in frs.FRAGMENTS:
        mod = mods[rel]
        src = open(mod.__file__, encoding="utf-8").read()
        try:
            pyf, inputs, _outs = pytolean.fragment_as_python(src, fn, kind, start, vars(mod))
        except pytolean.Unsupported as e:
            return False, f"fragment {lean_name}: {e}"
        if facts is not None and inputs != facts[lean_name]["inputs"]:
            return False, f"fragment {lean_name}: inputs of the imported module {inputs} differ from the extracted ones {facts[lean_name]['inputs']}"
        for args in fragment_grid(lean_name, inputs, r):
            try:
                want = ("ok", pyf(*copy.deepcopy(args)))
            except Exception as e:  # noqa: BLE001
                want = ("raised", type(e).__name__)
            calls.append((lean_name, args, want))
    lines = [json.dumps({"fn": fn, "args": [proto.enc(a) for a in args]}) for fn, args, _ in calls]
    p = subprocess.run(["lake", "env", "lean", "--run", "Rbacx/Run/SrcEvalFrag.lean"], cwd=lib.LEAN, input="\n".join(lines) + "\n",
                       capture_output=True, text=True, timeout=900)
    outs = [ln for ln in p.stdout.split("\n") if ln]
    if p.returncode != 0 or len(outs) != len(lines):
        return False, "SrcEvalFrag: " + (p.stderr or p.stdout)[-800:]
    bad = 0
    for (fn, args, want), ln in zip(calls, outs):
        got = json.loads(ln)
        run.count("translated-fragment")
        if want[0] != "ok":
            run.count("translated-fragment: python raised (not judged)")
            continue          # CPython raised (an argument outside the fragment's domain, e.g. list(5)): not judged
        if "value" not in got or got["value"] != proto.enc(want[1]):
            bad += 1
            if bad == 1:
                run.disagreements.append({"label": f"fragment {fn}", "part": "translated source vs python", "policy": None, "env": None,
                                          "impl": {"python": repr(want[1])[:600]}, "model": got, "fragment": fn, "args": repr(args)[:800],
                                          "what": f"the translated fragment {fn} (Generated.Src) and the same statements run by CPython differ"})
    run.evaluations += len(calls)
    return bad == 0, f"{bad} of {len(calls)} evaluations differ" if bad else f"agree on {len(calls)} evaluations"


def shrink(case: dict) -> dict:
    """drop rules / children while the implementation still contradicts the spec"""
    def fails(pol):
        out = impl(pol, case["env"])
        cmd = {"cmd": "c02", "policy": proto.enc(pol), "env": proto.enc(case["env"]), "consts": case["consts"],
               "oracle": proto.build_oracle(pol, case["env"])}
        spec = proto.run_driver([cmd])[0]["spec"]
        if spec is None:
            return False
        if "raised" in out:
            return True
        return out["ok"]["decision"] != spec["decision"] or (spec["applicable"] and out["ok"]["policy_id"] != spec["policy_id"])
    pol = case["policy"]
    key = "policies" if "policies" in pol else "rules"
    items = lib.shrink_list(pol.get(key) or [], lambda xs: fails({**pol, key: xs}), budget=60)
    return {**case, "policy": {**pol, key: items}}


def check(run: lib.Run, audit: dict) -> int:
    run.rule = ("exhaustive: every outcome sequence (6 classes) of length ≤4 (quick) / ≤6 (thorough) × 3 algorithms, every set of "
                "≤2/≤3 children from a policy pool × 3 algorithms + one level of nesting; deciding policies wrapped in 6…90 nested sets; random: schema-grammar policies/sets "
                "(nested, with ids) with requests generated towards them; the four translated fragments of evaluate/decide vs the same statements "
                "run by CPython on a grid of 4 algorithms × effects/decisions × id shapes × obligations shapes × loop states. "
                "non-trivial = some rule applied (reason matched/explicit_deny)")
    run.exhaustive = True
    run.assumptions = ["rules are JSON objects; effect/algorithm are strings (schema)",
                       "attribute-path segments do not name Python attributes of builtin values (DESIGN §2.1 ii)"]
    if not audit["ok"]:
        raise lib.CheckError(f"Lean build/audit failed at {audit['stage']}: {audit.get('log') or audit.get('forbidden') or audit.get('bad_axioms')}")
    # the combining logic as it is written NOW, translated into Lean, is proved equal to the model's (per-run obligation)
    fr = audit["facts"].get("translated_fragments")
    untranslatable = isinstance(fr, dict) and "extraction_failed" in fr
    ok_tr, detail_tr = lib.run_obligation("C02_translated")
    run.obligation("C02_translated: Generated.Src.{evaluate_step,evaluate_final,decide_step,decide_final} (the current source text of the "
                   "loop tails and finalisations of policy.evaluate / policyset.decide) = stepRule/finalise/stepChild/finaliseSet of the model, "
                   "for every input", ok_tr, "discharged" if ok_tr else (str(fr["extraction_failed"]) if untranslatable else detail_tr))
    if untranslatable or not isinstance(fr, dict):
        ok_py, detail_py = True, "skipped: the fragments are not in the translatable subset (see C02_translated)"
    else:
        ok_py, detail_py = translated_vs_python(run, fr)
    run.obligation("translated fragments evaluate like the same statements run by CPython (translator + Model/PyLib.lean vs CPython)", ok_py, detail_py)
    run_cases(run, audit, scale=run.boost * (1 if ok_tr else 2))
    edited_in_place(run)
    violations = []
    consts = audit["facts"]["consts"]
    if (run.disagreements or not ok_tr) and not run.spec_failures:
        run_cases(run, audit, scale=5)  # correspondence or the translation tie broke: widen the search for a failing input
    if run.spec_failures:
        first = next((f for f in run.spec_failures if f.get("part") != "edited in place"), None)
        c = shrink({**first, "consts": consts}) if first is not None else run.spec_failures[0]
        path = run.write_replay("spec", {"what": "implementation output contradicts the combining spec (Rbacx.Spec.tree)" if first is not None else
                                         "the evaluators' result for a document depends on an earlier evaluation of the same (since edited) object", "case": c,
                                         "more": len(run.spec_failures) - 1})
        violations.append((path, True))
    elif not ok_tr:
        path = run.write_replay("obligation", {"what": "per-run obligation Rbacx/Run/C02_translated.lean no longer checks: the translated source of the "
                                               "loop tails / finalisations of policy.evaluate and policyset.decide is not proved equal to the model "
                                               "functions (stepRule, finalise, stepChild, finaliseSet) that theorems Rbacx.C02.* are about; the widened "
                                               "search found no input on which the implementation contradicts the combining spec",
                                               "translation": fr, "lean": detail_tr[-1500:], "first_disagreement": run.disagreements[:1]})
        violations.append((path, False))
    elif run.disagreements or not ok_py:
        first = run.disagreements[0] if run.disagreements else {"part": "translated source vs python", "what": detail_py, "policy": None}
        what = ("translated source vs python: " + str(first.get("what")) + "; the obligation C02_translated rests on a translation that "
                "CPython contradicts (or that could not be evaluated)" if first.get("part") else
                "model (Rbacx.decideTree/evaluate) and implementation disagree on (decision, policy_id); theorems Rbacx.C02.* no longer speak about this code")
        path = run.write_replay("correspondence", {"what": what, "first": first, "count": len(run.disagreements)})
        violations.append((path, False))
    return run.finish(audit, violations)


def replay(run: lib.Run, audit: dict, path: str) -> int:
    import json
    rp = json.load(open(path))
    c = rp.get("case") or rp.get("first")
    if not c or c.get("policy") is None:
        print("nothing to re-run on the implementation:", rp.get("what"))
        print("recorded:", c or rp.get("lean"))
        return 0
    if c.get("part") == "edited in place":
        before = len(run.spec_failures)
        edited_in_place(run)
        now = run.spec_failures[before:]
        print("now:", json.dumps(now[0], default=str)[:1500] if now else "every edited document is evaluated as it stands")
        print("recorded:", json.dumps(c, default=str)[:1500])
        return 1 if now else 0
    out = impl(c["policy"], c["env"])
    print("impl:", out)
    print("recorded:", c.get("impl"), c.get("spec") or c.get("model"))
    return 0
