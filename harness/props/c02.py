"""C02 — combining algorithms (reference evaluator and policy sets).

Tie: `rbacx.core.policy.evaluate` / `rbacx.core.policyset.decide` against the model's
`evaluate` / `decideTree` on (decision, policy_id), and the independent combining spec
(`Rbacx.Spec.tree`) evaluated by the Lean driver on the implementation's output.

Tie by regeneration: the combining logic itself — the tail of the rule loop and the finalisation of `evaluate`, the tail of the child
loop and the finalisation of `decide` — is translated from the current source text (harness/extractors/src_translation_fragments.py),
proved equal to the model by the per-run obligation `Run/C02_translated.lean`, and evaluated against the same statements run by
CPython (`translated_vs_python`).  And the two evaluators AS WHOLES — `evaluate`, `_decide_single` / `decide`, prologues, loop heads,
exceptions and the recursive dispatch included — are translated in exception-passing style
(harness/extractors/src_translation_evaluators.py), proved to compute the model's `evaluate` / `decideTree` by the per-run obligation
`Run/C02_whole.lean`, and evaluated against the real functions (`translated_whole_vs_python`)."""
from __future__ import annotations

import itertools
import random

import gen
import lib
import proto
import real  # noqa: F401  (sets sys.path to /repo/src)
from rbacx.core import policy as rpolicy
from rbacx.core import policyset as rset

ENV = {"subject": {"id": "u", "roles": [], "attrs": {}}, "action": "read",
       "resource": {"type": "doc", "id": "1", "attrs": {}}, "context": {}}

CLASSES = ["permit", "deny", "action", "resource", "cfalse", "ctype"]


def template(cls: str, i: int) -> dict:
    r = {"id": f"r{i}", "effect": "permit", "actions": ["read"], "resource": {"type": "doc"}}
    if cls == "deny":
        r["effect"] = "deny"
    elif cls == "action":
        r["actions"] = ["write"]
    elif cls == "resource":
        r["resource"] = {"type": "file"}
    elif cls == "cfalse":
        r["condition"] = {"==": [1, 2]}
    elif cls == "ctype":
        r["condition"] = {"<": ["a", 1]}
    return r


def enum_policies(maxlen: int):
    for n in range(0, maxlen + 1):
        for seq in itertools.product(CLASSES, repeat=n):
            for algo in gen.ALGOS:
                yield {"algorithm": algo, "rules": [template(c, i) for i, c in enumerate(seq)]}, "/".join(seq) + "|" + algo


def enum_ids(maxlen: int):
    """the same rule sequences with ids that are falsy, absent, repeated or not strings: which rule is reported must not depend on
    an id being 'truthy', and an id is never used to tell rules apart."""
    variants = {"empty": lambda i: "", "absent": lambda i: None, "dup": lambda i: "r", "zero": lambda i: 0,
                "first-empty": lambda i: "" if i == 0 else f"r{i}", "last-empty": lambda i: f"r{i}"}
    for n in range(1, maxlen + 1):
        for seq in itertools.product(CLASSES, repeat=n):
            for name, f in variants.items():
                rules = []
                for i, c in enumerate(seq):
                    t = template(c, i)
                    rid = "" if (name == "last-empty" and i == n - 1) else f(i)
                    if rid is None:
                        del t["id"]
                    else:
                        t["id"] = rid
                    rules.append(t)
                for algo in gen.ALGOS:
                    yield {"algorithm": algo, "rules": rules}, f"ids-{name}|" + "/".join(seq) + "|" + algo
    # sets whose children have falsy / absent / repeated ids
    P = {"algorithm": "deny-overrides", "rules": [template("permit", 0)]}
    D = {"algorithm": "deny-overrides", "rules": [template("deny", 0)]}
    N = {"algorithm": "deny-overrides", "rules": [template("action", 0)]}
    for kids in itertools.product((P, D, N), repeat=2):
        for ida, idb in (("", ""), ("", "p"), ("p", ""), (None, None), ("p", "p"), (0, 1)):
            ch = []
            for k, i in zip(kids, (ida, idb)):
                c = dict(k)
                if i is not None:
                    c["id"] = i
                ch.append(c)
            for algo in gen.ALGOS:
                yield {"algorithm": algo, "policies": ch}, f"set-ids|{algo}"


def enum_sets(quick: bool):
    """all sets of ≤3 children drawn from a pool of small policies (+ one level of nesting)."""
    pool = []
    for algo in gen.ALGOS:
        for seq in [(), ("permit",), ("deny",), ("action",), ("permit", "deny"), ("deny", "permit"), ("ctype", "permit"),
                    ("cfalse",)]:
            pool.append({"algorithm": algo, "rules": [template(c, i) for i, c in enumerate(seq)]})
    pool = pool if not quick else pool[::2] + pool[1:6:2]
    for n in range(0, 3 if quick else 4):
        for kids in itertools.product(range(len(pool)), repeat=n):
            for algo in gen.ALGOS:
                children = []
                for j, k in enumerate(kids):
                    c = dict(pool[k])
                    c["id"] = f"p{j}"
                    children.append(c)
                yield {"algorithm": algo, "policies": children}, f"set{kids}|{algo}"
    # nesting: a set inside a set
    inner_pool = [{"algorithm": a, "id": "inner", "policies": [dict(pool[k], id=f"q{k}") for k in ks]}
                  for a in gen.ALGOS for ks in [(0,), (1, 2), (3,), (2, 1), ()]]
    for inner in inner_pool:
        for k in range(0, len(pool), 3):
            for algo in gen.ALGOS:
                for order in (0, 1):
                    kids2 = [inner, dict(pool[k], id="leaf")]
                    if order:
                        kids2.reverse()
                    yield {"algorithm": algo, "policies": kids2}, f"nested|{algo}"


def enum_deep():
    """a deciding policy wrapped in d nested single-child sets, next to a sibling of the opposite effect: nesting depth is unbounded
    in the statement ("at any nesting depth"), so depths far beyond what a document normally has are part of it."""
    P = {"algorithm": "deny-overrides", "id": "P", "rules": [template("permit", 0)]}
    D = {"algorithm": "deny-overrides", "id": "D", "rules": [template("deny", 0)]}
    N = {"algorithm": "deny-overrides", "id": "N", "rules": [template("action", 0)]}
    for depth in (6, 20, 33, 34, 48, 90):
        for leaf, sib in ((D, P), (P, D), (P, N), (N, P), (D, N)):
            for walgo in gen.ALGOS:
                inner = leaf
                for k in range(depth):
                    inner = {"algorithm": walgo, "id": f"w{k}", "policies": [inner]}
                for algo in gen.ALGOS:
                    for order in (0, 1):
                        kids = [inner, sib] if order == 0 else [sib, inner]
                        yield {"algorithm": algo, "policies": kids}, f"deep{depth}|{algo}"


def enum_literal_conditions():
    """rules whose condition is not a dict — its truth value decides (`eval_condition`: `return bool(cond)`), and only `None` means
    "no condition": a falsy literal (`false`, 0, "", [], {}) makes the rule not apply"""
    for cond in (False, 0, "", [], {}, True, 1, "x", [0], None):
        for eff in ("permit", "deny"):
            for algo in gen.ALGOS:
                r0 = {"id": "r0", "effect": eff, "actions": ["read"], "resource": {"type": "doc"}, "condition": cond}
                yield {"algorithm": algo, "rules": [r0]}, f"litcond|{cond!r}|{eff}|{algo}"
                yield {"algorithm": algo, "rules": [r0, template("deny" if eff == "permit" else "permit", 1)]}, f"litcond2|{cond!r}|{eff}|{algo}"
                yield {"algorithm": algo, "policies": [{"id": "p", "rules": [r0]}, {"id": "q", "rules": [template("action", 0)]}]}, f"litcond-set|{cond!r}|{algo}"


def impl(policy: dict, env: dict) -> dict:
    try:
        raw = rset.decide(policy, env) if "policies" in policy else rpolicy.evaluate(policy, env)
    except Exception as e:  # noqa: BLE001
        return {"raised": type(e).__name__}
    return {"ok": real.render_raw(raw)}


def env_of(req: dict) -> dict:
    return {"subject": {"id": req["sid"], "roles": list(req["roles"] or []), "attrs": dict(req["sattrs"] or {})},
            "action": req["action"],
            "resource": {"type": req["rtype"], "id": req["rid"], "attrs": dict(req["rattrs"] or {})},
            "context": dict(req.get("ctx") or {})}


def cases(run: lib.Run, scale: int = 1):
    quick = run.tier == "quick"
    for pol, label in enum_policies(4 if quick else 6):
        yield pol, ENV, label
    for pol, label in enum_sets(quick):
        yield pol, ENV, label
    for pol, label in enum_deep():
        yield pol, ENV, label
    for pol, label in enum_ids(3 if quick else 4):
        yield pol, ENV, label
    for pol, label in enum_literal_conditions():
        yield pol, ENV, label
    r = random.Random(run.seed * 7919 + 2)
    n = (1500 if quick else 15000) * scale
    for i in range(n):
        if r.random() < 0.5:
            pol = gen.gen_policy(r, algo="explicit" if r.random() < 0.9 else "any")
        else:
            pol = gen.gen_policyset(r, depth=3, schema_valid=r.random() < 0.4)
        req = gen.gen_request(r, pol)
        env = env_of(req)
        if r.random() < 0.3:
            env["__strict_types__"] = True
        yield pol, env, f"random#{i}"


def run_cases(run: lib.Run, audit: dict, scale: int = 1):
    consts = audit["facts"]["consts"]
    batch, cmds = [], []
    for pol, env, label in cases(run, scale):
        out = impl(pol, env)
        batch.append((pol, env, label, out))
        cmds.append({"cmd": "c02", "policy": proto.enc(pol), "env": proto.enc(env), "consts": consts,
                     "oracle": proto.build_oracle(pol, env)})
    answers = proto.run_driver(cmds)
    for (pol, env, label, out), ans in zip(batch, answers):
        model, spec = ans["model"], ans["spec"]
        cls = "raised" if "raised" in out else f"{out['ok']['decision']}/{out['ok']['reason']}"
        run.count(cls)
        nontrivial = "ok" in out and out["ok"]["reason"] in ("matched", "explicit_deny")
        run.case([pol, env], nontrivial, {"policy": pol, "env": env, "impl": out} if label.startswith("random") or nontrivial else None)
        proj = (lambda o: ("raised", o["raised"]) if "raised" in o else (o["ok"]["decision"], o["ok"]["policy_id"]))
        if proj(out) != proj(model):
            run.disagreements.append({"label": label, "policy": pol, "env": env, "impl": out, "model": model})
        if spec is not None and "ok" in out:
            ok = out["ok"]["decision"] == spec["decision"] and (not spec["applicable"] or out["ok"]["policy_id"] == spec["policy_id"])
            if not ok:
                run.spec_failures.append({"label": label, "policy": pol, "env": env, "impl": out, "spec": spec})
        elif spec is not None and "raised" in out:
            run.spec_failures.append({"label": label, "policy": pol, "env": env, "impl": out, "spec": spec})
    # policy sets through the engine: whatever the engine does with a set before evaluating it, the decision is the set evaluator's
    k = 0
    for (pol, env, label, out), ans in zip(batch, answers):
        if "policies" not in pol or "ok" not in out or ans["spec"] is None:
            continue
        k += 1
        if k % 5:
            continue
        try:
            s_, r_ = env.get("subject") or {}, env.get("resource") or {}
            req = {"sid": s_.get("id"), "roles": list(s_.get("roles") or []), "sattrs": dict(s_.get("attrs") or {}), "action": env.get("action"),
                   "rtype": r_.get("type"), "rid": r_.get("id"), "rattrs": dict(r_.get("attrs") or {}), "ctx": dict(env.get("context") or {})}
            g = real.run_guard(pol, req, {"strict": bool(env.get("__strict_types__"))})
        except Exception:  # noqa: BLE001
            continue
        run.count("set-through-engine")
        if "ok" in g and g["ok"]["reason"] != "obligation_failed" and g["ok"]["effect"] != ans["spec"]["decision"]:
            run.spec_failures.append({"label": label + "|engine", "policy": pol, "env": env, "impl": {"ok": {"decision": g["ok"]["effect"], "reason": g["ok"]["reason"],
                                      "rule_id": g["ok"]["rule_id"], "policy_id": g["ok"]["policy_id"]}}, "spec": ans["spec"]})


# ---------------------------------------------------------------------- translated fragments vs the same statements run by CPython

ALGOS4 = ["deny-overrides", "permit-overrides", "first-applicable", "no-such-algorithm"]
OBL = [{"type": "require_mfa"}]


def overlapping_sets(run: lib.Run) -> None:
    """TWO evaluations of the same nested set tree overlapping on two threads (how an engine runs: every decision on a worker thread): the
    first is parked INSIDE the nested set (a `rel` condition whose relationship backend waits), the second runs to completion.  The
    result of the second — and of the first once released — is the documented combination, the same as when evaluated alone; through
    `policyset.decide` called directly from two threads and through one `Guard`."""
    import copy
    import threading
    from rbacx.core.engine import Guard
    from rbacx.core.model import Action, Context, Resource, Subject
    from rbacx.core.relctx import REL_CHECKER

    class Backend:
        def __init__(self):
            self.entered, self.release = threading.Event(), threading.Event()

        def check(self, subject, relation, resource, *, context=None):
            if "slow" in str(subject) and not self.release.is_set():
                self.entered.set()
                self.release.wait(20)
            return True

    def rule(rid, effect, rel=False):
        r = {"id": rid, "effect": effect, "actions": ["read"], "resource": {"type": "doc"}}
        if rel:
            r["condition"] = {"rel": "viewer"}
        return r
    proj = lambda raw: None if raw is None else (raw.get("decision"), raw.get("policy_id"), raw.get("last_rule_id") or raw.get("rule_id"))  # noqa: E731
    for algo in gen.ALGOS:
        for inner_effect, sibling_effect in (("deny", "permit"), ("permit", "deny"), ("permit", "permit")):
            for order in ("nested-first", "sibling-first"):
                nested = {"id": "nested", "algorithm": algo, "policies": [{"id": "inner", "algorithm": algo, "rules": [rule("inner-rule", inner_effect, rel=True)]}]}
                sibling = {"id": "sibling", "algorithm": algo, "rules": [rule("sibling-rule", sibling_effect)]}
                doc = {"algorithm": algo, "policies": [nested, sibling] if order == "nested-first" else [sibling, nested]}

                def env(sid):
                    return {"subject": {"id": sid, "roles": [], "attrs": {}}, "action": "read", "resource": {"type": "doc", "id": "1", "attrs": {}}, "context": {}}
                for via in ("decide", "guard"):
                    backend = Backend()
                    alone = {}
                    res: dict = {}
                    if via == "decide":
                        def call(sid, backend=backend, doc=doc):
                            tok = REL_CHECKER.set(backend)
                            try:
                                return proj(rset.decide(doc, env(sid)))
                            finally:
                                REL_CHECKER.reset(tok)
                    else:
                        g = Guard(copy.deepcopy(doc), relationship_checker=backend)

                        def call(sid, g=g):
                            d = g.evaluate_sync(Subject(id=sid), Action("read"), Resource(type="doc", id="1"), Context())
                            return (d.effect, d.policy_id, d.rule_id)
                    backend.release.set()
                    for sid in ("slow", "fast"):
                        alone[sid] = call(sid)
                    backend.release.clear()
                    backend.entered.clear()

                    def run_a():
                        try:
                            res["slow"] = call("slow")
                        except Exception as e:  # noqa: BLE001
                            res["slow"] = ("raised", type(e).__name__)
                    ta = threading.Thread(target=run_a, daemon=True)
                    ta.start()
                    waited = 0
                    while not backend.entered.is_set() and ta.is_alive() and waited < 2000:     # parked inside the nested set, or finished without entering it
                        ta.join(0.005)
                        waited += 1
                    parked = backend.entered.is_set()
                    try:
                        res["fast"] = call("fast")
                    except Exception as e:  # noqa: BLE001
                        res["fast"] = ("raised", type(e).__name__)
                    backend.release.set()
                    ta.join(20)
                    run.evaluations += 1
                    run.count("overlapping-sets")
                    run.nontrivial.add(f"overlap{algo}{inner_effect}{sibling_effect}{order}{via}")
                    if not parked:
                        continue      # the first-applicable sibling decided before the nested set was entered: nothing overlapped
                    if res.get("fast") != alone["fast"] or res.get("slow") != alone["slow"]:
                        run.spec_failures.append({"part": "overlapping sets", "policy": doc, "via": via, "algorithm": algo,
                                                  "evaluated_alone": {k: list(v) if v else v for k, v in alone.items()},
                                                  "overlapping": {k: list(v) if v else v for k, v in res.items()},
                                                  "spec": "two evaluations of one nested set tree overlapping on two threads: the result differs from the "
                                                          "documented combination (what the same request gets when evaluated alone)"})
                        return


def edited_in_place(run: lib.Run) -> None:
    """a document that has been evaluated, is then edited IN PLACE (a rule replaced at its index, an action list changed, a child set
    re-ordered) and evaluated again: the result is the one of the document as it stands — the same as for a fresh copy of it"""
    import copy
    r = random.Random(run.seed * 4409 + 2)
    edits = 0
    for k in range(300 if run.tier == "quick" else 3000):
        if k % 3:
            seq = [r.choice(CLASSES) for _ in range(r.randrange(1, 5))]
            doc = {"algorithm": r.choice(gen.ALGOS), "rules": [template(c, i) for i, c in enumerate(seq)]}
            holders = [doc]
        else:
            kids = [{"algorithm": r.choice(gen.ALGOS), "id": f"p{j}", "rules": [template(r.choice(CLASSES), i) for i in range(r.randrange(1, 4))]}
                    for j in range(r.randrange(1, 4))]
            doc = {"algorithm": r.choice(gen.ALGOS), "policies": kids}
            holders = kids
        first = impl(doc, ENV)
        for _ in range(r.randrange(1, 4)):
            h = r.choice(holders)
            rules = h["rules"]
            i = r.randrange(len(rules))
            m = r.random()
            if m < 0.35:
                rules[i] = template(r.choice(CLASSES), i)                     # replaced at its index (the list object stays)
            elif m < 0.6:
                rules[i]["actions"][:] = r.choice([["read"], ["write"], ["*"]])  # the action list edited in place
            elif m < 0.75:
                rules[i]["effect"] = r.choice(["permit", "deny"])
            elif m < 0.9:
                rules.reverse()
            elif "policies" in doc:
                doc["policies"].reverse()
            else:
                h["algorithm"] = r.choice(gen.ALGOS)
            edits += 1
            got, fresh = impl(doc, ENV), impl(copy.deepcopy(doc), ENV)
            run.evaluations += 1
            if got != fresh:
                run.spec_failures.append({"part": "edited in place", "policy": copy.deepcopy(doc), "env": ENV, "before_the_edits": first, "impl": got,
                                          "impl_on_a_fresh_copy": fresh,
                                          "spec": "a document edited in place after an earlier evaluation is not evaluated as it stands"})
                return
    run.count("edited-in-place", edits)


def _raw(decision="permit", reason="matched", rule_id="r", last_rule_id="r", obligations=(), policy_id="<absent>", tail=False):
    """a raw decision dict; `policy_id` absent (what evaluate returns), fifth (decide's display) or last (`tail`: a copied policy result)"""
    d = {"decision": decision, "reason": reason, "rule_id": rule_id, "last_rule_id": last_rule_id}
    if policy_id != "<absent>" and not tail:
        d["policy_id"] = policy_id
    d["obligations"] = obligations if not isinstance(obligations, tuple) else list(obligations)
    if policy_id != "<absent>" and tail:
        d["policy_id"] = policy_id
    return d


def _res_pool():
    out = []
    k = 0
    for dec in ("permit", "deny", "other", "", None, 5, 1.5):
        for rid, lid in ((None, None), ("r", "r"), ("", ""), (None, "l"), ("a", None), (5, None), ("", "l")):
            for reason in ("matched", "explicit_deny", "no_match"):
                k += 1
                shape = k % 3
                out.append(_raw(dec, reason, rid, lid, OBL if k % 2 else [], "<absent>" if shape == 0 else "inner", tail=shape == 2))
    return out


# value pools per variable NAME of the current source; a variable the pools do not know gets DEFAULT_POOL
DEFAULT_POOL = [None, False, True, "x", ""]
STATE_EVALUATE = [   # loop states of `evaluate`: initial / a permit seen / a deny seen / both / after first-applicable
    {"last_rule_id": None, "decision": "deny", "obligations": [], "reason": "no_match", "any_deny": False, "deny_rule_id": None,
     "any_permit": False, "permit_rule_id": None, "permit_obligations": []},
    {"last_rule_id": "p1", "decision": "deny", "obligations": [], "reason": "action_mismatch", "any_deny": False, "deny_rule_id": None,
     "any_permit": True, "permit_rule_id": "p1", "permit_obligations": OBL},
    {"last_rule_id": "", "decision": "deny", "obligations": [], "reason": "condition_mismatch", "any_deny": True, "deny_rule_id": "",
     "any_permit": False, "permit_rule_id": None, "permit_obligations": []},
    {"last_rule_id": "d1", "decision": "deny", "obligations": [], "reason": "no_match", "any_deny": True, "deny_rule_id": "d1",
     "any_permit": True, "permit_rule_id": "", "permit_obligations": []},
    {"last_rule_id": "f", "decision": "permit", "obligations": OBL, "reason": "matched", "any_deny": False, "deny_rule_id": None,
     "any_permit": False, "permit_rule_id": None, "permit_obligations": []},
]
D1, D2 = _raw("deny", "explicit_deny", "d", "d", OBL), _raw("deny", "explicit_deny", None, "", "ab", "in")
P1, P2, P3 = _raw("permit", "matched", "p", "p", OBL), _raw("permit", "", "", None, None, "in"), _raw("permit", None, "q", "q", [], "in", tail=True)
STATE_DECIDE = [     # loop states of `decide`
    {"last_rule_id": None, "first_applicable_result": None, "first_applicable_pid": None, "any_deny": False, "deny_result": None,
     "deny_pid": None, "any_permit": False, "permit_result": None, "permit_pid": None},
    {"last_rule_id": "d", "first_applicable_result": None, "first_applicable_pid": None, "any_deny": True, "deny_result": D1,
     "deny_pid": "pd", "any_permit": False, "permit_result": None, "permit_pid": None},
    {"last_rule_id": "p", "first_applicable_result": None, "first_applicable_pid": None, "any_deny": False, "deny_result": None,
     "deny_pid": None, "any_permit": True, "permit_result": P1, "permit_pid": None},
    {"last_rule_id": "", "first_applicable_result": None, "first_applicable_pid": None, "any_deny": True, "deny_result": D2,
     "deny_pid": "", "any_permit": True, "permit_result": P2, "permit_pid": "pp"},
    {"last_rule_id": "q", "first_applicable_result": P3, "first_applicable_pid": "pf", "any_deny": False, "deny_result": None,
     "deny_pid": None, "any_permit": False, "permit_result": None, "permit_pid": None},
]
RULES = [{}, {"obligations": None}, {"obligations": []}, {"obligations": OBL}, {"obligations": "ab"}, {"obligations": {"k": 1}},
         {"obligations": [1, None, OBL[0]]}]
GRID = {
    # fragment: (explicit axes by variable name, state vectors or None)
    "evaluate_step": ({"rule": RULES, "rid": ["r1", "", None], "algo": ALGOS4, "effect": ["permit", "deny", "other"]}, STATE_EVALUATE),
    "evaluate_final": ({"algo": ALGOS4, "any_deny": [False, True], "any_permit": [False, True], "deny_rule_id": [None, "d"],
                        "permit_rule_id": [None, ""], "permit_obligations": [[], OBL], "last_rule_id": [None, "", "l"],
                        "decision": ["deny", "permit"], "reason": ["no_match", "matched"], "obligations": [[], OBL]}, None),
    "decide_step": ({"res": _res_pool(), "algo": ALGOS4, "pid": [None, "pol"]}, STATE_DECIDE),
    "decide_final": ({"algo": ALGOS4, "any_deny": [False, True], "any_permit": [False, True], "first_applicable_result": [None, P1, P3],
                      "first_applicable_pid": ["pf"], "deny_result": [None, D1, D2], "deny_pid": ["pd"],
                      "permit_result": [None, P1, P2, P3], "permit_pid": ["pp"], "last_rule_id": [None, "l"]}, None),
}
MAX_PER_FRAGMENT = 8000


def fragment_grid(name: str, inputs: list[str], r: random.Random):
    """every combination of the axes (× the state vectors) as argument lists in the order `inputs`; variables that are neither an
    axis nor in the state vectors range over DEFAULT_POOL; sampled down (seeded) beyond MAX_PER_FRAGMENT"""
    axes, states = GRID.get(name, ({}, None))
    states = states or [{}]
    free_axes = [v for v in inputs if v not in states[0]]
    pools = [axes.get(v, DEFAULT_POOL) for v in free_axes]
    total = len(states)
    for pl in pools:
        total *= len(pl)
    combos = itertools.product(states, *pools)
    if total > MAX_PER_FRAGMENT:
        keep = set(r.sample(range(total), MAX_PER_FRAGMENT))
        combos = (c for i, c in enumerate(combos) if i in keep)
    for st, *vals in combos:
        env = dict(st)
        env.update(zip(free_axes, vals))
        yield [env.get(v) for v in inputs]


def translated_vs_python(run: lib.Run, facts: dict | None = None) -> tuple[bool, str]:
    """each translated fragment (Generated.Src.*, evaluated by `lake env lean --run Rbacx/Run/SrcEvalFrag.lean`) against the SAME
    statement range of the current source text, wrapped into a Python function and run by CPython, over an exhaustive grid of small
    inputs: validates the translator's fragment mode and Model/PyLib.lean (what the obligation C02_translated trusts)"""
    import copy
    import json
    import subprocess
    import pytolean
    from extractors import src_translation_fragments as frs
    r = random.Random(run.seed * 223 + 9)
    mods = {"src/rbacx/core/policy.py": rpolicy, "src/rbacx/core/policyset.py": rset}
    calls = []
    for rel, fn, kind, start, lean_name, _known in frs.FRAGMENTS:
        mod = mods[rel]
        src = open(mod.__file__, encoding="utf-8").read()
        try:
            pyf, inputs, _outs = pytolean.fragment_as_python(src, fn, kind, start, vars(mod))
        except pytolean.Unsupported as e:
            return False, f"fragment {lean_name}: {e}"
        if facts is not None and inputs != facts[lean_name]["inputs"]:
            return False, f"fragment {lean_name}: inputs of the imported module {inputs} differ from the extracted ones {facts[lean_name]['inputs']}"
        for args in fragment_grid(lean_name, inputs, r):
            try:
                want = ("ok", pyf(*copy.deepcopy(args)))
            except Exception as e:  # noqa: BLE001
                want = ("raised", type(e).__name__)
            calls.append((lean_name, args, want))
    lines = [json.dumps({"fn": fn, "args": [proto.enc(a) for a in args]}) for fn, args, _ in calls]
    p = subprocess.run(["lake", "env", "lean", "--run", "Rbacx/Run/SrcEvalFrag.lean"], cwd=lib.LEAN, input="\n".join(lines) + "\n",
                       capture_output=True, text=True, timeout=900)
    outs = [ln for ln in p.stdout.split("\n") if ln]
    if p.returncode != 0 or len(outs) != len(lines):
        return False, "SrcEvalFrag: " + (p.stderr or p.stdout)[-800:]
    bad = 0
    for (fn, args, want), ln in zip(calls, outs):
        got = json.loads(ln)
        run.count("translated-fragment")
        if want[0] != "ok":
            run.count("translated-fragment: python raised (not judged)")
            continue          # CPython raised (an argument outside the fragment's domain, e.g. list(5)): not judged
        if "value" not in got or got["value"] != proto.enc(want[1]):
            bad += 1
            if bad == 1:
                run.disagreements.append({"label": f"fragment {fn}", "part": "translated source vs python", "policy": None, "env": None,
                                          "impl": {"python": repr(want[1])[:600]}, "model": got, "fragment": fn, "args": repr(args)[:800],
                                          "what": f"the translated fragment {fn} (Generated.Src) and the same statements run by CPython differ"})
    run.evaluations += len(calls)
    return bad == 0, f"{bad} of {len(calls)} evaluations differ" if bad else f"agree on {len(calls)} evaluations"


# ---------------------------------------------------------------------- the evaluators translated whole vs the real functions

MALFORMED_POLICIES = [
    # rules not a list / absent / falsy
    {"rules": "abc"}, {"rules": {"a": 1}}, {"rules": 5}, {"rules": None}, {}, {"rules": []}, {"rules": 0}, {"rules": True},
    {"algorithm": "first-applicable", "rules": "abc"}, {"algorithm": "no-such", "rules": 7},
    # a rule that is not a dict (reached / not reached because an earlier rule broke the loop)
    {"rules": [5]}, {"rules": ["x"]}, {"rules": [None]}, {"rules": [[1, 2]]}, {"rules": [True]},
    {"algorithm": "first-applicable", "rules": [template("permit", 0), 5]}, {"algorithm": "deny-overrides", "rules": [template("permit", 0), 5]},
    {"algorithm": "deny-overrides", "rules": [template("deny", 0), "x"]}, {"algorithm": "permit-overrides", "rules": [template("action", 0), None]},
    # algorithm / effect / obligations / actions / resource that are not what the schema says
    {"algorithm": 5, "rules": []}, {"algorithm": ["x"], "rules": []}, {"algorithm": {"a": 1}, "rules": []}, {"algorithm": None, "rules": [template("deny", 0)]},
    {"algorithm": "", "rules": [template("permit", 0)]}, {"algorithm": True, "rules": []}, {"algorithm": "DENY-Overrides", "rules": [template("permit", 0), template("deny", 1)]},
    {"algorithm": "First-Applicable", "rules": [template("permit", 0), template("deny", 1)]},
    {"rules": [dict(template("permit", 0), effect=5)]}, {"rules": [dict(template("permit", 0), effect=None)]}, {"rules": [dict(template("permit", 0), effect="DENY")]},
    {"rules": [dict(template("permit", 0), effect="")]}, {"rules": [dict(template("permit", 0), effect=["deny"])]}, {"rules": [dict(template("action", 0), effect=5)]},
    {"rules": [dict(template("permit", 0), obligations="ab")]}, {"rules": [dict(template("permit", 0), obligations={"k": 1})]},
    {"rules": [dict(template("permit", 0), obligations=[{"type": "require_mfa"}])]}, {"rules": [dict(template("deny", 0), obligations=None)]},
    {"rules": [dict(template("permit", 0), actions="read")]}, {"rules": [dict(template("permit", 0), actions=5)]}, {"rules": [dict(template("permit", 0), actions={"read": 1})]},
    {"rules": [dict(template("permit", 0), resource=5)]}, {"rules": [dict(template("permit", 0), resource="doc")]}, {"rules": [dict(template("permit", 0), resource=None)]},
    {"rules": [dict(template("permit", 0), id=None)]}, {"rules": [dict(template("permit", 0), id=0)]}, {"rules": [dict(template("permit", 0), id=["a"])]},
    {"rules": [dict(template("permit", 0), condition={"and": 5})]}, {"rules": [dict(template("permit", 0), condition={"==": [1]})]},
    {"rules": [dict(template("permit", 0), condition={"==": 5})]}, {"rules": [dict(template("permit", 0), condition={"not": {"<": [1, "a"]}})]},
    {"rules": [dict(template("permit", 0), condition={"rel": "owner"})]}, {"rules": [dict(template("permit", 0), condition={"or": [{"rel": {"relation": "viewer"}}, {"==": [1, 1]}]})]},
    {"rules": [dict(template("permit", 0), condition={"==": [{"attr": "subject.id"}, "u"]})]}, {"rules": [dict(template("permit", 0), condition={"==": [{"attr": "action.zzz"}, None]})]},
    {"rules": [dict(template("permit", 0), condition={"before": ["2024-01-01T00:00:00Z", "2025-01-01T00:00:00Z"]})]},
    {"rules": [dict(template("permit", 0), condition={"before": ["garbage", 5]})]},
]
MALFORMED_SETS = [
    {"policies": "abc"}, {"policies": 5}, {"policies": {"a": 1}}, {"policies": None}, {"policies": []}, {"policies": 0},
    {"algorithm": "first-applicable", "policies": "abc"}, {"algorithm": 5, "policies": []}, {"algorithm": ["x"], "policies": "abc"},
    {"algorithm": "", "policies": [{"id": "p", "rules": [template("permit", 0)]}]}, {"algorithm": "Permit-Overrides", "policies": [{"id": "p", "rules": [template("deny", 0)]}, {"id": "q", "rules": [template("permit", 0)]}]},
    # a child that is not a dict (reached / not reached)
    {"policies": [5]}, {"policies": ["x"]}, {"policies": [None]}, {"policies": [[1]]},
    {"algorithm": "first-applicable", "policies": [{"id": "p", "rules": [template("permit", 0)]}, 5]},
    {"algorithm": "deny-overrides", "policies": [{"id": "p", "rules": [template("permit", 0)]}, 5]},
    {"algorithm": "permit-overrides", "policies": [{"id": "p", "rules": [template("permit", 0)]}, "x"]},
    # children that are malformed policies / sets; ids of other shapes; a child without rules
    {"policies": [{"rules": "abc"}]}, {"policies": [{"rules": [5]}]}, {"policies": [{"algorithm": 5, "rules": []}]}, {"policies": [{"policies": "abc"}]},
    {"policies": [{"policies": [5]}]}, {"policies": [{"id": 5, "rules": [template("deny", 0)]}]}, {"policies": [{"id": None, "rules": [template("permit", 0)]}]},
    {"policies": [{"id": ["a"], "rules": [template("permit", 0)]}, {"id": {"k": 1}, "rules": [template("deny", 0)]}]},
    {"policies": [{}]}, {"policies": [{"policies": []}]}, {"policies": [{"id": "in", "algorithm": "first-applicable", "policies": [{"id": "p", "rules": [template("permit", 0)]}]}]},
    {"algorithm": "first-applicable", "policies": [{"id": "in", "algorithm": "first-applicable", "policies": [{"id": "p", "rules": [dict(template("permit", 0), id="")]}]}]},
    {"policies": [{"id": "p", "rules": [dict(template("permit", 0), effect=5)]}]}, {"policies": [{"id": "p", "rules": [dict(template("permit", 0), condition={"and": 5})]}]},
]
ENVS_WHOLE = [ENV, {**ENV, "__strict_types__": True}, {**ENV, "action": None}, {"action": "read"}, {**ENV, "resource": None}, {**ENV, "resource": {}},
              {**ENV, "action": "write"}, {**ENV, "resource": {"type": "file", "id": 2, "attrs": {"k": 1.5}}}, {}]


def whole_cases(run: lib.Run):
    """(function, [document, env] or [policy, env, algorithm], label)"""
    quick = run.tier == "quick"
    for pol, label in enum_policies(3):
        yield "evaluate", [pol, ENV, None], label
    for pol, label in enum_ids(2):
        yield ("decide" if "policies" in pol else "evaluate"), ([pol, ENV] if "policies" in pol else [pol, ENV, None]), label
    for pol, label in enum_literal_conditions():
        yield ("decide" if "policies" in pol else "evaluate"), ([pol, ENV] if "policies" in pol else [pol, ENV, None]), label
    for k, (pol, label) in enumerate(enum_sets(True)):
        if k % (7 if quick else 2) == 0 or label.startswith("nested"):
            yield "decide", [pol, ENV], label
    for pol, label in enum_deep():
        if label.startswith(("deep6|", "deep20|")):
            yield "decide", [pol, ENV], label
    for pol in MALFORMED_POLICIES:
        for env in ENVS_WHOLE:
            yield "evaluate", [pol, env, None], "malformed-policy"
        for alg in ("first-applicable", "Permit-Overrides", "", 5, ["x"], "no-such"):
            yield "evaluate", [pol, ENV, alg], "malformed-policy|algorithm="
    for pol in MALFORMED_SETS:
        for env in ENVS_WHOLE[:4]:
            yield "decide", [pol, env], "malformed-set"
            yield "_decide_single", [pol, env], "malformed-set|single"
    for doc in (5, "x", None, [1], True, 1.5):
        yield "evaluate", [doc, ENV, None], "non-dict-policy"
        yield "evaluate", [doc, ENV, "deny-overrides"], "non-dict-policy|algorithm="
        yield "decide", [doc, ENV], "non-dict-set"
        yield "_decide_single", [doc, ENV], "non-dict-doc|single"
    for env in (None, 5, "x", [1]):
        yield "evaluate", [{"rules": [template("permit", 0)]}, env, None], "non-dict-env"
        yield "evaluate", [{"rules": []}, env, None], "non-dict-env|no rules"
        yield "decide", [{"policies": [{"id": "p", "rules": [template("permit", 0)]}]}, env], "non-dict-env|set"
    r = random.Random(run.seed * 6007 + 2)
    for i in range((250 if quick else 2500) * run.boost):
        if r.random() < 0.5:
            pol = gen.gen_policy(r, algo="explicit" if r.random() < 0.9 else "any")
        else:
            pol = gen.gen_policyset(r, depth=3, schema_valid=r.random() < 0.4)
        env = env_of(gen.gen_request(r, pol))
        if r.random() < 0.3:
            env["__strict_types__"] = True
        yield ("decide" if "policies" in pol else "evaluate"), ([pol, env] if "policies" in pol else [pol, env, None]), f"random-whole#{i}"


def translated_whole_vs_python(run: lib.Run, facts: dict | None = None) -> tuple[bool, str]:
    """the reference evaluators TRANSLATED WHOLE (Generated.Src.evaluate / decide / decide_single, exception-passing style, evaluated by
    `lake env lean --run Rbacx/Run/SrcEvalEvaluators.lean` with the budget the obligation C02_whole proves sufficient) against the REAL
    `policy.evaluate` / `policyset.decide` / `_decide_single` on the same arguments: the returned dict — key order included for
    `evaluate`, field by field for `decide` — or WHICH exception.  The externals of the translated `eval_condition` get their values
    from the real Python per input line (`getattr` / `_parse_dt` recorded while the real function runs, `rel_branch` = the real
    `eval_condition` on every sub-condition with a `rel` key), as in props/c04.py.  Domain: `env["resource"]` is a dict or falsy
    (`match_resource` is called as the total translation of C05, which answers where CPython's `resource.get` raises).
    Validates the whole-function reading of harness/pytolean_except.py and Model/PyExcept.lean — what C02_whole trusts."""
    import builtins
    import copy
    import json
    import subprocess
    from props import c04
    rec = c04._ExtRecorder()
    real_parse = rpolicy._parse_dt
    fns = {"evaluate": lambda a: rpolicy.evaluate(a[0], a[1], algorithm=a[2]), "decide": lambda a: rset.decide(a[0], a[1]),
           "_decide_single": lambda a: rset._decide_single(a[0], a[1])}

    def rec_getattr(obj, name, *default):
        return rec.note("getattr", [obj, name, *default], lambda: builtins.getattr(obj, name, *default))

    def rec_parse(x, strict=None):
        return rec.note("_parse_dt", [x, strict], lambda: real_parse(x, strict=strict))

    calls, skipped = [], 0
    rpolicy.getattr = rec_getattr          # a module global shadows the builtin for the functions of rbacx.core.policy
    rpolicy._parse_dt = rec_parse
    try:
        for fn, args, label in whole_cases(run):
            rec.rows, rec.bad = {"getattr": {}, "_parse_dt": {}}, False
            want = c04._outcome(lambda: fns[fn](copy.deepcopy(args)))
            subs: list = []
            c04._rel_subconds(args[0], subs)
            relrows: dict = {}
            try:
                for sc in subs:
                    key = [proto.enc(sc), proto.enc(args[1])]
                    relrows.setdefault(json.dumps(key[0]), [key, c04._outcome(lambda: rpolicy.eval_condition(copy.deepcopy(sc), copy.deepcopy(args[1])))])
                eargs = [proto.enc(a) for a in args]
            except TypeError:
                skipped += 1
                continue
            if want is None or rec.bad or any(r_[1] is None for r_ in relrows.values()):
                skipped += 1      # a value outside the value universe (e.g. getattr found a method of a builtin value: DESIGN §2.1 ii)
                continue
            ext = {"getattr": list(rec.rows["getattr"].values()), "_parse_dt": list(rec.rows["_parse_dt"].values()), "rel_branch": list(relrows.values())}
            calls.append((fn, eargs, want, ext, label, args))
    finally:
        del rpolicy.getattr
        rpolicy._parse_dt = real_parse
    lines = [json.dumps({"fn": fn, "args": eargs, "oracle": proto.build_oracle(*raw), "ext": ext}) for fn, eargs, _w, ext, _l, raw in calls]
    p = subprocess.run(["lake", "env", "lean", "--run", "Rbacx/Run/SrcEvalEvaluators.lean"], cwd=lib.LEAN, input="\n".join(lines) + "\n",
                       capture_output=True, text=True, timeout=1500)
    outs = [ln for ln in p.stdout.split("\n") if ln]
    if p.returncode != 0 or len(outs) != len(lines):
        return False, "SrcEvalEvaluators: " + (p.stderr or p.stdout)[-800:]

    def fields(res):
        if isinstance(res, dict) and "ok" in res and isinstance(res["ok"], list) and res["ok"][:1] == ["o"]:
            return {"ok-fields": sorted(json.dumps(kv) for kv in res["ok"][1])}
        return res
    bad = 0
    for (fn, _eargs, want, _ext, label, raw), ln in zip(calls, outs):
        got = json.loads(ln)
        run.count("translated-evaluators")
        run.count(f"translated-evaluators: {fn} -> " + (want["err"] if "err" in want else "dict"))
        same = got == want if fn == "evaluate" else fields(got) == fields(want)
        if same and fn != "evaluate" and got == want and "ok" in want:
            run.count("translated-evaluators: decide, same key order too")
        if not same:
            bad += 1
            if bad == 1:
                run.disagreements.append({"part": "translated source vs python", "function": fn, "label": label, "args": copy.deepcopy(raw),
                                          "policy": None, "env": None, "impl": {"python": want}, "model": got,
                                          "what": f"the whole-function translation of {fn} (Generated.Src, exception-passing style) and the real function differ"})
    run.evaluations += len(calls)
    if skipped:
        run.count("translated-evaluators: skipped (value outside the value universe)", skipped)
    return bad == 0, f"{bad} of {len(calls)} evaluations differ" if bad else f"agree on {len(calls)} evaluations"


def shrink(case: dict) -> dict:
    """drop rules / children while the implementation still contradicts the spec"""
    def fails(pol):
        out = impl(pol, case["env"])
        cmd = {"cmd": "c02", "policy": proto.enc(pol), "env": proto.enc(case["env"]), "consts": case["consts"],
               "oracle": proto.build_oracle(pol, case["env"])}
        spec = proto.run_driver([cmd])[0]["spec"]
        if spec is None:
            return False
        if "raised" in out:
            return True
        return out["ok"]["decision"] != spec["decision"] or (spec["applicable"] and out["ok"]["policy_id"] != spec["policy_id"])
    pol = case["policy"]
    key = "policies" if "policies" in pol else "rules"
    items = lib.shrink_list(pol.get(key) or [], lambda xs: fails({**pol, key: xs}), budget=60)
    return {**case, "policy": {**pol, key: items}}


def check(run: lib.Run, audit: dict) -> int:
    run.rule = ("exhaustive: every outcome sequence (6 classes) of length ≤4 (quick) / ≤6 (thorough) × 3 algorithms, every set of "
                "≤2/≤3 children from a policy pool × 3 algorithms + one level of nesting; deciding policies wrapped in 6…90 nested sets; random: schema-grammar policies/sets "
                "(nested, with ids) with requests generated towards them; rules with literal (non-dict) conditions; the four translated fragments of evaluate/decide vs the same statements "
                "run by CPython on a grid of 4 algorithms × effects/decisions × id shapes × obligations shapes × loop states; the evaluators translated "
                "whole vs the real evaluate/decide on the exhaustive enumerations (length ≤3, ids ≤2, a slice of the sets, nesting depth ≤20), on malformed "
                "documents (rules/policies not a list, a rule/child that is not a dict, algorithm/effect not a string) and a random sample. "
                "non-trivial = some rule applied (reason matched/explicit_deny)")
    run.exhaustive = True
    run.assumptions = ["rules are JSON objects; effect/algorithm are strings (schema)",
                       "attribute-path segments do not name Python attributes of builtin values (DESIGN §2.1 ii)"]
    if not audit["ok"]:
        raise lib.CheckError(f"Lean build/audit failed at {audit['stage']}: {audit.get('log') or audit.get('forbidden') or audit.get('bad_axioms')}")
    # the combining logic as it is written NOW, translated into Lean, is proved equal to the model's (per-run obligation)
    fr = audit["facts"].get("translated_fragments")
    untranslatable = isinstance(fr, dict) and "extraction_failed" in fr
    ok_tr, detail_tr = lib.run_obligation("C02_translated")
    run.obligation("C02_translated: Generated.Src.{evaluate_step,evaluate_final,decide_step,decide_final} (the current source text of the "
                   "loop tails and finalisations of policy.evaluate / policyset.decide) = stepRule/finalise/stepChild/finaliseSet of the model, "
                   "for every input", ok_tr, "discharged" if ok_tr else (str(fr["extraction_failed"]) if untranslatable else detail_tr))
    if untranslatable or not isinstance(fr, dict):
        ok_py, detail_py = True, "skipped: the fragments are not in the translatable subset (see C02_translated)"
    else:
        ok_py, detail_py = translated_vs_python(run, fr)
    run.obligation("translated fragments evaluate like the same statements run by CPython (translator + Model/PyLib.lean vs CPython)", ok_py, detail_py)
    # the two evaluators as WHOLES, translated in exception-passing style, compute the model's evaluate / decideTree (per-run obligation;
    # it uses the theorems of the obligations about the functions the evaluators call: match_actions, eval_condition, match_resource)
    ev = audit["facts"].get("translated_evaluators")
    untranslatable_w = isinstance(ev, dict) and "extraction_failed" in ev
    ok_w, detail_w = lib.run_obligation("C02_whole", deps=["C03_translated", "C04_translated", "C05_translated"])
    run.obligation("C02_whole: Generated.Src.evaluate (the whole of policy.evaluate as the source has it now: default algorithm, initial values, "
                   "rule loop with its head — id, action/resource tests, try/except ConditionTypeError around eval_condition, lowered effect — and "
                   "finalisation) = the model's evaluate through encRaw; Generated.Src.decide / decide_single (the whole of policyset.decide / "
                   "_decide_single, recursive dispatch included) return a dict that Represents decideTree of the document's tree — for every "
                   "well-formed document (every policy, set and rule a dict), every dict env, every oracle and checker, any budget above the size",
                   ok_w, "discharged" if ok_w else (str(ev["extraction_failed"]) if untranslatable_w else detail_w))
    if untranslatable_w or not isinstance(ev, dict):
        ok_pw, detail_pw = True, "skipped: the evaluators are not in the translatable subset (see C02_whole)"
    else:
        ok_pw, detail_pw = translated_whole_vs_python(run, ev)
    run.obligation("the evaluators translated whole evaluate like the real evaluate / decide, dict or exception class (translator + Model/PyExcept.lean vs CPython)",
                   ok_pw, detail_pw)
    frag_ok = ok_tr
    ok_tr = ok_tr and ok_w
    detail_py = detail_py if not ok_py else detail_pw
    ok_py = ok_py and ok_pw
    run_cases(run, audit, scale=run.boost * (1 if ok_tr else 2))
    edited_in_place(run)
    overlapping_sets(run)
    violations = []
    consts = audit["facts"]["consts"]
    if (run.disagreements or not ok_tr) and not run.spec_failures:
        run_cases(run, audit, scale=5)  # correspondence or the translation tie broke: widen the search for a failing input
    if run.spec_failures:
        first = next((f for f in run.spec_failures if f.get("part") not in ("edited in place", "overlapping sets")), None)
        c = shrink({**first, "consts": consts}) if first is not None else run.spec_failures[0]
        path = run.write_replay("spec", {"what": "implementation output contradicts the combining spec (Rbacx.Spec.tree)" if first is not None else
                                         ("the evaluators' result for a document depends on an earlier evaluation of the same (since edited) object" if run.spec_failures[0].get("part") == "edited in place"
                                          else "the evaluators' result depends on another evaluation running at the same time"), "case": c,
                                         "more": len(run.spec_failures) - 1})
        violations.append((path, True))
    elif not ok_tr:
        which = "Rbacx/Run/C02_translated.lean" if not frag_ok else "Rbacx/Run/C02_whole.lean"
        path = run.write_replay("obligation", {"what": f"per-run obligation {which} no longer checks: the translated source of " +
                                               ("the loop tails / finalisations of policy.evaluate and policyset.decide is not proved equal to the model "
                                                "functions (stepRule, finalise, stepChild, finaliseSet)" if not frag_ok else
                                                "policy.evaluate / policyset.decide as wholes is not proved to compute the model's evaluate / decideTree") +
                                               " that theorems Rbacx.C02.* are about; the widened "
                                               "search found no input on which the implementation contradicts the combining spec",
                                               "translation": fr if not frag_ok else {k: (v if not isinstance(v, dict) else {kk: vv for kk, vv in v.items() if kk != "lean"})
                                                                                      for k, v in ev.items()} if isinstance(ev, dict) else ev,
                                               "lean": (detail_tr if not frag_ok else detail_w)[-1500:], "first_disagreement": run.disagreements[:1]})
        violations.append((path, False))
    elif run.disagreements or not ok_py:
        first = run.disagreements[0] if run.disagreements else {"part": "translated source vs python", "what": detail_py, "policy": None}
        what = ("translated source vs python: " + str(first.get("what")) + "; the obligation C02_translated / C02_whole rests on a translation that "
                "CPython contradicts (or that could not be evaluated)" if first.get("part") else
                "model (Rbacx.decideTree/evaluate) and implementation disagree on (decision, policy_id); theorems Rbacx.C02.* no longer speak about this code")
        path = run.write_replay("correspondence", {"what": what, "first": first, "count": len(run.disagreements)})
        violations.append((path, False))
    return run.finish(audit, violations)


def replay(run: lib.Run, audit: dict, path: str) -> int:
    import json
    rp = json.load(open(path))
    c = rp.get("case") or rp.get("first")
    if not c or c.get("policy") is None:
        print("nothing to re-run on the implementation:", rp.get("what"))
        print("recorded:", c or rp.get("lean"))
        return 0
    if c.get("part") == "edited in place":
        before = len(run.spec_failures)
        edited_in_place(run)
        now = run.spec_failures[before:]
        print("now:", json.dumps(now[0], default=str)[:1500] if now else "every edited document is evaluated as it stands")
        print("recorded:", json.dumps(c, default=str)[:1500])
        return 1 if now else 0
    if c.get("part") == "overlapping sets":
        before = len(run.spec_failures)
        overlapping_sets(run)
        now = run.spec_failures[before:]
        print("now:", json.dumps(now[0], default=str)[:1500] if now else "overlapping evaluations of a nested set tree each get the documented combination")
        print("recorded:", json.dumps(c, default=str)[:1500])
        return 1 if now else 0
    out = impl(c["policy"], c["env"])
    print("impl:", out)
    print("recorded:", c.get("impl"), c.get("spec") or c.get("model"))
    return 0
