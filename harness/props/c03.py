"""C03 — compiled path = reference semantics on the most specific matching tier.

Tie: `Guard.evaluate_sync` and `compiler.compile(p)(env)` against the model (`compiledDecide`);
the statement (`Rbacx.Spec.c03`: decision = reference evaluation of the policy restricted to the
most specific tier holding a target-matching rule, tiers from declared shape, document order) is
evaluated by the Lean driver on the implementation's decision; plus the consequence: inserting a
rule whose action or target does not match never changes the decision (metamorphic, on the real code)."""
from __future__ import annotations

import itertools
import random

import gen
import guardcases as gc
import lib
import proto
import real

ACTS = [["read"], ["write"], ["*"], ["read", "*"]]
TYPES = ["doc", "file", ["doc", "file"], "*"]
IDS = ["1", "2", None, "*"]
ATTRS = [{"level": 1}, {"level": 2}, None]
REQS = [
    {"sid": "u", "roles": [], "sattrs": {}, "action": "read", "rtype": "doc", "rid": "1", "rattrs": {"level": 1}, "ctx": {}},
    {"sid": "u", "roles": [], "sattrs": {}, "action": "write", "rtype": "file", "rid": "2", "rattrs": {}, "ctx": {}},
    {"sid": "u", "roles": [], "sattrs": {}, "action": "read", "rtype": "img", "rid": None, "rattrs": {"level": 2}, "ctx": {}},
]


def shape(a, t, i, at, eff, n):
    rd = {"type": t}
    if i is not None:
        rd["id"] = i
    if at is not None:
        rd["attrs"] = at
    return {"id": f"r{n}", "effect": eff, "actions": a, "resource": rd}


def enum_cases(quick: bool):
    shapes = [(a, t, i, at, e) for a in ACTS for t in TYPES for i in IDS for at in ATTRS for e in ("permit", "deny")]
    for sh in shapes:
        for algo in gen.ALGOS:
            for req in REQS:
                yield {"algorithm": algo, "rules": [shape(*sh, 0)]}, req, {"strict": False}
    red = shapes[::11] if quick else shapes[::5]   # 11 and 5 are coprime to every radix of `shapes`: all effects/ids/attrs occur
    for s1, s2 in itertools.product(red, repeat=2):
        for algo in gen.ALGOS:
            for req in REQS[:2]:
                yield {"algorithm": algo, "rules": [shape(*s1, 0), shape(*s2, 1)]}, req, {"strict": False}
    yield from tier_cases(quick)
    yield from coercion_cases()
    r = random.Random(3)
    for _ in range(400 if quick else 4000):
        k = r.randrange(3, 5)
        yield ({"algorithm": gen.choice(r, gen.ALGOS), "rules": [shape(*gen.choice(r, shapes), n) for n in range(k)]},
               gen.choice(r, REQS), {"strict": r.random() < 0.3})


TIER_TARGETS = [{"type": "doc", "id": "1"}, {"type": ["doc", "file"], "attrs": {"level": 1}}, {"type": "doc"}, {"type": "*"}]
VARIANTS = [(e, c) for e in ("permit", "deny") for c in (None, True, False, {"<": [{"attr": "context.n"}, "x"]},
                                                          {"before": ["2024-01-01T00:00:00Z", "2025-01-01T00:00:00Z"]})]   # literal-only, mode-sensitive


def tier_cases(quick: bool):
    """every sequence of ≤3 (quick: ≤2, plus a third of the triples) rules INSIDE one tier — all four tiers — over
    {permit, deny} × {no condition, true, false, ill-typed} × 3 algorithms, optionally preceded by a more specific rule
    that targets another resource: what decides is the whole tier in document order, not its first target-matching rule."""
    req = REQS[0]
    other = {"id": "other", "effect": "deny", "actions": ["read"], "resource": {"type": "doc", "id": "zzz"}}
    for ti, tgt in enumerate(TIER_TARGETS):
        for n in (1, 2, 3):
            for k, vs in enumerate(itertools.product(VARIANTS, repeat=n)):
                if quick and n == 3 and (k + ti) % 5:
                    continue
                rules = []
                for j, (e, c) in enumerate(vs):
                    rule = {"id": f"t{j}", "effect": e, "actions": ["read"] if j % 2 == 0 else ["*"], "resource": dict(tgt)}
                    if c is not None:
                        rule["condition"] = c
                    rules.append(rule)
                for ai, algo in enumerate(gen.ALGOS):
                    yield {"algorithm": algo, "rules": rules}, req, {"strict": (k + ai) % 4 == 0}
                    if ti > 0 and n == 2:
                        yield {"algorithm": algo, "rules": [rules[0], other, rules[1]]}, req, {"strict": False}
                    if n >= 2 and (k + ai) % 3 == 0:
                        # rules that share an id / have a falsy or no id: an id never identifies a rule inside the compiled form
                        for rid in ("t", "", None):
                            same = [{kk: vv for kk, vv in ru.items() if kk != "id"} | ({} if rid is None else {"id": rid}) for ru in rules]
                            yield {"algorithm": algo, "rules": same}, req, {"strict": False}


def coercion_cases():
    """the type pre-filter works on str(type) while the matcher (strict mode) does not: a rule the pre-filter lets through but the
    matcher rejects (request type 1 vs rule type "1", a type list holding a non-string) must not make its tier eligible."""
    base = {"sid": "u", "roles": [], "sattrs": {}, "action": "read", "rid": "1", "rattrs": {"level": 1}, "ctx": {}}
    for rt in ("1", ["doc", 7], ["1", "doc"], 1, ["doc", "*"], ["*", "1"]):
        for extra in ({}, {"id": "1"}, {"attrs": {"level": 1}}, {"id": 1}, {"attrs": {"level": "1"}}):
            for e1, e2 in (("deny", "permit"), ("permit", "deny")):
                rules = [{"id": "spec", "effect": e1, "actions": ["read"], "resource": {"type": rt, **extra}},
                         {"id": "wild", "effect": e2, "actions": ["*"], "resource": {"type": "*"}},
                         {"id": "typed", "effect": e2, "actions": ["read"], "resource": {"type": "doc"}}]
                for algo in gen.ALGOS:
                    for qt in (1, "1", 7, "doc", None):
                        for strict in (False, True):
                            for k in (2, 3):
                                yield {"algorithm": algo, "rules": rules[:k]}, {**base, "rtype": qt}, {"strict": strict}


def session_cases(seed: int, n: int):
    """one compiled decision function, several requests that agree on (action, type, id) but differ in the resource
    attributes / differ in the id only / repeat: the answer to a request may not depend on the requests before it."""
    r = random.Random(seed)
    shapes = [(a, t, i, at, e) for a in ACTS for t in TYPES for i in IDS for at in ATTRS for e in ("permit", "deny")]
    for _ in range(n):
        k = r.randrange(2, 5)
        pol = {"algorithm": gen.choice(r, gen.ALGOS), "rules": [shape(*gen.choice(r, shapes), j) for j in range(k)]}
        base = dict(gen.choice(r, REQS[:2]))
        reqs = []
        for _ in range(r.randrange(2, 5)):
            q = dict(base)
            m = r.random()
            if m < 0.5:
                q["rattrs"] = gen.choice(r, [{"level": 1}, {"level": 2}, {}, {"level": "1"}])
            elif m < 0.7:
                q["rid"] = gen.choice(r, ["1", "2", None, 1])
            elif m < 0.8:
                q["rtype"] = gen.choice(r, ["doc", "file", "img"])
            elif m < 0.9:
                q["action"] = gen.choice(r, ["read", "write"])
            reqs.append(q)
        yield pol, {"strict": r.random() < 0.3}, reqs
    for _ in range(n // 2):
        pol = gen.gen_policy(r, False, False, algo="explicit")
        reqs = [gen.gen_request(r, pol) for _ in range(3)]
        q = dict(reqs[0]); q["rattrs"] = {k: gen.choice(r, gen.NEAR_DUP) for k in q["rattrs"]}
        reqs.append(q)
        q2 = dict(reqs[1]); q2["ctx"] = dict(reqs[2].get("ctx") or {})
        reqs.append(q2)
        reqs.append(reqs[0])
        yield pol, {"strict": r.random() < 0.3}, reqs


def big_child_sets(seed: int, n: int):
    """policy sets whose children are LONG (8–14 rules spanning several tiers): a set is decided by the reference evaluation of every
    child — all its matching rules combine, not only its most specific tier — however many rules the child has"""
    r = random.Random(seed)
    shapes = [(a, t, i, at, e) for a in ACTS for t in TYPES for i in IDS for at in ATTRS for e in ("permit", "deny")]
    for _ in range(n):
        kids = []
        for j in range(r.randrange(1, 3)):
            k = r.randrange(8, 15)
            rules = [shape(*gen.choice(r, shapes), i) for i in range(k)]
            # make sure two tiers disagree: an id-specific rule and a type-only rule of opposite effects
            e = gen.choice(r, ["permit", "deny"])
            rules[r.randrange(k)] = {"id": f"s{j}", "effect": e, "actions": ["read"], "resource": {"type": "doc", "id": "1"}}
            rules[r.randrange(k)] = {"id": f"t{j}", "effect": "deny" if e == "permit" else "permit", "actions": ["read"], "resource": {"type": "doc"}}
            kids.append({"id": f"child{j}", "algorithm": gen.choice(r, gen.ALGOS), "rules": rules})
        yield {"algorithm": gen.choice(r, gen.ALGOS), "policies": kids}, dict(gen.choice(r, REQS)), {"strict": r.random() < 0.2}


def republish_cases(seed: int, n: int):
    """one engine, two or three documents published one after the other (set_policy / update_policy), requests after each: the
    compiled form in use is the one of the document in force — also when neither document can be fingerprinted (json.dumps
    refuses a value in it), and also when the same document comes back"""
    r = random.Random(seed)
    shapes = [(a, t, i, at, e) for a in ACTS for t in TYPES for i in IDS for at in ATTRS for e in ("permit", "deny")]
    for k in range(n):
        pols = [{"algorithm": gen.choice(r, gen.ALGOS), "rules": [shape(*gen.choice(r, shapes), j) for j in range(r.randrange(1, 4))]}
                for _ in range(r.randrange(2, 4))]
        if r.random() < 0.3:
            pols.append(pols[0])
        base = dict(gen.choice(r, REQS[:2]))
        reqs: list = []
        for pi, pol in enumerate(pols):
            if pi:
                reqs.append({"__publish__": pol, "alias": r.random() < 0.5})
            for _ in range(r.randrange(1, 3)):
                q = dict(base)
                if r.random() < 0.5:
                    q["rattrs"] = gen.choice(r, [{"level": 1}, {"level": 2}, {}])
                reqs.append(q)
        yield pols[0], {"strict": r.random() < 0.2, "unserialisable": k % 2 == 0}, reqs


def overlap_check(run: lib.Run, n: int) -> None:
    """two decisions overlapping on ONE compiled function: while decision A is in progress — at every call it makes to the matcher
    and right before it hands its selected rules to the evaluator — decision B (another request) runs to completion on the same
    function; both must return what they return on their own.  (The engine runs each evaluation in a worker thread on the shared
    compiled function; running B inside A's call is the same interleaving, made deterministic.)"""
    from rbacx.core import compiler as rcompiler
    r = random.Random(run.seed * 101 + 77)
    shapes = [(a, t, i, at, e) for a in ACTS for t in TYPES for i in IDS for at in ATTRS for e in ("permit", "deny")]

    def env_of(q):
        return {"subject": {"id": q["sid"], "roles": [], "attrs": {}}, "action": q["action"],
                "resource": {"type": q["rtype"], "id": q["rid"], "attrs": dict(q["rattrs"])}, "context": {}}
    proj = lambda d: (d.get("decision"), d.get("rule_id") or d.get("last_rule_id"))  # noqa: E731
    for _ in range(n):
        pol = {"algorithm": gen.choice(r, gen.ALGOS), "rules": [shape(*gen.choice(r, shapes), j) for j in range(r.randrange(2, 6))]}
        qa, qb = dict(gen.choice(r, REQS)), dict(gen.choice(r, REQS))
        qb["rattrs"] = gen.choice(r, [{"level": 1}, {"level": 2}, {}])
        ea, eb = env_of(qa), env_of(qb)
        alone_a, alone_b = proj(rcompiler.compile(pol)(ea)), proj(rcompiler.compile(pol)(eb))
        fn = rcompiler.compile(pol)
        saved = (rcompiler.match_resource, rcompiler.evaluate_policy)
        # count A's pause points
        calls = [0]

        def counting(orig):
            def w(*a, **k):
                calls[0] += 1
                return orig(*a, **k)
            return w
        rcompiler.match_resource, rcompiler.evaluate_policy = counting(saved[0]), counting(saved[1])
        try:
            fn(ea)
        finally:
            rcompiler.match_resource, rcompiler.evaluate_policy = saved
        total = calls[0]
        for k in range(1, total + 1):
            state = {"n": 0, "inside": False, "b": None}

            def pausing(orig):
                def w(*a, **kw):
                    if not state["inside"]:
                        state["n"] += 1
                        if state["n"] == k:
                            state["inside"] = True
                            try:
                                state["b"] = proj(fn(eb))
                            finally:
                                state["inside"] = False
                    return orig(*a, **kw)
                return w
            rcompiler.match_resource, rcompiler.evaluate_policy = pausing(saved[0]), pausing(saved[1])
            try:
                got_a = proj(fn(ea))
            except Exception as e:  # noqa: BLE001
                got_a = ("raised", type(e).__name__)
            finally:
                rcompiler.match_resource, rcompiler.evaluate_policy = saved
            run.evaluations += 1
            run.count("overlap-on-one-compiled-function")
            if got_a != alone_a or state["b"] != alone_b:
                run.spec_failures.append({"policy": pol, "request": qa, "other_request": qb, "cfg": {"strict": False}, "pause_point": k,
                                          "impl": {"A_overlapped": got_a, "A_alone": alone_a, "B_overlapped": state["b"], "B_alone": alone_b},
                                          "model": None,
                                          "spec": "a decision changed because another decision ran on the same compiled function in the meantime"})
                return


def translated_vs_python(run: lib.Run, n: int) -> tuple[bool, str]:
    """the translated source (Generated.Src.*, evaluated by `lake env lean --run Rbacx/Run/SrcEval.lean`) against the real Python
    functions on the same arguments: validates the translator and Model/PyLib.lean (what the obligation C03_translated trusts)"""
    import json
    import subprocess
    from rbacx.core import compiler as rcompiler, policy as rpolicy, policyset as rset
    r = random.Random(run.seed * 211 + 5)
    types = [None, "doc", "*", "", ["doc", "file"], ["*", "doc"], [], [1, "doc"], ["*"], 1, True, {"a": 1}, ["doc", None, "*", "img"]]
    ids = ["<absent>", None, "1", 1, "", 0, False]
    attrs = ["<absent>", None, {}, {"k": 1}, [], "x", {"a": None}]
    acts = [["read"], ["*"], [], None, "read", ["read", 1, "*"], {"read": 1}, 5, ["write", "read"]]
    calls = []
    for _ in range(n):
        rd = {}
        t, i, a = gen.choice(r, types), gen.choice(r, ids), gen.choice(r, attrs)
        if t is not None or r.random() < 0.5:
            rd["type"] = t
        if i != "<absent>":
            rd["id"] = i
        if a != "<absent>":
            rd["attrs" if r.random() < 0.7 else "attributes"] = a
        rule = {"id": "r", "effect": "permit", "resource": rd if r.random() < 0.9 else gen.choice(r, [None, {}])}
        ac = gen.choice(r, acts)
        if ac is not None or r.random() < 0.5:
            rule["actions"] = ac
        rt = gen.choice(r, [None, "doc", "file", "*", "", "1", "img"])
        action = gen.choice(r, ["read", "write", "*", "", "r", 1, None])
        rtypes = rcompiler._resource_types(rule)

        def call(fn, args, f):
            try:
                calls.append((fn, args, ("ok", f())))
            except Exception as e:  # noqa: BLE001
                calls.append((fn, args, ("raised", type(e).__name__)))
        call("_actions", [rule], lambda: list(rcompiler._actions(rule)))
        call("_resource_types", [rule], lambda: list(rcompiler._resource_types(rule)))
        call("_has_id", [rule], lambda: rcompiler._has_id(rule))
        call("_has_attrs", [rule], lambda: rcompiler._has_attrs(rule))
        call("_type_matches", [list(rtypes), rt], lambda: rcompiler._type_matches(rtypes, rt))
        call("_categorize", [rule, rt], lambda: rcompiler._categorize(rule, rt))
        call("match_actions", [rule, action], lambda: rpolicy.match_actions(rule, action))
        res = {"decision": gen.choice(r, ["permit", "deny"]), "reason": gen.choice(r, ["matched", "explicit_deny", "no_match", "condition_mismatch", ""]),
               "rule_id": gen.choice(r, [None, "r1", "", 5]), "last_rule_id": gen.choice(r, [None, "r2", "", ["x"]]), "policy_id": None, "obligations": []}
        call("_is_applicable", [res], lambda: rset._is_applicable(res))
    lines, wants = [], []
    for fn, args, want in calls:
        wants.append(want)
        lines.append(json.dumps({"fn": fn, "args": [proto.enc(a) for a in args]}))
    p = subprocess.run(["lake", "env", "lean", "--run", "Rbacx/Run/SrcEval.lean"], cwd=lib.LEAN, input="\n".join(lines) + "\n",
                       capture_output=True, text=True, timeout=900)
    outs = [ln for ln in p.stdout.split("\n") if ln]
    if p.returncode != 0 or len(outs) != len(lines):
        return False, (p.stderr or p.stdout)[-800:]
    bad = 0
    for (fn, args, _), want, ln in zip(calls, wants, outs):
        got = json.loads(ln)
        run.count("translated-vs-python")
        if want[0] != "ok":
            continue          # the Python function raised (outside the translated subset's domain): not judged
        if "value" not in got or proto.dec(got["value"]) != want[1]:
            bad += 1
            if bad == 1:
                run.disagreements.append({"policy": None, "request": None, "cfg": None, "impl": {"python": repr(want[1])}, "model": got,
                                          "what": f"translated {fn} (Generated.Src) and the Python function differ", "args": repr(args)[:400]})
    run.evaluations += len(calls)
    return bad == 0, f"{bad} of {len(calls)} calls differ" if bad else "agree"


def env_of(req: dict, cfg: dict | None = None) -> dict:
    env = {"subject": {"id": req["sid"], "roles": list(req["roles"] or []), "attrs": dict(req["sattrs"] or {})},
           "action": req["action"],
           "resource": {"type": req["rtype"], "id": req["rid"], "attrs": dict(req["rattrs"] or {})},
           "context": dict(req.get("ctx") or {})}
    if cfg and cfg.get("strict"):
        env["__strict_types__"] = True
    return env


INDEX_ACTIONS = [["read"], ["*"], ["read", "read"], ["read", "*"], ["*", "read"], ["*", "read", "*", "read"], ["write", "read"], ["write"], [],
                 "read", ["read", 1, None], {"read": 1}, None, 5, ["*", "*"]]


def index_cases():
    """what the action index, the `seen` set and the sort back into document order are there for: rules that list the request's action
    twice, the action and '*', '*' twice, in every order next to rules of the other kind; equal rules at several positions (two equal
    values are two objects); under first-applicable (document order decides) and the overriding algorithms"""
    env = env_of(REQS[0])
    tgts = [{"type": "doc"}, {"type": "doc", "id": "1"}, {"type": "*"}, {"type": "doc", "id": "2"}]
    k = 0
    for a1, a2 in itertools.product(INDEX_ACTIONS[:9], repeat=2):
        for e1, e2 in (("permit", "deny"), ("deny", "permit")):
            for t1, t2 in ((0, 0), (0, 1), (2, 0), (1, 3), (2, 2)):
                k += 1
                rules = [{"id": "a", "effect": e1, "actions": a1, "resource": dict(tgts[t1])}, {"id": "b", "effect": e2, "actions": a2, "resource": dict(tgts[t2])}]
                yield {"algorithm": gen.ALGOS[k % 3], "rules": rules}, env, "index|pair"
    for acts in INDEX_ACTIONS:
        for algo in gen.ALGOS:
            r1 = {"id": "x", "effect": "permit", "actions": acts, "resource": {"type": "doc"}}
            r2 = {"id": "y", "effect": "deny", "actions": ["*"], "resource": {"type": "doc"}}
            yield {"algorithm": algo, "rules": [r1, r2, dict(r1), dict(r2), r1]}, env, "index|equal rules at several positions"
            yield {"algorithm": algo, "rules": [r2, r1]}, env, "index|star first"
    for algo in [None, "", "Permit-Overrides", "FIRST-APPLICABLE", 5, ["x"], "no-such"]:
        for rules in ([], [{"id": "p", "effect": "permit", "actions": ["read"], "resource": {"type": "doc"}},
                           {"id": "d", "effect": "deny", "actions": ["*"], "resource": {"type": "doc"}}]):
            pol = {"rules": rules} if algo is None else {"algorithm": algo, "rules": rules}
            yield pol, env, "index|algorithm absent / not canonical / not a string"
    for action in (None, 1, 1.5, True, "", "*", ["read"]):
        for rt in (None, 1, 2.5, "doc", "", ["doc"]):
            e = {**env, "action": action, "resource": {"type": rt, "id": "1", "attrs": {}}}
            for t in ("doc", "1", "2.5", "*", ["1", "doc"], None):
                rules = [{"id": "n", "effect": "permit", "actions": ["read", "1", "1.5", "True", "None"], "resource": {"type": t}},
                         {"id": "s", "effect": "deny", "actions": ["*"], "resource": {"type": t, "id": "1"}}]
                yield {"algorithm": "first-applicable", "rules": rules}, e, "index|stringified action / type"


def in_domain(pol, env) -> bool:
    """the shapes on which the translation's callees (`Src.actions`, `Src.categorize`, `Src.match_resource`: total translations, `.get` on
    a non-dict answers None) speak about CPython: the items of `rules` and their `resource` are dicts (or falsy), `env["resource"]` too"""
    if not isinstance(pol, dict) or "policies" in pol:
        return True
    rules = pol.get("rules") or []
    if isinstance(rules, (str, dict)):
        return False
    if isinstance(rules, (list, tuple)):
        for ru in rules:
            if not isinstance(ru, dict) or not isinstance(ru.get("resource") or {}, dict):
                return False
    return not isinstance(env, dict) or isinstance(env.get("resource") or {}, dict)


def whole_cases(run: lib.Run):
    """(policy, env, label) for the comparison of the compiler translated whole with the real `compile(policy)(env)`"""
    from props import c02
    quick = run.tier == "quick"
    step = 9 if quick else 2
    for k, (pol, req, cfg) in enumerate(enum_cases(quick)):
        if k % step == 0:
            yield pol, env_of(req, cfg), "enumerated"
    yield from index_cases()
    for pol in c02.MALFORMED_POLICIES:
        for env in c02.ENVS_WHOLE:
            yield pol, env, "malformed-policy"
    for pol in c02.MALFORMED_SETS:
        for env in c02.ENVS_WHOLE[:3]:
            yield pol, env, "malformed-set"
    for doc in (5, "x", None, [1], True, 1.5, "policies", ["policies"]):
        yield doc, c02.ENV, "non-dict-policy"
    for env in (None, 5, "x", [1]):
        yield {"algorithm": "deny-overrides", "rules": [c02.template("permit", 0)]}, env, "non-dict-env"
        yield {"rules": []}, env, "non-dict-env|no rules"
        yield {"policies": [{"id": "p", "rules": [c02.template("permit", 0)]}]}, env, "non-dict-env|set"
    n = (500 if quick else 5000) * run.boost
    for k, (pol, req, cfg) in enumerate(gc.random_cases(run.seed * 7 + 3, n, sets=0.2, algo="explicit", hostile=0.05)):
        yield pol, env_of(req, cfg), f"random#{k}"
    r = random.Random(run.seed * 911 + 4)
    for k in range((150 if quick else 1500) * run.boost):
        pol = gen.gen_policy(r, r.random() < 0.2, False, algo="any")
        req = gen.gen_request(r, pol, r.random() < 0.1)
        for ru in pol.get("rules") or []:
            if isinstance(ru, dict) and r.random() < 0.4:
                ru["actions"] = gen.choice(r, INDEX_ACTIONS[:9]) + ([req["action"]] if isinstance(req["action"], str) and r.random() < 0.5 else [])
        yield pol, env_of(req, {"strict": r.random() < 0.3}), f"random-index#{k}"


def translated_whole_vs_python(run: lib.Run) -> tuple[bool, str]:
    """THE COMPILER TRANSLATED WHOLE (`Generated.Src.compile_decide` = `compile(policy)(env)`: the function and the closure it returns,
    evaluated by `lake env lean --run Rbacx/Run/SrcEvalCompile.lean` with the budget the obligation C03_whole proves sufficient) against
    the REAL `rbacx.core.compiler.compile(policy)(env)` on the same arguments: the returned dict, key order included, or WHICH exception
    — on a slice of the enumerated cases of this check, on policies built to exercise the action index / the `seen` set / the sort
    (an action listed twice, with '*', equal rules at several positions), on malformed documents and on random policies / sets.
    The externals of the translated `eval_condition` get their values from the real Python per input line, as in props/c02.py.
    Not judged (counted): a Python AttributeError on a document with an item of `rules` / a `resource` that is not a dict — the callees
    are the total translations of C03_translated / C05_translated (`in_domain`).  Validates harness/pytolean_closure.py and
    Model/PyIdent.lean (closure inlining, identity = position, in-place operations, the stable sort) — what C03_whole trusts."""
    import builtins
    import copy
    import json
    import subprocess
    from rbacx.core import compiler as rcompiler, policy as rpolicy
    from props import c04
    rec = c04._ExtRecorder()
    real_parse = rpolicy._parse_dt

    def rec_getattr(obj, name, *default):
        return rec.note("getattr", [obj, name, *default], lambda: builtins.getattr(obj, name, *default))

    def rec_parse(x, strict=None):
        return rec.note("_parse_dt", [x, strict], lambda: real_parse(x, strict=strict))

    calls, skipped, outside = [], 0, 0
    rpolicy.getattr = rec_getattr
    rpolicy._parse_dt = rec_parse
    try:
        for pol, env, label in whole_cases(run):
            rec.rows, rec.bad = {"getattr": {}, "_parse_dt": {}}, False
            want = c04._outcome(lambda: rcompiler.compile(copy.deepcopy(pol))(copy.deepcopy(env)))
            if want == {"err": "raised:AttributeError"} and not in_domain(pol, env):
                outside += 1
                continue
            subs: list = []
            c04._rel_subconds(pol, subs)
            relrows: dict = {}
            try:
                for sc in subs:
                    key = [proto.enc(sc), proto.enc(env)]
                    relrows.setdefault(json.dumps(key[0]), [key, c04._outcome(lambda: rpolicy.eval_condition(copy.deepcopy(sc), copy.deepcopy(env)))])
                eargs = [proto.enc(pol), proto.enc(env)]
            except TypeError:
                skipped += 1
                continue
            if want is None or rec.bad or any(r_[1] is None for r_ in relrows.values()):
                skipped += 1
                continue
            ext = {"getattr": list(rec.rows["getattr"].values()), "_parse_dt": list(rec.rows["_parse_dt"].values()), "rel_branch": list(relrows.values())}
            calls.append((eargs, want, ext, label, (pol, env)))
    finally:
        del rpolicy.getattr
        rpolicy._parse_dt = real_parse
    lines = [json.dumps({"fn": "compile_decide", "args": eargs, "oracle": proto.build_oracle(*raw), "ext": ext}) for eargs, _w, ext, _l, raw in calls]
    p = subprocess.run(["lake", "env", "lean", "--run", "Rbacx/Run/SrcEvalCompile.lean"], cwd=lib.LEAN, input="\n".join(lines) + "\n",
                       capture_output=True, text=True, timeout=1500)
    outs = [ln for ln in p.stdout.split("\n") if ln]
    if p.returncode != 0 or len(outs) != len(lines):
        return False, "SrcEvalCompile: " + (p.stderr or p.stdout)[-800:]
    bad = 0
    for (_eargs, want, _ext, label, raw), ln in zip(calls, outs):
        got = json.loads(ln)
        run.count("translated-compiler")
        run.count("translated-compiler: " + label.split("#")[0].split("|")[0] + " -> " + (want["err"] if "err" in want else "dict"))
        if got != want:
            bad += 1
            if bad == 1:
                run.disagreements.append({"part": "translated source vs python", "function": "compile(policy)(env)", "label": label,
                                          "policy": copy.deepcopy(raw[0]), "env": copy.deepcopy(raw[1]), "request": None, "cfg": None,
                                          "impl": {"python": want}, "model": got,
                                          "what": "the whole-function translation of compile + the closure it returns (Generated.Src.compile_decide) "
                                                  "and the real compile(policy)(env) differ"})
    run.evaluations += len(calls)
    if skipped:
        run.count("translated-compiler: skipped (value outside the value universe)", skipped)
    if outside:
        run.count("translated-compiler: not judged (AttributeError on a rule / resource that is not a dict)", outside)
    return bad == 0, f"{bad} of {len(calls)} evaluations differ" if bad else f"agree on {len(calls)} evaluations"


def irrelevant_rule(r: random.Random, req: dict) -> dict:
    """a rule whose action or resource target cannot match the request"""
    k = r.randrange(3)
    rule = {"id": "irrelevant", "effect": gen.choice(r, ["permit", "deny"]), "actions": ["read", "write", "*"],
            "resource": {"type": "*"}}
    if k == 0:
        rule["actions"] = ["no-such-action"]
        rule["resource"] = {"type": req["rtype"] if isinstance(req["rtype"], str) and req["rtype"] else "*", "id": req["rid"]} if req["rid"] is not None else {"type": "*"}
    elif k == 1:
        rule["resource"] = {"type": "no-such-type"}
    else:
        rule["resource"] = {"type": req["rtype"] if isinstance(req["rtype"], str) and req["rtype"] else "*", "id": "no-such-id-xyz"}
    return rule


def run_cases(run: lib.Run, audit: dict, scale: int = 1):
    quick = run.tier == "quick"
    consts = audit["facts"]["consts"]
    cases = list(enum_cases(quick))
    n_enum = len(cases)
    cases += list(gc.random_cases(run.seed * 7 + 3, (2000 if quick else 20000) * scale, sets=0.2, algo="explicit", hostile=0.05))
    cases += list(big_child_sets(run.seed * 23 + 1, (150 if quick else 1500) * scale))
    res = gc.run_batch(cases, consts)
    sess = list(session_cases(run.seed * 13 + 5, (250 if quick else 2500) * scale))
    sess += list(republish_cases(run.seed * 17 + 9, (150 if quick else 1500) * scale))
    sres = gc.run_sessions(sess, consts)
    run.count("session_requests", len(sres))
    res = res + sres
    rr = random.Random(run.seed + 33)
    for i, (pol, req, cfg, out, model, extra) in enumerate(res):
        run.count(gc.outcome_class(out))
        nontrivial = "ok" in out and out["ok"]["reason"] in ("matched", "explicit_deny", "obligation_failed")
        run.case([pol, req, cfg], nontrivial, {"policy": pol, "request": req, "cfg": cfg, "impl": out} if i >= n_enum and nontrivial else None)
        proj = (lambda o: ("raised",) if "raised" in o else (o["ok"]["effect"], o["ok"]["reason"] == "obligation_failed"))
        case = {"policy": pol, "request": req, "cfg": cfg, "impl": out, "model": model}
        if "session" in extra:
            # the answer was given by an engine that had answered other requests / been given other documents before: the whole session
            s0 = sess[extra["session"]]
            case["session"] = {"first_policy": s0[0], "cfg": s0[1], "items": s0[2]}
        if proj(out) != proj(model):
            run.disagreements.append(case)
        if extra.get("hyp_c03"):
            run.count("theorem-hypotheses-hold")
        if extra.get("spec_c03") is False:
            run.spec_failures.append({**case, "spec": "decision differs from the reference evaluation on the most specific matching tier (Rbacx.Spec.c03)"})
        # metamorphic consequence on the real code: an irrelevant rule never changes the decision
        if "rules" in pol and "ok" in out and i % 3 == 0 and "session" not in extra:
            rules = list(pol["rules"])
            rules.insert(rr.randrange(len(rules) + 1), irrelevant_rule(rr, req))
            out2 = real.run_guard({**pol, "rules": rules}, req, cfg)
            run.count("metamorphic")
            if "ok" not in out2 or (out2["ok"]["allowed"], out2["ok"]["effect"]) != (out["ok"]["allowed"], out["ok"]["effect"]):
                run.spec_failures.append({**case, "policy_with_irrelevant_rule": {**pol, "rules": rules}, "impl_with": out2,
                                          "spec": "adding a rule whose action/target does not match changed the decision"})


WHOLE_OBLIGATION = ("C03_whole: Generated.Src.compile_decide (the current source text of compile(policy) + the closure decide(env) it returns: set "
                    "delegation, default algorithm = the literal of the source, action index, seen set, sort, buckets, selection, evaluate) = the model's "
                    "compiledDecide with compilerDefault := that literal (same dict or same exception), for every dict policy whose rules are a list of "
                    "dicts and every dict env, lax and strict; set documents delegate to Src.decide")


def check(run: lib.Run, audit: dict) -> int:
    run.rule = ("exhaustive: every single rule over {4 action lists × 4 types × 3 ids × 3 attrs × 2 effects} × 3 algorithms × 3 requests; all ordered "
                "pairs over a 1/11 (quick) / 1/5 (thorough) subsample; every sequence of ≤3 rules inside each of the four tiers over {permit,deny} × "
                "{no/true/false/ill-typed/literal-only time condition} × 3 algorithms (quick: a fifth of the triples; a quarter in strict mode), also with a more specific rule for another "
                "resource in between; sessions: one Guard answering 2–6 requests that differ in attributes/id only (the compiled function must "
                "be stateless); two decisions overlapping on one compiled function at every matcher/evaluator call of the first; random 3–4-rule policies; random schema-grammar policies with explicit "
                "algorithm and sets; every third case re-run with an inserted irrelevant rule. non-trivial = a rule decided")
    run.exhaustive = True
    run.assumptions = ["single policies carry an explicit algorithm (C03's quantifier); the default-algorithm divergence is C17/F1"]
    if not audit["ok"]:
        raise lib.CheckError(f"Lean build/audit failed at {audit['stage']}: {audit.get('log') or audit.get('forbidden') or audit.get('bad_axioms')}")
    # the compiler's helper functions as they are written NOW, translated into Lean, are proved equal to the model's (per-run obligation)
    tr = audit["facts"].get("translated_source")
    ok_tr, detail_tr = lib.run_obligation("C03_translated")
    run.obligation("C03_translated: Generated.Src.{_actions,_resource_types,_has_id,_has_attrs,_type_matches,_categorize,match_actions,"
                   "_is_applicable} = the model's functions, for every input", ok_tr,
                   "discharged" if ok_tr else (str(tr.get("extraction_failed")) if isinstance(tr, dict) and "extraction_failed" in tr else detail_tr))
    ok_py, detail_py = translated_vs_python(run, 400 if run.tier == "quick" else 4000) if ok_tr else (False, "skipped: the translation obligation is not discharged")
    run.obligation("translated source evaluates like the Python functions (translator + Model/PyLib.lean vs CPython)", ok_py or not ok_tr, detail_py)
    # `compile` ITSELF and the closure it returns, as they are written NOW, translated whole (plugin src_translation_compile) and proved
    # equal to the model's `compiledDecide` (per-run obligation; it uses the theorems of the obligations about the callees)
    wc = audit["facts"].get("translated_compile")
    wc_failed = isinstance(wc, dict) and "extraction_failed" in wc
    ok_wh, detail_wh = lib.run_obligation("C03_whole", deps=["C03_translated", "C05_translated", "C02_whole"])
    run.obligation(WHOLE_OBLIGATION, ok_wh, "discharged" if ok_wh else (str(wc["extraction_failed"]) if wc_failed else detail_wh))
    ok_wpy, detail_wpy = (False, "skipped: compile could not be translated") if wc_failed or not isinstance(wc, dict) else translated_whole_vs_python(run)
    run.obligation("compile translated whole evaluates like the real compile(policy)(env) (pytolean_closure + Model/PyIdent.lean vs CPython)",
                   ok_wpy or wc_failed or not isinstance(wc, dict), detail_wpy)
    # where the compiled function is INSTALLED and USED: `__init__` / `_recompute_etag` assign `_compiled` from the current policy whenever the
    # compiler is importable, `_decide_async` returns the compiled function's answer and falls back to the interpreters only when it is
    # absent or raises (the comparison with CPython is C09's)
    from props import c09
    ok_dec, _, detail_dec = c09.decide_obligation(run, audit, differential=False)
    run_cases(run, audit, scale=run.boost * (1 if ok_tr and ok_wh and ok_dec else 2))
    overlap_check(run, (120 if run.tier == "quick" else 1500) * run.boost)
    violations = []
    if (run.disagreements or not ok_tr or not ok_wh or not ok_dec) and not run.spec_failures:
        run_cases(run, audit, scale=4)
    if run.spec_failures:
        path = run.write_replay("spec", {"what": "C03 violated on the real engine", "case": run.spec_failures[0], "count": len(run.spec_failures)})
        violations.append((path, True))
    elif not ok_tr:
        path = run.write_replay("obligation", {"what": "per-run obligation Rbacx/Run/C03_translated.lean no longer checks: the translated source of the "
                                               "compiler's helper functions (or match_actions / _is_applicable) is not proved equal to the model functions "
                                               "that theorems Rbacx.categorize_eq_tier / Rbacx.C03.* are about; the widened search found no failing input",
                                               "translation": tr, "lean": detail_tr[-1500:], "first_disagreement": run.disagreements[:1]})
        violations.append((path, False))
    elif not ok_wh:
        path = run.write_replay("obligation", {"what": "per-run obligation Rbacx/Run/C03_whole.lean no longer checks: the current source text of compile() and "
                                               "the closure it returns (Generated.Src.compile_decide) is not proved equal to the model's compiledDecide, "
                                               "which theorems Rbacx.C03.c03_compiled_eq_reference / c03_irrelevant_rule / c03_set_delegates are about; "
                                               "the widened search found no failing input",
                                               "translation": {k: v for k, v in wc.items() if k != "lean"} if isinstance(wc, dict) else wc,
                                               "lean": detail_wh[-1500:], "first_disagreement": run.disagreements[:1]})
        violations.append((path, False))
    elif not ok_dec:
        path = run.write_replay("obligation", {"what": "per-run obligation Rbacx/Run/C09_decide_translated.lean no longer checks: the translated source of "
                                               "Guard.__init__ / _recompute_etag / _decide_async is not proved to install the compiler's answer on the "
                                               "current policy as `_compiled` and to return the compiled function's answer (interpreters only when it is "
                                               "absent or raises) — where theorems Rbacx.C03.* (compiled = interpreted) meet the engine; the widened search "
                                               "found no failing input",
                                               "lean": detail_dec[-1500:], "first_disagreement": run.disagreements[:1]})
        violations.append((path, False))
    elif run.disagreements:
        path = run.write_replay("correspondence", {"what": "model Rbacx.compiledDecide/guardEval and the engine disagree on the decision; theorems Rbacx.C03.* no "
                                                   "longer speak about this code", "first": run.disagreements[0], "count": len(run.disagreements)})
        violations.append((path, False))
    return run.finish(audit, violations)


def replay(run: lib.Run, audit: dict, path: str) -> int:
    import json
    rp = json.load(open(path))
    c = rp.get("case") or rp.get("first")
    if "session" in c:
        ss = c["session"]
        rows = gc.run_sessions([(ss["first_policy"], ss["cfg"], ss["items"])], audit["facts"]["consts"])
        bad = 0
        for pol, req, cfg, out, model, extra in rows:
            differs = extra.get("spec_c03") is False
            bad += differs
            print(("  DIFFERS " if differs else "  ok      ") + f"request={req} policy in force={pol}\n           impl={out.get('ok', out)}\n           model={model.get('ok', model) if isinstance(model, dict) else model}")
        print("(one engine answered these in order" + ("; documents carried a value json.dumps refuses" if ss["cfg"].get("unserialisable") else "") + ")")
        return 1 if bad else 0
    print("impl now:", real.run_guard(c["policy"], c["request"], c["cfg"]))
    print("recorded:", c["impl"], "model:", c["model"])
    return 0
