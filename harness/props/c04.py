"""C04 — condition operators: documented meaning, no coercion.

Tie: `rbacx.core.policy.eval_condition` against the model's `evalCond` on the result class
(True / False / type mismatch / raised), exhaustively over operator × operand-kind cells, and
on random nested trees; the typing table `Rbacx.Spec.accepts` is evaluated on the
implementation's output (a Boolean result outside the table is a coercion)."""
from __future__ import annotations

import itertools
import random
from datetime import datetime, timezone

import gen
import lib
import proto
import real  # noqa: F401
from rbacx.core import policy as rpolicy

BIN_OPS = ["==", "!=", ">", "<", ">=", "<=", "contains", "in", "hasAll", "hasAny", "startsWith", "endsWith",
           "before", "after"]


def values():
    return [None, True, False, 0, 1, -1, 2 ** 53 + 1, 1.5, 1.0, float("nan"), float("inf"), 10 ** 400,
            "", "1", "abc", "ab", "1.5", "2024-06-01T12:00:00Z", "2024-06-01T12:00:00+02:00", "2024-06-01",
            [], [1, "1"], ["a", "ab"], ["2024-01-01T00:00:00Z", "2025-01-01T00:00:00Z"], {}, {"a": 1},
            [0, 1, 2, 3, 4, 5, 6, 7, 8, 9, "a", "ab"], [[1], 1, "a"], [{"a": 1}, "ab", 9],
            datetime(2024, 6, 1, 12, 0, 0), datetime(2024, 6, 1, 12, 0, 0, tzinfo=timezone.utc), 1717243200, 1717243200.0,
            # strings that a normalising / case-folding / trimming comparison would identify
            "e\u0301", "\u00e9", "ABC", "abc ", ["\u00e9", "ABC"]]


def impl(cond, env, rel=None):
    toks = []
    if rel is not None:
        from rbacx.core.relctx import REL_CHECKER, REL_LOCAL_CACHE
        toks = [(REL_CHECKER, REL_CHECKER.set(real.TableRel(rel["table"], rel.get("default"), []))),
                (REL_LOCAL_CACHE, REL_LOCAL_CACHE.set({}))]
    try:
        return bool(rpolicy.eval_condition(cond, env))
    except rpolicy.ConditionTypeError:
        return "mismatch"
    except Exception as e:  # noqa: BLE001
        return "raised:" + type(e).__name__
    finally:
        for var, tok in reversed(toks):
            var.reset(tok)


def rel_tree_cases(run: lib.Run, n: int):
    """and/or/not trees mixing `rel` leaves (answered by a table) with comparisons that are true, false or ill-typed: left-to-right
    order with short-circuit is observable exactly when a deciding operand stands before an ill-typed one."""
    import guardcases as gc
    r = random.Random(run.seed * 7727 + 44)
    leaves = [True, False, {"==": [1, 1]}, {"==": [1, 2]}, {"<": ["a", 1]}, {"contains": [None, "x"]}, {">=": [{"attr": "context.missing"}, 1]},
              {"rel": "viewer"}, {"rel": "owner"}, {"rel": {"relation": "editor", "resource": "doc:7"}}, {"rel": "nobody"}]

    def tree(d):
        k = r.random()
        if d <= 0 or k < 0.35:
            return gen.choice(r, leaves)
        if k < 0.9:
            return {gen.choice(r, ["and", "or"]): [tree(d - 1) for _ in range(r.randrange(1, 4))]}
        return {"not": tree(d - 1)}
    env = {"subject": {"id": "u1", "roles": [], "attrs": {}}, "action": "read", "resource": {"type": "doc", "id": "1", "attrs": {}}, "context": {}}
    for k in range(n):
        cfg = gc.random_cfg(r, rel=True)
        rel = cfg["rel"]
        if k % 2:
            rel = {"table": [["user:u1", "viewer", "doc:1", True], ["user:u1", "owner", "doc:1", False]], "default": gen.choice(r, [False, None])}
        e = env
        if k % 6 == 5:
            # caveat context that is not an object: building the relationship query fails (not a type mismatch of an operator)
            e = {**env, "context": {"_rebac": gen.choice(r, [5, True, [1], 1.5, {"k": 1}, {}])}}
        yield tree(3), e, f"reltree#{k}", rel


def cells(quick: bool):
    vals = values()
    for op in BIN_OPS + ["between"]:
        for i, a in enumerate(vals):
            for j, b in enumerate(vals):
                for strict in (False, True):
                    for place in (0, 1, 2):
                        if quick and place and (i * 31 + j * 17 + len(op)) % 5:
                            continue
                        env = {"subject": {"id": "u"}, "resource": {"type": "doc"}, "action": "read",
                               "context": {"a": a, "b": b}}
                        if strict:
                            env["__strict_types__"] = True
                        ta = {"attr": "context.a"} if place in (1, 2) else a
                        tb = {"attr": "context.b"} if place == 2 else b
                        # a dict literal containing "attr" would be an attribute reference: skip those
                        if (isinstance(ta, dict) and "attr" in ta and place == 0) or (isinstance(tb, dict) and "attr" in tb and place != 2):
                            continue
                        yield {op: [ta, tb]}, env, f"{op}|{i}|{j}|{strict}|{place}"


def random_cases(run: lib.Run, n: int):
    r = random.Random(run.seed * 104729 + 4)
    for k in range(n):
        hostile = r.random() < 0.3
        cond = gen.gen_cond(r, 4, hostile)
        pol = {"rules": [{"id": "r", "effect": "permit", "actions": ["read"], "resource": {"type": "doc"}, "condition": cond}]}
        req = gen.gen_request(r, pol, hostile)
        env = {"subject": {"id": req["sid"], "roles": list(req["roles"] or []), "attrs": dict(req["sattrs"])},
               "action": req["action"], "resource": {"type": req["rtype"], "id": req["rid"], "attrs": dict(req["rattrs"])},
               "context": dict(req.get("ctx") or {})}
        if r.random() < 0.3:
            env["__strict_types__"] = True
        yield cond, env, f"random#{k}"
    # multi-key / malformed condition documents (dispatch order, arity)
    odd = [{"==": [1, 1], "<": ["a", 1]}, {"and": "ab"}, {"or": {"k": 1}}, {"and": 5}, {"not": True}, {"foo": 1}, {},
           {"==": [1]}, {"==": [1, 2, 3]}, {"==": "ab"}, {"<": 5}, {"and": [True, {"<": ["a", 1]}, False]},
           {"and": [False, {"<": ["a", 1]}]}, {"or": [True, {"<": ["a", 1]}]}, {"or": [{"<": ["a", 1]}, True]},
           {"not": {"<": ["a", 1]}}, {"between": ["2024-06-01T00:00:00Z", ["2024-06-01T00:00:00Z", "2024-06-01T00:00:00Z"]]},
           {"between": ["2024-06-01T00:00:00Z", ["2024-01-01T00:00:00Z"]]}, {"rel": "viewer"}, {"rel": 5}, "x", 0, None, [],
           {"==": [{"attr": "context.n.real"}, 5]}, {"==": [{"attr": "a..b"}, None]}, {"==": [{"attr": ""}, None]}]
    env0 = {"subject": {"id": "u"}, "action": "read", "resource": {"type": "doc", "id": "1"}, "context": {"n": {"real": 5}}}
    for c in odd:
        yield c, env0, f"odd:{c!r}"
    # two operator keys in one document: the FIRST one in the order of the `if` chain decides (the model dispatches in that order), so
    # every ordered pair (one operator true, the other false) pins the order of two branches
    t0, t1, t2, t3 = "2024-01-01T00:00:00Z", "2024-06-01T00:00:00Z", "2025-01-01T00:00:00Z", "2026-01-01T00:00:00Z"
    tf = {"==": ([1, 1], [1, 2]), "!=": ([1, 2], [1, 1]), ">": ([2, 1], [1, 2]), "<": ([1, 2], [2, 1]), ">=": ([2, 1], [1, 2]),
          "<=": ([1, 2], [2, 1]), "contains": (["ab", "a"], ["ab", "c"]), "in": (["a", "ab"], ["c", "ab"]),
          "hasAll": ([[1, 2], [1]], [[1], [2]]), "hasAny": ([[1, 2], [1]], [[1], [2]]), "startsWith": (["ab", "a"], ["ab", "b"]),
          "endsWith": (["ab", "b"], ["ab", "a"]), "before": ([t0, t1], [t1, t0]), "after": ([t1, t0], [t0, t1]),
          "between": ([t1, [t0, t2]], [t1, [t2, t3]])}
    for p in tf:
        for q in tf:
            if p != q:
                yield {p: tf[p][0], q: tf[q][1]}, env0, f"twokeys:{p}+{q}"
    # nesting far deeper than any hand-written document (generated policies fold lists pairwise): the meaning of and/or/not does not
    # depend on the depth at which they stand
    for depth in (31, 32, 33, 34, 65, 120):
        for li, leaf in enumerate((True, False, {"==": [1, 1]}, {"<": ["a", 1]}, {"==": [{"attr": "context.n.real"}, 5]})):
            c = leaf
            for _ in range(depth):
                c = {"not": c}
            yield c, env0, f"deep:not^{depth}:{li}"
            for op in ("and", "or"):
                c = leaf
                for k in range(depth):
                    c = {op: [c, op == "and"] if k % 2 else [op == "and", c]}
                yield c, env0, f"deep:{op}^{depth}:{li}"


def run_cases(run: lib.Run, audit: dict, scale: int = 1):
    quick = run.tier == "quick"
    batch, cmds = [], []
    it = itertools.chain(((c, e, l, None) for c, e, l in cells(quick)),
                         ((c, e, l, None) for c, e, l in random_cases(run, (3000 if quick else 30000) * scale)),
                         rel_tree_cases(run, (1500 if quick else 15000) * scale))
    for cond, env, label, rel in it:
        out = impl(cond, env, rel)
        batch.append((cond, env, label, out, rel))
        cmd = {"cmd": "c04", "cond": proto.enc(cond), "env": proto.enc(env), "consts": {},
               "oracle": proto.build_oracle(cond, env)}
        if rel is not None:
            cmd["rel"] = rel
        cmds.append(cmd)
    answers = proto.run_driver(cmds)
    through_guard(run, batch, answers)
    for (cond, env, label, out, _rel), ans in zip(batch, answers):
        run.count(f"{'cell' if '|' in label else 'tree'}:{out if isinstance(out, str) else ('true' if out else 'false')}")
        run.case([cond, env], out is True or out is False, {"cond": cond, "env": env, "impl": out} if label.startswith("random") else None)
        if out != ans["model"]:
            run.disagreements.append({"label": label, "cond": cond, "env": env, "impl": out, "model": ans["model"]})
        if isinstance(out, bool) and ans["typed"] is False:
            run.spec_failures.append({"label": label, "cond": cond, "env": env, "impl": out,
                                      "spec": "a Boolean result outside the documented typing table (coercion)"})
        elif isinstance(out, str) and out.startswith("raised") and isinstance(ans["model"], (bool,)) :
            run.spec_failures.append({"label": label, "cond": cond, "env": env, "impl": out, "spec": "evaluation raised"})


def through_guard(run: lib.Run, batch: list, answers: list) -> None:
    """the same cells through the engine (compiled path): `Decision.reason` must be matched / condition_mismatch /
    condition_type_mismatch exactly as the operator table says — whatever the compiler does with literals beforehand"""
    import json as _json
    from datetime import datetime as _dt
    picked = 0
    for k, ((cond, env, label, out, rel), ans) in enumerate(zip(batch, answers)):
        if label.startswith("reltree") and int(label.split("#")[1]) % 3 == 2:
            # a whole tree as the condition of a one-rule policy: true → the rule applies, false / ill-typed → it does not, and a condition
            # whose evaluation FAILS (not a type mismatch) never makes its rule apply
            m = ans["model"]
            pol = {"algorithm": "deny-overrides", "rules": [{"id": "c", "effect": "permit", "actions": ["read"], "resource": {"type": "doc"}, "condition": cond}]}
            req = {"sid": "u1", "roles": [], "sattrs": {}, "action": "read", "rtype": "doc", "rid": "1", "rattrs": {}, "ctx": dict(env.get("context") or {})}
            got = real.run_guard(pol, req, {"strict": False, "rel": rel})
            have = (got["ok"]["effect"], got["ok"]["reason"]) if "ok" in got else ("raised", got.get("raised"))
            picked += 1
            run.count("tree-through-guard" + ("/evaluation-fails" if isinstance(m, str) and m.startswith("raised") else ""))
            if isinstance(m, str) and m.startswith("raised"):
                if have[0] == "permit":
                    run.spec_failures.append({"label": label + "|guard", "cond": cond, "env": env, "rel": rel, "impl": list(have),
                                              "spec": "a condition whose evaluation fails made its rule apply (permit)"})
            else:
                want = {True: ("permit", "matched"), False: ("deny", "condition_mismatch"), "mismatch": ("deny", "condition_type_mismatch")}[m]
                if have != want:
                    run.disagreements.append({"label": label + "|guard", "cond": cond, "env": env, "rel": rel, "impl": list(have), "model": list(want)})
            continue
        if "|" not in label or not isinstance(cond, dict):
            continue
        op = next(iter(cond))
        timeop = op in ("before", "after", "between")
        if not (timeop or k % 11 == 0):
            continue
        try:
            _json.dumps(cond)          # the policy document must be JSON (datetime literals cannot be written in one)
        except TypeError:
            continue
        m = ans["model"]
        if m not in (True, False, "mismatch"):
            continue
        ctx = dict(env.get("context") or {})
        if any(isinstance(v, float) and v != v for v in ctx.values()):
            continue
        pol = {"algorithm": "deny-overrides", "rules": [{"id": "c", "effect": "permit", "actions": ["read"], "resource": {"type": "doc"}, "condition": cond}]}
        req = {"sid": "u", "roles": [], "sattrs": {}, "action": "read", "rtype": "doc", "rid": "1", "rattrs": {}, "ctx": ctx}
        # with and without an audit sink / a decision cache attached: what the operators see does not depend on who else looks at the request
        extra = [{}, {"logger": True}, {}][picked % 3]
        if picked % 3 == 2:
            from rbacx.core.cache import DefaultInMemoryCache as _Cache
            got = real.run_guard(pol, req, {"strict": bool(env.get("__strict_types__"))}, cache=_Cache(8))
        else:
            got = real.run_guard(pol, req, {"strict": bool(env.get("__strict_types__")), **extra})
        want = {True: ("permit", "matched"), False: ("deny", "condition_mismatch"), "mismatch": ("deny", "condition_type_mismatch")}[m]
        picked += 1
        run.count("cell-through-guard")
        have = (got["ok"]["effect"], got["ok"]["reason"]) if "ok" in got else ("raised", got.get("raised"))
        if have != want:
            run.disagreements.append({"label": label + "|guard", "cond": cond, "env": env, "impl": list(have), "model": list(want)})
    run.evaluations += picked


# ----------------------------------------------------------------------------- translated source vs python (C04_translated)


class _ExtRecorder:
    """records what the EXTERNAL functions of the translation (`getattr`, `_parse_dt`: not translated, parameters of
    `Src.eval_condition`) did while the real code ran: rows `[[arguments…], outcome]`; `bad` = a value outside the value universe"""

    def __init__(self):
        self.rows = {"getattr": {}, "_parse_dt": {}}
        self.bad = False

    def note(self, name, args, thunk):
        import json
        try:
            key = [proto.enc(a) for a in args]
        except TypeError:
            key, self.bad = None, True
        try:
            val = thunk()
        except rpolicy.ConditionTypeError:
            if key is not None:
                self.rows[name].setdefault(json.dumps(key), [key, {"err": "mismatch"}])
            raise
        except Exception as e:  # noqa: BLE001
            if key is not None:
                self.rows[name].setdefault(json.dumps(key), [key, {"err": "raised:" + type(e).__name__}])
            raise
        try:
            if key is not None:
                self.rows[name].setdefault(json.dumps(key), [key, {"ok": proto.enc(val)}])
        except TypeError:
            self.bad = True
        return val


def _outcome(thunk):
    """{"ok": encoded value} | {"err": "mismatch"} | {"err": "raised:Cls"}; None when the value is outside the value universe"""
    try:
        val = thunk()
    except rpolicy.ConditionTypeError:
        return {"err": "mismatch"}
    except Exception as e:  # noqa: BLE001
        return {"err": "raised:" + type(e).__name__}
    try:
        return {"ok": proto.enc(val)}
    except TypeError:
        return None


def _rel_subconds(c, out: list) -> None:
    if isinstance(c, dict):
        if "rel" in c:
            out.append(c)
        for v in c.values():
            _rel_subconds(v, out)
    elif isinstance(c, (list, tuple)):
        for v in c:
            _rel_subconds(v, out)


def translated_vs_python(run: lib.Run) -> tuple[bool, str]:
    """the translated condition evaluator (Generated.Src.eval_condition and helpers, exception-passing style, evaluated by
    `lake env lean --run Rbacx/Run/SrcEvalCond.lean`) against the REAL functions on the same arguments: result value or WHICH exception
    (ConditionTypeError / builtin class).  The externals of the translation get their values from the real Python per input line:
    `getattr` and `_parse_dt` are recorded while the real `eval_condition` runs, `rel_branch` is the real `eval_condition` on every
    sub-condition with a `rel` key.  Validates harness/pytolean_except.py and Model/PyExcept.lean, the two things C04_translated trusts."""
    import builtins
    import copy
    import json
    import subprocess
    from rbacx.core.relctx import REL_CHECKER, REL_LOCAL_CACHE
    quick = run.tier == "quick"
    rec = _ExtRecorder()
    real_parse = rpolicy._parse_dt

    def rec_getattr(obj, name, *default):
        return rec.note("getattr", [obj, name, *default], lambda: builtins.getattr(obj, name, *default))

    def rec_parse(x, strict=None):
        return rec.note("_parse_dt", [x, strict], lambda: real_parse(x, strict=strict))

    def with_rel(rel, thunk):
        toks = []
        if rel is not None:
            toks = [(REL_CHECKER, REL_CHECKER.set(real.TableRel(rel["table"], rel.get("default"), []))),
                    (REL_LOCAL_CACHE, REL_LOCAL_CACHE.set({}))]
        try:
            return thunk()
        finally:
            for var, tok in reversed(toks):
                var.reset(tok)

    calls = []      # (fn, encoded args, wanted outcome, ext tables, label, raw args)
    skipped = 0
    rpolicy.getattr = rec_getattr          # a module global shadows the builtin for the functions of rbacx.core.policy
    rpolicy._parse_dt = rec_parse
    try:
        stride = 3 if quick else 1
        conds = itertools.chain(((c, e, l, None) for k, (c, e, l) in enumerate(cells(quick)) if k % stride == 0),
                                ((c, e, l, None) for c, e, l in random_cases(run, (600 if quick else 6000) * run.boost)),
                                rel_tree_cases(run, (300 if quick else 3000) * run.boost))
        for cond, env, label, rel in conds:
            rec.rows, rec.bad = {"getattr": {}, "_parse_dt": {}}, False
            want = with_rel(rel, lambda: _outcome(lambda: rpolicy.eval_condition(copy.deepcopy(cond), copy.deepcopy(env))))
            subs: list = []
            _rel_subconds(cond, subs)
            relrows: dict = {}
            try:
                for sc in subs:
                    key = [proto.enc(sc), proto.enc(env)]
                    # a fresh memo per sub-condition: the table checker is a function of the lookup, so the memo cannot change an answer
                    relrows.setdefault(json.dumps(key[0]), [key, with_rel(rel, lambda: _outcome(
                        lambda: rpolicy.eval_condition(copy.deepcopy(sc), copy.deepcopy(env))))])
                args = [proto.enc(cond), proto.enc(env)]
            except TypeError:
                skipped += 1
                continue
            if want is None or rec.bad or any(r_[1] is None for r_ in relrows.values()):
                skipped += 1        # a value outside the value universe (e.g. getattr found a method of a builtin value: DESIGN §2.1 ii)
                continue
            ext = {"getattr": list(rec.rows["getattr"].values()), "_parse_dt": list(rec.rows["_parse_dt"].values()),
                   "rel_branch": list(relrows.values())}
            calls.append(("eval_condition", args, want, ext, label, (cond, env)))
        vals = values()
        for a in vals:
            for b in vals:
                for fn, f in (("_ensure_str", rpolicy._ensure_str), ("_ensure_numeric_strict", rpolicy._ensure_numeric_strict)):
                    calls.append((fn, [proto.enc(a), proto.enc(b)], _outcome(lambda: f(a, b)), {}, fn, (a, b)))
            calls.append(("_as_collection", [proto.enc(a)], _outcome(lambda: rpolicy._as_collection(a)), {}, "_as_collection", (a,)))
        for env in ({}, {"__strict_types__": True}, {"__strict_types__": 0}, {"__strict_types__": "no"}, {"__strict_types__": []},
                    {"__strict_types__": None}, {"__strict_types__": 0.0}, {"other": True}, None, "x", [], 5, 1.5):
            calls.append(("_is_strict", [proto.enc(env)], _outcome(lambda: rpolicy._is_strict(env)), {}, "_is_strict", (env,)))
        envs = [{"a": {"b": {"c": 5}}, "": {"": 7}, "l": [1, 2], "s": "txt", "n": None}, {}, None, "x", [1], 5]
        for path in ("a", "a.b", "a.b.c", "a.b.c.d", "a.x.c", "", ".", "..", "a.", ".a", "l", "l.0", "s.zzz", "n.k", 5, None, 1.5, ["a"], {"k": 1}, True):
            for env in envs:
                for tok in ({"attr": path}, {"attr": path, "other": 1}, path, [path], {"other": path}):
                    rec.rows, rec.bad = {"getattr": {}, "_parse_dt": {}}, False
                    want = _outcome(lambda: rpolicy.resolve(copy.deepcopy(tok), copy.deepcopy(env)))
                    if want is None or rec.bad:
                        skipped += 1
                        continue
                    calls.append(("resolve", [proto.enc(tok), proto.enc(env)], want, {"getattr": list(rec.rows["getattr"].values())}, "resolve", (tok, env)))
    finally:
        del rpolicy.getattr
        rpolicy._parse_dt = real_parse
    lines = [json.dumps({"fn": fn, "args": args, "oracle": proto.build_oracle(*raw), "ext": ext}) for fn, args, _w, ext, _l, raw in calls]
    p = subprocess.run(["lake", "env", "lean", "--run", "Rbacx/Run/SrcEvalCond.lean"], cwd=lib.LEAN, input="\n".join(lines) + "\n",
                       capture_output=True, text=True, timeout=900)
    outs = [ln for ln in p.stdout.split("\n") if ln]
    if p.returncode != 0 or len(outs) != len(lines):
        return False, "SrcEvalCond: " + (p.stderr or p.stdout)[-800:]
    bad = 0
    for (fn, _args, want, _ext, label, raw), ln in zip(calls, outs):
        got = json.loads(ln)
        run.count("translated-cond")
        run.count(f"translated-cond: {fn} -> " + (want["err"] if "err" in want else "value"))
        if got != want:
            bad += 1
            if bad == 1:
                run.disagreements.append({"part": "translated source vs python", "function": fn, "label": label, "args": list(raw),
                                          "impl": {"python": want}, "model": got,
                                          "what": f"the translated {fn} (Generated.Src, exception-passing) and the real function differ"})
    if skipped:
        run.hist["translated-cond: outside the value universe (not evaluated)"] = skipped
    run.evaluations += len(calls)
    return bad == 0, f"{bad} of {len(calls)} evaluations differ" if bad else f"agree on {len(calls)} evaluations"


def parse_dt_vs_python(run: lib.Run) -> tuple[bool, str]:
    """the translated `_parse_dt` (Generated.Src.parse_dt, harness/pytolean_rel.py, evaluated by `lake env lean --run Rbacx/Run/SrcEvalRel.lean`)
    against the REAL `_parse_dt` on the value grid × strict arguments: the returned datetime (awareness bit and UTC instant) or WHICH exception.
    The two external expressions of the translation — `datetime.fromtimestamp(float(x), tz=timezone.utc)`, `datetime.fromisoformat(x.replace('Z',
    '+00:00'))` — get their outcome (value or raised class) from CPython's datetime on this very `x`.  Validates harness/pytolean_rel.py and
    the datetime operations of Model/PyRel.lean, the two things C04_parse_dt_translated trusts."""
    import json
    import subprocess
    extra = [datetime(1970, 1, 1), datetime(2024, 6, 1, 12, 0, 0, 5, tzinfo=timezone.utc), -1.5, 0.0, -0.0, float("-inf"), 253402300800, 253402300799,
             -62135596800, -62135596801, 1e18, -1e18, 2 ** 63, "2024-06-01T12:00:00", "2024-06-01T12:00:00.123456Z", "2024-13-01", "Z", "z",
             "2024-06-01T12:00:00z", "2024-06-01 12:00:00+00:00", "20240601", "2024-06-01T12:00:00+0200", "1717243200", " 2024-06-01", (1, 2), [1717243200]]
    from datetime import timedelta
    extra.append(datetime(2024, 6, 1, 12, 0, 0, tzinfo=timezone(timedelta(hours=2))))
    calls = []
    for x in values() + extra:
        for strict in (None, False, True, 0, 1, "", "x", [], [0]):
            ext = {"fromtimestamp": [], "fromisoformat": []}
            try:
                ex = proto.enc(x)
            except TypeError:
                continue
            if isinstance(x, (int, float)):
                ext["fromtimestamp"].append([[ex], _outcome(lambda: datetime.fromtimestamp(float(x), tz=timezone.utc))])
            if isinstance(x, str):
                ext["fromisoformat"].append([[ex], _outcome(lambda: datetime.fromisoformat(x.replace("Z", "+00:00")))])
            want = _outcome(lambda: rpolicy._parse_dt(x, strict))
            want_kw = _outcome(lambda: rpolicy._parse_dt(x, strict=strict))
            if want is None or want != want_kw or any(r_[1] is None for rows in ext.values() for r_ in rows):
                return False, f"_parse_dt({x!r}, {strict!r}): a result outside the value universe, or positional and keyword call differ"
            calls.append((json.dumps({"fn": "_parse_dt", "args": [ex, proto.enc(strict)], "ext": ext}), want, (x, strict)))
    p = subprocess.run(["lake", "env", "lean", "--run", "Rbacx/Run/SrcEvalRel.lean"], cwd=lib.LEAN, input="\n".join(c[0] for c in calls) + "\n",
                       capture_output=True, text=True, timeout=900)
    outs = [ln for ln in p.stdout.split("\n") if ln]
    if p.returncode != 0 or len(outs) != len(calls):
        return False, "SrcEvalRel: " + (p.stderr or p.stdout)[-800:]
    bad = 0
    for (_line, want, raw), ln in zip(calls, outs):
        got = json.loads(ln)
        run.count("translated-parse_dt")
        run.count("translated-parse_dt: -> " + (want["err"] if "err" in want else ("aware datetime" if want["ok"][1] else "NAIVE datetime")))
        if got != want:
            bad += 1
            if bad == 1:
                run.disagreements.append({"part": "translated source vs python", "function": "_parse_dt", "label": "_parse_dt", "args": [repr(a) for a in raw],
                                          "impl": {"python": want}, "model": got,
                                          "what": "the translated _parse_dt (Generated.Src.parse_dt) and the real function differ"})
    run.evaluations += len(calls)
    return bad == 0, f"{bad} of {len(calls)} evaluations differ" if bad else f"agree on {len(calls)} evaluations"


def check(run: lib.Run, audit: dict) -> int:
    run.rule = ("exhaustive cells: 15 operators × 38 left values × 38 right values (incl. a 12-element list and lists with a nested list / object member) (every JSON kind, near-duplicates 1/'1'/1.0/True, "
                "NaN/Inf/10^400, NFC/NFD twins, case and trailing-blank twins, ISO strings, epochs, naive/aware datetimes) × lax/strict × literal/attribute placement "
                "(quick: attribute placements subsampled 1/5); random nested trees depth ≤4 over all 19 operators incl. hostile values; and/or/not "
                "trees mixing rel leaves (table-answered checker) with true/false/ill-typed comparisons (evaluation order is observable); "
                "malformed/multi-key documents; every time-operator cell and 1/11 of the others also as a one-rule policy through Guard (reason "
                "matched / condition_mismatch / condition_type_mismatch). non-trivial = the condition produced a Boolean (not a mismatch)")
    run.exhaustive = True
    run.assumptions = ["attribute-path segments do not name Python attributes of builtin values (getattr fallback; DESIGN §2.1 ii)",
                       "NaN does not occur inside containers compared with ==/in (CPython identity shortcut; DESIGN §2.1 iii)",
                       "datetime.fromisoformat / fromtimestamp are oracles computed by the harness"]
    if not audit["ok"]:
        raise lib.CheckError(f"Lean build/audit failed at {audit['stage']}: {audit.get('log') or audit.get('forbidden') or audit.get('bad_axioms')}")
    # the condition evaluator as it is written NOW, translated into Lean in exception-passing style, is proved equal to the model's
    # evalCond / evalBin / resolve (per-run obligation); the translation itself is compared with CPython
    tr = audit["facts"].get("translated_cond")
    untranslatable = isinstance(tr, dict) and "extraction_failed" in tr
    ok_tr, detail_tr = lib.run_obligation("C04_translated")
    run.obligation("C04_translated: Generated.Src.eval_condition / eval_binops / resolve / _ensure_* (the current source text of the condition "
                   "evaluator, exception-passing translation; externals getattr, _parse_dt, the rel branch) = the model's evalCond / evalBin / "
                   "resolve / numericPair, with the same exception classes, for every document, environment and oracle", ok_tr,
                   "discharged" if ok_tr else (str(tr["extraction_failed"]) if untranslatable else detail_tr))
    if untranslatable or not isinstance(tr, dict):
        ok_py, detail_py = True, "skipped: the condition evaluator is not in the translatable subset (see C04_translated)"
    else:
        ok_py, detail_py = translated_vs_python(run)
    run.obligation("translated condition evaluator evaluates like the real eval_condition and helpers, exceptions included "
                   "(harness/pytolean_except.py + Model/PyExcept.lean vs CPython)", ok_py, detail_py)
    # `_parse_dt` — an external parameter of the translation above — as it is written NOW is proved equal to the model's parseDt (the
    # instantiation of that parameter in C04_translated), the two datetime conversions staying oracles
    trr = audit["facts"].get("translated_rel")
    pd = trr.get("parse_dt") if isinstance(trr, dict) else None
    pd_failed = (trr or {}).get("extraction_failed") if isinstance(trr, dict) else None
    if isinstance(pd, dict) and "extraction_failed" in pd:
        pd_failed = pd["extraction_failed"]
    ok_pd, detail_pd = lib.run_obligation("C04_parse_dt_translated", deps=["C04_translated"])
    run.obligation("C04_parse_dt_translated: Generated.Src.parse_dt (the current source text of _parse_dt; externals = the expressions "
                   "datetime.fromtimestamp(float(x), tz=timezone.utc) and datetime.fromisoformat(x.replace('Z', '+00:00')), instantiated with the "
                   "oracle) = the model's parseDt: the instant as an aware datetime or ConditionTypeError, never another exception, for every "
                   "value, strict argument and oracle", ok_pd, "discharged" if ok_pd else (str(pd_failed) if pd_failed else detail_pd))
    if pd_failed or not isinstance(pd, dict):
        ok_pdpy, detail_pdpy = True, "skipped: _parse_dt is not in the translatable subset (see C04_parse_dt_translated)"
    else:
        ok_pdpy, detail_pdpy = parse_dt_vs_python(run)
    run.obligation("translated _parse_dt evaluates like the real _parse_dt on the value grid × strict arguments, exceptions included "
                   "(harness/pytolean_rel.py + Model/PyRel.lean vs CPython; datetime conversions taken from CPython)", ok_pdpy, detail_pdpy)
    # … and with BOTH former externals (`_parse_dt`, the `rel` branch: C13_translated) replaced by translations of the current source the
    # whole evaluator is still evalCond.  Informational here: a failure that comes from the rel branch is C13's to report, one that comes
    # from _parse_dt is reported by C04_parse_dt_translated above
    ok_cl, detail_cl = lib.run_obligation("C04_eval_condition_closed", deps=["C04_translated", "C04_parse_dt_translated", "C13_translated"])
    run.obligation("C04_eval_condition_closed: Src.eval_condition with the TRANSLATED _parse_dt and the TRANSLATED rel branch (run from the empty memo) "
                   "in place of the hand-written externals = the model's evalCond, for every document, oracle, checker outcome function and env Guard "
                   "builds (only getattr on non-dicts, _ctx_hash, awaitable resolution and the two datetime conversions stay parameters)", ok_cl,
                   "discharged" if ok_cl else detail_cl)
    if ok_py and not ok_pdpy:
        detail_py = detail_pdpy
    ok_py = ok_py and ok_pdpy
    run_cases(run, audit, scale=run.boost * (1 if ok_tr and ok_pd else 2))
    violations = []
    tr_dis = [d for d in run.disagreements if d.get("part") == "translated source vs python"]
    model_dis = [d for d in run.disagreements if d.get("part") != "translated source vs python"]
    if model_dis and not run.spec_failures:
        # a disagreement on a Boolean/mismatch class IS a change of operator meaning: the model's value is the documented one
        d = model_dis[0]
        path = run.write_replay("meaning", {"what": "operator result differs from the documented semantics (model Rbacx.evalCond, theorems Rbacx.C04.*)",
                                            "case": d, "count": len(model_dis)})
        violations.append((path, True))
    elif run.spec_failures:
        path = run.write_replay("spec", {"what": "coercion / raise: result outside the typing table Rbacx.Spec.accepts", "case": run.spec_failures[0],
                                         "count": len(run.spec_failures)})
        violations.append((path, True))
    elif not ok_tr:
        path = run.write_replay("obligation", {"what": "per-run obligation Rbacx/Run/C04_translated.lean no longer checks: the translated source of "
                                               "eval_condition / resolve / _ensure_* is not proved equal to the model's evalCond / evalBin / resolve, "
                                               "the functions theorems Rbacx.C04.* / Rbacx.C06.* are about; the widened search found no condition "
                                               "whose result differs from the documented semantics",
                                               "translation": (tr.get("extraction_failed") if isinstance(tr, dict) else tr),
                                               "lean": detail_tr[-1500:], "first_disagreement": tr_dis[:1]})
        violations.append((path, False))
    elif not ok_pd:
        path = run.write_replay("obligation", {"what": "per-run obligation Rbacx/Run/C04_parse_dt_translated.lean no longer checks: the translated source of "
                                               "_parse_dt is not proved equal to the model's parseDt (strict / lax dispatch, bool exclusion, naive => UTC, "
                                               "every conversion failure => ConditionTypeError), the function theorems Rbacx.C04.* / Rbacx.C06.* are about; "
                                               "the widened search found no condition whose result differs from the documented semantics",
                                               "translation": pd_failed, "lean": detail_pd[-1500:], "first_disagreement": tr_dis[:1]})
        violations.append((path, False))
    elif tr_dis or not ok_py:
        first = tr_dis[0] if tr_dis else {"part": "translated source vs python", "what": detail_py}
        path = run.write_replay("correspondence", {"what": "translated source vs python: " + str(first.get("what")) + "; the obligation "
                                                   "C04_translated rests on a translation that CPython contradicts (or that could not be evaluated)",
                                                   "first": first, "count": len(tr_dis)})
        violations.append((path, False))
    return run.finish(audit, violations)


def replay(run: lib.Run, audit: dict, path: str) -> int:
    import json
    rp = json.load(open(path))
    c = rp.get("case")
    if c is None:
        f = rp.get("first") or (rp.get("first_disagreement") or [None])[0]
        if f and f.get("function") == "eval_condition":
            print("eval_condition now:", impl(*f["args"]), "recorded:", f.get("impl"), "translated:", f.get("model"))
        else:
            print("nothing to re-run on the implementation:", rp.get("what"))
        return 0
    if str(c.get("label", "")).endswith("|guard"):
        pol = {"algorithm": "deny-overrides", "rules": [{"id": "c", "effect": "permit", "actions": ["read"], "resource": {"type": "doc"}, "condition": c["cond"]}]}
        env = c["env"]
        req = {"sid": (env.get("subject") or {}).get("id", "u"), "roles": [], "sattrs": {}, "action": "read", "rtype": "doc", "rid": "1", "rattrs": {},
               "ctx": dict(env.get("context") or {})}
        got = real.run_guard(pol, req, {"strict": bool(env.get("__strict_types__")), **({"rel": c["rel"]} if c.get("rel") else {})})
        have = [got["ok"]["effect"], got["ok"]["reason"]] if "ok" in got else ["raised", got.get("raised")]
        print("condition evaluated alone:", impl(c["cond"], env, c.get("rel")))
        print("one-rule policy through Guard now:", have, "recorded:", c["impl"], "expected:", c.get("model") or c.get("spec"))
        return 1 if have == c["impl"] else 0
    print("impl now:", impl(c["cond"], c["env"]), "recorded impl:", c["impl"], "model:", c.get("model"))
    return 0
