"""C05 — target matching, lax and strict, on every path.

Tie: `match_resource` / `match_actions` directly, and a one-rule policy through `Guard`
(single policy → compiled path, policy set → set path) and `compiler.compile`, against the
model's matcher. The spec verdict for every path is the model's documented table
(`Rbacx.matchResource`, characterised declaratively by theorems Rbacx.C05.*)."""
from __future__ import annotations

import itertools
import random

import gen
import lib
import proto
import real
from rbacx.core import compiler as rcompiler
from rbacx.core import policy as rpolicy

NEAR = ["1", 1, 1.0, True, "True", None, "None", "2", "*", 0, False, ""]
T_TYPES = ["doc", ["doc", "file"], "*", ["*", "img"], None, 1, ["1", 1]]
T_IDS = ["<absent>", "1", 1, True, 1.0, "True", None, "*", ["1", "2"], ""]
R_TYPES = ["doc", "file", "1", 1, None]


def target(t, i, attrs=None, key="attrs"):
    d = {}
    if t is not None or True:
        d["type"] = t
    if i != "<absent>":
        d["id"] = i
    if attrs is not None:
        d[key] = attrs
    return d


def cells(quick: bool):
    # A: type × id
    for t, i in itertools.product(T_TYPES, T_IDS):
        for rt, rid in itertools.product(R_TYPES, NEAR[:10]):
            yield target(t, i), {"type": rt, "id": rid, "attrs": {}}
    # B: attributes
    specs = [{}] + [{"level": v} for v in NEAR[:8] + [0]] + [{"level": [1, "2"]}, {"level": ["1"]}, {"level": [True, None]},
                                                        {"level": []}, {"level": 1, "tag": "x"}]
    for a in specs:
        for key in ("attrs", "attributes"):
            for w in NEAR[:10] + ["<missing>", "<noattrs>"]:
                if w == "<missing>":
                    ra = {"other": 1}
                elif w == "<noattrs>":
                    ra = None
                else:
                    ra = {"level": w, "tag": "x"}
                yield target("doc", "<absent>", a, key), {"type": "doc", "id": "7", "attrs": ra}


def random_cells(run, n):
    r = random.Random(run.seed * 15485863 + 5)
    for _ in range(n):
        rd = gen.gen_resource_def(r, gen.choice(r, gen.TYPES))
        pol = {"rules": [{"id": "r", "effect": "permit", "actions": ["read"], "resource": rd}]}
        req = gen.gen_request(r, pol)
        yield rd, {"type": req["rtype"], "id": req["rid"], "attrs": req["rattrs"]}


def paths(rdef, res, strict):
    """the five ways a target can be matched; each → True/False/'raised:…'"""
    out = {}
    env_res = {"type": res["type"], "id": res["id"], "attrs": dict(res["attrs"] or {})}

    def guarded(f):
        try:
            return bool(f())
        except Exception as e:  # noqa: BLE001
            return "raised:" + type(e).__name__
    out["matcher"] = guarded(lambda: rpolicy.match_resource(rdef, env_res, strict=True if strict else None))
    out["matcher_legacy_flag"] = guarded(lambda: rpolicy.match_resource(rdef, {**env_res, "__strict_types__": True} if strict else env_res))
    rule = {"id": "r", "effect": "permit", "actions": ["read"], "resource": rdef}
    pol = {"algorithm": "deny-overrides", "rules": [rule]}
    req = {"sid": "u", "roles": [], "sattrs": {}, "action": "read", "rtype": res["type"], "rid": res["id"],
           "rattrs": res["attrs"], "ctx": {}}
    for name, p in (("guard_single", pol), ("guard_set", {"algorithm": "deny-overrides", "policies": [{"rules": [rule]}]})):
        o = real.run_guard(p, req, {"strict": strict})
        out[name] = o["ok"]["allowed"] if "ok" in o else "raised:" + o["raised"]
    # the target under test as a deny next to a catch-all permit: a target that does not match must not hide the catch-all
    shadow = {"algorithm": "deny-overrides", "rules": [dict(rule, id="t", effect="deny"),
                                                        {"id": "w", "effect": "permit", "actions": ["*"], "resource": {"type": "*"}}]}
    o = real.run_guard(shadow, req, {"strict": strict})
    if "ok" not in o:
        out["guard_next_to_catch_all"] = "raised:" + o["raised"]
    elif o["ok"]["rule_id"] == "t" and not o["ok"]["allowed"]:
        out["guard_next_to_catch_all"] = True
    elif o["ok"]["rule_id"] == "w" and o["ok"]["allowed"]:
        out["guard_next_to_catch_all"] = False
    else:
        out["guard_next_to_catch_all"] = f"neither: {o['ok']['effect']}/{o['ok']['rule_id']}/{o['ok']['reason']}"
    env = {"subject": {"id": "u", "roles": [], "attrs": {}}, "action": "read", "resource": env_res, "context": {}}
    if strict:
        env["__strict_types__"] = True
    out["compiled"] = guarded(lambda: rcompiler.compile(pol)(env).get("decision") == "permit")
    return out


def run_cases(run: lib.Run, audit: dict, scale: int = 1):
    quick = run.tier == "quick"
    batch, cmds = [], []
    it = itertools.chain(cells(quick), random_cells(run, (1500 if quick else 15000) * scale))
    for rdef, res in it:
        for strict in (False, True):
            env_res = {"type": res["type"], "id": res["id"], "attrs": dict(res["attrs"] or {})}
            out = paths(rdef, res, strict)
            batch.append((rdef, res, strict, out))
            cmds.append({"cmd": "match", "rdef": proto.enc(rdef), "res": proto.enc(env_res), "strict": strict,
                         "consts": {}, "oracle": proto.build_oracle(rdef, env_res)})
    answers = proto.run_driver(cmds)
    for (rdef, res, strict, out), model in zip(batch, answers):
        run.count(f"{'strict' if strict else 'lax'}:{'match' if model else 'nomatch'}")
        run.case([rdef, res, strict], bool(model), {"target": rdef, "resource": res, "strict": strict, "paths": out})
        bad = {k: v for k, v in out.items() if v != model}
        if bad:
            run.spec_failures.append({"target": rdef, "resource": res, "strict": strict, "documented": model, "paths": out,
                                      "deviating_paths": sorted(bad)})
    # actions
    acts_cases = [(["read"], "read"), (["read", "write"], "write"), (["*"], "x"), (["read"], "write"), (["read"], "*"),
                  (["*", "read"], "*"), ([], "read"), (["read"], ""), (["read"], None), (["1"], 1), ("read", "r"), (None, "read"),
                  ([1, "read"], "read"), (["READ"], "read")]
    cmds = [{"cmd": "match-actions", "rule": proto.enc({"actions": a}), "action": proto.enc(x if x else ""), "consts": {}, "oracle": {}}
            for a, x in acts_cases]
    for (a, x), model in zip(acts_cases, proto.run_driver(cmds)):
        got = rpolicy.match_actions({"actions": a}, x or "")
        run.case(["act", a, x], bool(model))
        run.count("actions:" + ("match" if model else "nomatch"))
        if got != model:
            run.spec_failures.append({"actions": a, "action": x, "documented": model, "impl": got})


def nested_modes(run: lib.Run) -> None:
    """the type mode belongs to the engine, not to whatever is running around it: a lax engine asked for a decision from inside a
    strict engine's evaluation (through a collaborator) still matches on string forms, and the other way round"""
    import threading
    from rbacx.core.engine import Guard
    pol = {"algorithm": "deny-overrides", "rules": [{"id": "m", "effect": "permit", "actions": ["read"], "resource": {"type": "doc", "id": "7", "attrs": {"level": 1}}}]}
    coerced = real.make_request({"sid": "u", "roles": [], "sattrs": {}, "action": "read", "rtype": "doc", "rid": 7, "rattrs": {"level": "1"}, "ctx": {}})
    for outer_strict in (True, False):
        inner = Guard(pol, strict_types=not outer_strict)
        seen: list = []

        class Res:
            def expand(self, roles):
                seen.append(inner.evaluate_sync(*coerced).allowed)
                return list(roles)

        class Rel:
            def check(self, subject, relation, resource, *, context=None):
                seen.append(inner.evaluate_sync(*coerced).allowed)      # asked in the middle of the outer engine's rule evaluation
                return True
        pol_rel = {"algorithm": "deny-overrides", "rules": [dict(pol["rules"][0], condition={"rel": "viewer"}),
                                                            {"id": "w", "effect": "deny", "actions": ["read"], "resource": {"type": "*"},
                                                             "condition": {"not": {"rel": "viewer"}}}]}
        outer = Guard(pol_rel, strict_types=outer_strict, role_resolver=Res(), relationship_checker=Rel())
        box: dict = {}

        def go():
            try:
                box["d"] = outer.evaluate_sync(*coerced).allowed
            except Exception as e:  # noqa: BLE001
                box["d"] = "raised:" + type(e).__name__
        th = threading.Thread(target=go, daemon=True)
        th.start()
        th.join(20)
        run.evaluations += 1
        run.count("nested-modes")
        # the lax one matches 7 ~ "7", the strict one does not; the inner engine is asked by the resolver and by every rel lookup
        want = {"outer": not outer_strict, "inner": [outer_strict] * len(seen)}
        got = {"outer": box.get("d", "did not return"), "inner": seen}
        if got != want or len(seen) < 2:
            run.spec_failures.append({"target": None, "nested": True, "outer_strict": outer_strict, "observed": got, "expected": want,
                                      "spec": "an engine evaluated inside another engine's decision matched in the other engine's type mode"})


def check(run: lib.Run, audit: dict) -> int:
    run.rule = ("exhaustive: 7 target types × 7 target ids × 5 request types × 9 request ids; 14 attribute specs × attrs/attributes key × 11 "
                "request attribute values (near-duplicates '1'/1/1.0/True/'True'/None/'None', missing key, no attrs); each × lax/strict × 6 paths "
                "(match_resource with strict kw, legacy in-resource flag, Guard single policy = compiled path, the same rule as a deny next to a "
                "catch-all permit, Guard policy set, compile()); "
                "random targets/resources from the shared grammar. non-trivial = the documented table says 'match'")
    run.exhaustive = True
    run.assumptions = ["strict equality is Python == (True/1/1.0 identified) — DESIGN §6 F16", "str() of floats/containers is an oracle"]
    if not audit["ok"]:
        raise lib.CheckError(f"Lean build/audit failed at {audit['stage']}: {audit.get('log') or audit.get('forbidden') or audit.get('bad_axioms')}")
    run_cases(run, audit, scale=run.boost)
    # "whichever evaluation path is taken": the compiled path must also match the same way while another decision is in progress on the
    # same compiled function (shared with C03)
    from props import c03 as _c03
    _c03.overlap_check(run, (60 if run.tier == "quick" else 600) * run.boost)
    nested_modes(run)
    violations = []
    if run.spec_failures:
        path = run.write_replay("spec", {"what": "a path matches differently from the documented target table (Rbacx.matchResource; theorems Rbacx.C05.*)",
                                         "case": run.spec_failures[0], "count": len(run.spec_failures)})
        violations.append((path, True))
    return run.finish(audit, violations)


def replay(run: lib.Run, audit: dict, path: str) -> int:
    import json
    c = json.load(open(path))["case"]
    if "target" in c:
        print("paths now:", paths(c["target"], c["resource"], c["strict"]), "documented:", c["documented"])
    return 0
