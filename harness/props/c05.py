"""C05 — target matching, lax and strict, on every path.

Tie: `match_resource` / `match_actions` directly, and a one-rule policy through `Guard`
(single policy → compiled path, policy set → set path) and `compiler.compile`, against the
model's matcher. The spec verdict for every path is the model's documented table
(`Rbacx.matchResource`, characterised declaratively by theorems Rbacx.C05.*).

Tie by regeneration: `_is_strict` and `match_resource` are translated from the current source text
(harness/extractors/src_translation_target.py), proved equal to `Rbacx.matchResource` by the per-run obligation
`Run/C05_translated.lean`, and the translation is evaluated against the real functions (`translated_vs_python`)."""
from __future__ import annotations

import itertools
import random

import gen
import lib
import proto
import real
from rbacx.core import compiler as rcompiler
from rbacx.core import policy as rpolicy

NEAR = ["1", 1, 1.0, True, "True", None, "None", "2", "*", 0, False, ""]
T_TYPES = ["doc", ["doc", "file"], "*", ["*", "img"], None, 1, ["1", 1]]
T_IDS = ["<absent>", "1", 1, True, 1.0, "True", None, "*", ["1", "2"], ""]
R_TYPES = ["doc", "file", "1", 1, None]


def target(t, i, attrs=None, key="attrs"):
    d = {}
    if t is not None or True:
        d["type"] = t
    if i != "<absent>":
        d["id"] = i
    if attrs is not None:
        d[key] = attrs
    return d


def cells(quick: bool):
    # A: type × id
    for t, i in itertools.product(T_TYPES, T_IDS):
        for rt, rid in itertools.product(R_TYPES, NEAR[:10]):
            yield target(t, i), {"type": rt, "id": rid, "attrs": {}}
    # B: attributes
    specs = [{}] + [{"level": v} for v in NEAR[:8] + [0]] + [{"level": [1, "2"]}, {"level": ["1"]}, {"level": [True, None]},
                                                        {"level": []}, {"level": 1, "tag": "x"}]
    for a in specs:
        for key in ("attrs", "attributes"):
            for w in NEAR[:10] + ["<missing>", "<noattrs>"]:
                if w == "<missing>":
                    ra = {"other": 1}
                elif w == "<noattrs>":
                    ra = None
                else:
                    ra = {"level": w, "tag": "x"}
                yield target("doc", "<absent>", a, key), {"type": "doc", "id": "7", "attrs": ra}


def random_cells(run, n):
    r = random.Random(run.seed * 15485863 + 5)
    for _ in range(n):
        rd = gen.gen_resource_def(r, gen.choice(r, gen.TYPES))
        pol = {"rules": [{"id": "r", "effect": "permit", "actions": ["read"], "resource": rd}]}
        req = gen.gen_request(r, pol)
        yield rd, {"type": req["rtype"], "id": req["rid"], "attrs": req["rattrs"]}


def paths(rdef, res, strict):
    """the ways a target can be matched (matcher, legacy flag, engine on a policy / a set / a set nested three deep, compiled); each → True/False/'raised:…'"""
    out = {}
    env_res = {"type": res["type"], "id": res["id"], "attrs": dict(res["attrs"] or {})}

    def guarded(f):
        try:
            return bool(f())
        except Exception as e:  # noqa: BLE001
            return "raised:" + type(e).__name__
    out["matcher"] = guarded(lambda: rpolicy.match_resource(rdef, env_res, strict=True if strict else None))
    out["matcher_legacy_flag"] = guarded(lambda: rpolicy.match_resource(rdef, {**env_res, "__strict_types__": True} if strict else env_res))
    rule = {"id": "r", "effect": "permit", "actions": ["read"], "resource": rdef}
    pol = {"algorithm": "deny-overrides", "rules": [rule]}
    req = {"sid": "u", "roles": [], "sattrs": {}, "action": "read", "rtype": res["type"], "rid": res["id"],
           "rattrs": res["attrs"], "ctx": {}}
    nested = {"algorithm": "deny-overrides", "policies": [{"id": "outer", "policies": [{"id": "inner", "policies": [{"id": "leaf", "rules": [rule]}]}]}]}
    for name, p in (("guard_single", pol), ("guard_set", {"algorithm": "deny-overrides", "policies": [{"rules": [rule]}]}),
                    ("guard_set_nested", nested)):
        o = real.run_guard(p, req, {"strict": strict})
        out[name] = o["ok"]["allowed"] if "ok" in o else "raised:" + o["raised"]
    # the matching mode is the engine's configuration, not something another collaborator's outcome may switch: the same single policy
    # on an engine whose role resolver fails (the documented fall-back to the subject's own roles) and on one whose resolver answers
    for name, rs in ((("guard_resolver_raises", "raise"), ("guard_resolver_answers", {"ok": ["x"]})) if strict else ()):
        o = real.run_guard(pol, req, {"strict": strict, "resolver": rs})
        out[name] = o["ok"]["allowed"] if "ok" in o else "raised:" + o["raised"]
    # the target under test as a deny next to a catch-all permit: a target that does not match must not hide the catch-all
    shadow = {"algorithm": "deny-overrides", "rules": [dict(rule, id="t", effect="deny"),
                                                        {"id": "w", "effect": "permit", "actions": ["*"], "resource": {"type": "*"}}]}
    o = real.run_guard(shadow, req, {"strict": strict})
    if "ok" not in o:
        out["guard_next_to_catch_all"] = "raised:" + o["raised"]
    elif o["ok"]["rule_id"] == "t" and not o["ok"]["allowed"]:
        out["guard_next_to_catch_all"] = True
    elif o["ok"]["rule_id"] == "w" and o["ok"]["allowed"]:
        out["guard_next_to_catch_all"] = False
    else:
        out["guard_next_to_catch_all"] = f"neither: {o['ok']['effect']}/{o['ok']['rule_id']}/{o['ok']['reason']}"
    env = {"subject": {"id": "u", "roles": [], "attrs": {}}, "action": "read", "resource": env_res, "context": {}}
    if strict:
        env["__strict_types__"] = True
    out["compiled"] = guarded(lambda: rcompiler.compile(pol)(env).get("decision") == "permit")
    return out


def run_cases(run: lib.Run, audit: dict, scale: int = 1):
    quick = run.tier == "quick"
    batch, cmds = [], []
    it = itertools.chain(cells(quick), random_cells(run, (1500 if quick else 15000) * scale))
    for rdef, res in it:
        for strict in (False, True):
            env_res = {"type": res["type"], "id": res["id"], "attrs": dict(res["attrs"] or {})}
            out = paths(rdef, res, strict)
            batch.append((rdef, res, strict, out))
            cmds.append({"cmd": "match", "rdef": proto.enc(rdef), "res": proto.enc(env_res), "strict": strict,
                         "consts": {}, "oracle": proto.build_oracle(rdef, env_res)})
    answers = proto.run_driver(cmds)
    for (rdef, res, strict, out), model in zip(batch, answers):
        run.count(f"{'strict' if strict else 'lax'}:{'match' if model else 'nomatch'}")
        run.case([rdef, res, strict], bool(model), {"target": rdef, "resource": res, "strict": strict, "paths": out})
        bad = {k: v for k, v in out.items() if v != model}
        if bad:
            run.spec_failures.append({"target": rdef, "resource": res, "strict": strict, "documented": model, "paths": out,
                                      "deviating_paths": sorted(bad)})
    # actions
    acts_cases = [(["read"], "read"), (["read", "write"], "write"), (["*"], "x"), (["read"], "write"), (["read"], "*"),
                  (["*", "read"], "*"), ([], "read"), (["read"], ""), (["read"], None), (["1"], 1), ("read", "r"), (None, "read"),
                  ([1, "read"], "read"), (["READ"], "read")]
    cmds = [{"cmd": "match-actions", "rule": proto.enc({"actions": a}), "action": proto.enc(x if x else ""), "consts": {}, "oracle": {}}
            for a, x in acts_cases]
    for (a, x), model in zip(acts_cases, proto.run_driver(cmds)):
        got = rpolicy.match_actions({"actions": a}, x or "")
        run.case(["act", a, x], bool(model))
        run.count("actions:" + ("match" if model else "nomatch"))
        if got != model:
            run.spec_failures.append({"actions": a, "action": x, "documented": model, "impl": got})


# ---------------------------------------------------------------------- the translated matcher vs the real one

ABSENT = "<absent>"
G_TYPES = [ABSENT, "doc", "*", ["doc", "file"], ["*"], 1, ["doc", 7], [], ""]
G_IDS = [ABSENT, "1", 1, None, 1.0, True]
G_ATTRS = [ABSENT, {}, {"level": 1}, {"level": [1, 2]}, {"level": "1"}, {"a": None}, "x", []]
G_RES_TYPES = ["doc", "file", 1, None, "1", True]
G_RES_IDS = ["1", 1, None, 2, 1.0]
G_RES_ATTRS = [{}, {"level": 1}, {"level": "1"}, {"level": 2}, {"level": 1.0}, None, "x"]
G_STRICT = [None, False, True]
G_LEGACY = [ABSENT, True, False, 0, "yes"]


def _rdef(t, i, a, key="attrs"):
    d = {}
    if t != ABSENT:
        d["type"] = t
    if i != ABSENT:
        d["id"] = i
    if a != ABSENT:
        d[key] = a
    return d


def _res(t, i, a, legacy=ABSENT, key="attrs"):
    d = {"type": t, "id": i, key: a}
    if legacy != ABSENT:
        d["__strict_types__"] = legacy
    return d


def target_grid(run: lib.Run, n_random: int):
    """(rdef, resource, strict): each block of the matcher exhaustively against its own inputs × every strictness, then a seeded
    sample of the full product (the blocks are independent in the source, but that is not assumed)"""
    modes = [(s, lg) for s in G_STRICT for lg in (ABSENT, True, False)]
    for t, rt, (s, lg) in itertools.product(G_TYPES, G_RES_TYPES, modes):
        yield _rdef(t, ABSENT, ABSENT), _res(rt, "1", {}, lg), s
    for i, ri, (s, lg) in itertools.product(G_IDS, G_RES_IDS, modes):
        yield _rdef("doc", i, ABSENT), _res("doc", ri, {}, lg), s
    for a, ra, key, rkey, (s, lg) in itertools.product(G_ATTRS, G_RES_ATTRS, ("attrs", "attributes"), ("attrs", "attributes"), modes):
        yield _rdef(ABSENT, ABSENT, a, key), _res("doc", "1", ra, lg, rkey), s
    # both attribute keys at once (the canonical one wins unless falsy), a target that is not a mapping, the empty target
    for s, lg in modes:
        yield {"attrs": {}, "attributes": {"level": 1}}, _res("doc", "1", {"level": 2}, lg), s
        yield {"attrs": {"level": 1}, "attributes": {"level": 2}}, {"type": "doc", "attrs": None, "attributes": {"level": 1}}, s
        for rd in (None, "x", [], 5, {}, {"other": 1}):
            yield rd, _res("doc", "1", {}, lg), s
        yield {"type": "doc"}, {}, s
        # a resource that is not a mapping: CPython raises AttributeError at `resource.get` (counted, not judged — outside the domain)
        for bad in (None, "x", ["__strict_types__"]):
            yield {"type": "doc"}, bad, s
    r = random.Random(run.seed * 257 + 11)
    for _ in range(n_random):
        yield (_rdef(gen.choice(r, G_TYPES), gen.choice(r, G_IDS), gen.choice(r, G_ATTRS), gen.choice(r, ["attrs", "attributes"])),
               _res(gen.choice(r, G_RES_TYPES), gen.choice(r, G_RES_IDS), gen.choice(r, G_RES_ATTRS), gen.choice(r, G_LEGACY),
                    gen.choice(r, ["attrs", "attrs", "attributes"])),
               gen.choice(r, G_STRICT))


def translated_vs_python(run: lib.Run, n_random: int) -> tuple[bool, str]:
    """the translated matcher (Generated.Src.match_resource / is_strict, evaluated by `lake env lean --run Rbacx/Run/SrcEvalTarget.lean`)
    against the real `match_resource` / `_is_strict` on the same arguments; CPython's `str()` of floats and containers goes to the
    evaluator as the oracle table, computed without calling rbacx (proto.build_oracle).  Validates the translator and Model/PyLib.lean,
    the two things the obligation C05_translated trusts."""
    import copy
    import json
    import subprocess
    calls = []
    for rdef, res, strict in target_grid(run, n_random):
        try:
            want = ("ok", rpolicy.match_resource(copy.deepcopy(rdef), copy.deepcopy(res), strict=strict))
        except Exception as e:  # noqa: BLE001
            want = ("raised", type(e).__name__)
        calls.append(("match_resource", [rdef, res, strict], want))
    for env in ({}, {"__strict_types__": True}, {"__strict_types__": False}, {"__strict_types__": 1}, {"__strict_types__": 0},
                {"__strict_types__": "no"}, {"__strict_types__": ""}, {"__strict_types__": []}, {"__strict_types__": [0]},
                {"__strict_types__": None}, {"__strict_types__": 0.0}, {"other": True}, None, "x", [], 5):
        try:
            want = ("ok", rpolicy._is_strict(copy.deepcopy(env)))
        except Exception as e:  # noqa: BLE001
            want = ("raised", type(e).__name__)
        calls.append(("_is_strict", [env], want))
    lines = [json.dumps({"fn": fn, "args": [proto.enc(a) for a in args], "oracle": proto.build_oracle(*args)}) for fn, args, _ in calls]
    p = subprocess.run(["lake", "env", "lean", "--run", "Rbacx/Run/SrcEvalTarget.lean"], cwd=lib.LEAN, input="\n".join(lines) + "\n",
                       capture_output=True, text=True, timeout=900)
    outs = [ln for ln in p.stdout.split("\n") if ln]
    if p.returncode != 0 or len(outs) != len(lines):
        return False, "SrcEvalTarget: " + (p.stderr or p.stdout)[-800:]
    bad = 0
    for (fn, args, want), ln in zip(calls, outs):
        got = json.loads(ln)
        run.count("translated-target")
        if want[0] != "ok":
            run.count("translated-target: python raised (not judged)")
            continue          # CPython raised (an argument outside the function's domain): not judged
        run.count(f"translated-target: {fn} -> {want[1]}")
        if "value" not in got or got["value"] != proto.enc(want[1]):
            bad += 1
            if bad == 1:
                run.disagreements.append({"part": "translated source vs python", "function": fn, "args": args,
                                          "impl": {"python": repr(want[1])}, "model": got,
                                          "what": f"the translated {fn} (Generated.Src) and the real function differ"})
    run.evaluations += len(calls)
    return bad == 0, f"{bad} of {len(calls)} evaluations differ" if bad else f"agree on {len(calls)} evaluations"


def nested_modes(run: lib.Run) -> None:
    """the type mode belongs to the engine, not to whatever is running around it: a lax engine asked for a decision from inside a
    strict engine's evaluation (through a collaborator) still matches on string forms, and the other way round"""
    import threading
    from rbacx.core.engine import Guard
    pol = {"algorithm": "deny-overrides", "rules": [{"id": "m", "effect": "permit", "actions": ["read"], "resource": {"type": "doc", "id": "7", "attrs": {"level": 1}}}]}
    coerced = real.make_request({"sid": "u", "roles": [], "sattrs": {}, "action": "read", "rtype": "doc", "rid": 7, "rattrs": {"level": "1"}, "ctx": {}})
    for outer_strict in (True, False):
        inner = Guard(pol, strict_types=not outer_strict)
        seen: list = []

        class Res:
            def expand(self, roles):
                seen.append(inner.evaluate_sync(*coerced).allowed)
                return list(roles)

        class Rel:
            def check(self, subject, relation, resource, *, context=None):
                seen.append(inner.evaluate_sync(*coerced).allowed)      # asked in the middle of the outer engine's rule evaluation
                return True
        pol_rel = {"algorithm": "deny-overrides", "rules": [dict(pol["rules"][0], condition={"rel": "viewer"}),
                                                            {"id": "w", "effect": "deny", "actions": ["read"], "resource": {"type": "*"},
                                                             "condition": {"not": {"rel": "viewer"}}}]}
        outer = Guard(pol_rel, strict_types=outer_strict, role_resolver=Res(), relationship_checker=Rel())
        box: dict = {}

        def go():
            try:
                box["d"] = outer.evaluate_sync(*coerced).allowed
            except Exception as e:  # noqa: BLE001
                box["d"] = "raised:" + type(e).__name__
        th = threading.Thread(target=go, daemon=True)
        th.start()
        th.join(20)
        run.evaluations += 1
        run.count("nested-modes")
        # the lax one matches 7 ~ "7", the strict one does not; the inner engine is asked by the resolver and by every rel lookup
        want = {"outer": not outer_strict, "inner": [outer_strict] * len(seen)}
        got = {"outer": box.get("d", "did not return"), "inner": seen}
        if got != want or len(seen) < 2:
            run.spec_failures.append({"target": None, "nested": True, "outer_strict": outer_strict, "observed": got, "expected": want,
                                      "spec": "an engine evaluated inside another engine's decision matched in the other engine's type mode"})


def check(run: lib.Run, audit: dict) -> int:
    run.rule = ("exhaustive: 7 target types × 7 target ids × 5 request types × 9 request ids; 14 attribute specs × attrs/attributes key × 11 "
                "request attribute values (near-duplicates '1'/1/1.0/True/'True'/None/'None', missing key, no attrs); each × lax/strict × 6 paths "
                "(match_resource with strict kw, legacy in-resource flag, Guard single policy = compiled path, the same rule as a deny next to a "
                "catch-all permit, Guard policy set, compile()); "
                "random targets/resources from the shared grammar; the translated source of match_resource / _is_strict vs the real "
                "functions: 9 target types × 6 request types, 6 target ids × 5 request ids, 8 attribute specs × 7 request attribute values × "
                "attrs/attributes key on either side, each × strict ∈ {None, False, True} × legacy flag ∈ {absent, True, False}, plus a seeded "
                "sample of the full product. non-trivial = the documented table says 'match'")
    run.exhaustive = True
    run.assumptions = ["strict equality is Python == (True/1/1.0 identified) — DESIGN §6 F16", "str() of floats/containers is an oracle"]
    if not audit["ok"]:
        raise lib.CheckError(f"Lean build/audit failed at {audit['stage']}: {audit.get('log') or audit.get('forbidden') or audit.get('bad_axioms')}")
    # the matcher as it is written NOW, translated into Lean, is proved equal to the model's (per-run obligation)
    tr = audit["facts"].get("translated_target")
    untranslatable = isinstance(tr, dict) and "extraction_failed" in tr
    ok_tr, detail_tr = lib.run_obligation("C05_translated")
    run.obligation("C05_translated: Generated.Src.match_resource / Src.is_strict (the current source text of the target matcher) = "
                   "the model's matchResource / isStrict, for every input and every str() oracle", ok_tr,
                   "discharged" if ok_tr else (str(tr["extraction_failed"]) if untranslatable else detail_tr))
    if untranslatable or not isinstance(tr, dict):
        ok_py, detail_py = True, "skipped: the matcher is not in the translatable subset (see C05_translated)"
    else:
        ok_py, detail_py = translated_vs_python(run, (3000 if run.tier == "quick" else 40000) * run.boost)
    run.obligation("translated matcher evaluates like the real match_resource / _is_strict (translator + Model/PyLib.lean vs CPython)", ok_py, detail_py)
    run_cases(run, audit, scale=run.boost * (1 if ok_tr else 2))
    # "whichever evaluation path is taken": the compiled path must also match the same way while another decision is in progress on the
    # same compiled function (shared with C03)
    from props import c03 as _c03
    _c03.overlap_check(run, (60 if run.tier == "quick" else 600) * run.boost)
    nested_modes(run)
    violations = []
    if not ok_tr and not run.spec_failures:
        run_cases(run, audit, scale=4)        # the translation tie broke: widen the search for a failing input
    if run.spec_failures:
        path = run.write_replay("spec", {"what": "a path matches differently from the documented target table (Rbacx.matchResource; theorems Rbacx.C05.*)",
                                         "case": run.spec_failures[0], "count": len(run.spec_failures)})
        violations.append((path, True))
    elif not ok_tr:
        path = run.write_replay("obligation", {"what": "per-run obligation Rbacx/Run/C05_translated.lean no longer checks: the translated source of "
                                               "match_resource / _is_strict is not proved equal to the model's matchResource / isStrict, the "
                                               "functions theorems Rbacx.C05.* are about; the widened search found no target and resource on which "
                                               "a path matches differently from the documented table",
                                               "translation": tr, "lean": detail_tr[-1500:], "first_disagreement": run.disagreements[:1]})
        violations.append((path, False))
    elif run.disagreements or not ok_py:
        first = run.disagreements[0] if run.disagreements else {"part": "translated source vs python", "what": detail_py}
        path = run.write_replay("correspondence", {"what": "translated source vs python: " + str(first.get("what")) + "; the obligation "
                                                   "C05_translated rests on a translation that CPython contradicts (or that could not be evaluated)",
                                                   "first": first, "count": len(run.disagreements)})
        violations.append((path, False))
    return run.finish(audit, violations)


def replay(run: lib.Run, audit: dict, path: str) -> int:
    import json
    rp = json.load(open(path))
    c = rp.get("case")
    if c is None:
        f = rp.get("first") or (rp.get("first_disagreement") or [None])[0]
        if f and f.get("function") == "match_resource":
            rdef, res, strict = f["args"]
            print("match_resource now:", rpolicy.match_resource(rdef, res, strict=strict), "recorded:", f.get("impl"), "translated:", f.get("model"))
        else:
            print("nothing to re-run on the implementation:", rp.get("what"))
        return 0
    if "target" in c:
        print("paths now:", paths(c["target"], c["resource"], c["strict"]), "documented:", c["documented"])
    return 0
