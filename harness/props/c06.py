"""C06 — evaluation is total for schema-valid policies and JSON-valued requests.

Tie: policies from the schema grammar and single-point mutations of them, *filtered by the real
bundled schema* (jsonschema), loaded through JSON and YAML round trips, evaluated by the real `Guard`
on hostile requests (full numeric range, NaN/±Inf, 10^400, malformed dates, nulls and wrong types in
every slot); the model (`guardEval`, proved total on well-formed documents) must agree on
(raised?, effect, reason), and every schema-accepted document must satisfy the Lean well-formedness
predicate the totality theorem assumes."""
from __future__ import annotations

import copy
import json
import random

import yaml

import gen
import guardcases as gc
import lib
import proto
import real
from rbacx.core.engine import Guard
from rbacx.dsl.validate import validate_policy

DOCUMENTED = {"matched", "explicit_deny", "condition_mismatch", "condition_type_mismatch", "resource_mismatch", "action_mismatch",
              "no_match", "obligation_failed"}


_VALIDATOR = None
_N = [0]


def _validator():
    global _VALIDATOR
    if _VALIDATOR is None:
        try:
            import jsonschema
        except Exception:  # noqa: BLE001
            raise lib.CheckError("jsonschema is not importable (run ./setup.sh)")
        from importlib import resources
        schema = json.loads(resources.files("rbacx.dsl").joinpath("policy.schema.json").read_text(encoding="utf-8"))
        _VALIDATOR = jsonschema.validators.validator_for(schema)(schema)
    return _VALIDATOR


SEEN: list = []       # every document put to the bundled schema by this run (accepted and rejected): input of translated_schema_vs_jsonschema
MISMATCH: list = []   # documents on which rbacx.dsl.validate.validate_policy and the bundled schema file disagree (C17's business)


def validator_ok(doc) -> bool:
    """verdict of the library's own `validate_policy`"""
    try:
        validate_policy(doc)
        return True
    except RuntimeError:
        raise lib.CheckError("jsonschema is not importable (run ./setup.sh)")
    except Exception:  # noqa: BLE001
        return False


def schema_ok(doc) -> bool:
    """verdict of the bundled schema FILE (a validator built by the harness from policy.schema.json); every 25th document is also put
    through the library's `validate_policy` — a difference is recorded in MISMATCH (the schema file's verdict is what is returned)"""
    ok = _validator().is_valid(doc)
    _N[0] += 1
    if len(SEEN) < 20000:
        SEEN.append(doc)
    if _N[0] % 25 == 0:
        real_ok = validator_ok(doc)
        if real_ok != ok:
            MISMATCH.append({"document": doc, "bundled_schema_accepts": ok, "validate_policy_accepts": real_ok})
    return ok


def mutate(r: random.Random, pol: dict) -> dict:
    """a single-point change that the schema may or may not reject"""
    p = copy.deepcopy(pol)
    rules = p.get("rules")
    kids: list = []
    if rules is None:
        kids = [c for c in p.get("policies") or [] if c.get("rules")]
        if not kids:
            p["policies"] = 5
            return p
        rules = gen.choice(r, kids)["rules"]
    if not rules:
        p["extra"] = 1
        return p
    rule = gen.choice(r, rules)
    k = r.randrange(14)
    if k == 0:
        rule.pop(gen.choice(r, ["id", "effect", "actions", "resource"]), None)
    elif k == 1:
        rule["effect"] = gen.choice(r, ["allow", "PERMIT", 1, None, ""])
    elif k == 2:
        rule["actions"] = gen.choice(r, [[], "read", [1], [""], None])
    elif k == 3:
        rule["resource"] = gen.choice(r, [{}, {"id": "1"}, {"type": 1}, {"type": []}, "doc", None, {"type": "doc", "attrs": [1]}])
    elif k == 4:
        rule["condition"] = gen.choice(r, [{"==": [1]}, {"==": [1, 2, 3]}, {"<": ["a", 1]}, {"and": 5}, {"==": [1, 1], "!=": [1, 2]}, {}, 5, None,
                                           {"foo": [1, 2]}, {"between": ["2024-01-01T00:00:00Z", ["2024-01-01T00:00:00Z"]]},
                                           {"in": [[1], 5]}, {"startsWith": [1, "a"]}, {"rel": {"relation": "viewer", "ctx": 5}},
                                           {"rel": {"relation": "viewer", "extra": 1}}, {"rel": ""}, {"not": {"==": [1]}},
                                           {"rel": {"relation": "viewer", "ctx": [1]}}, {"rel": {"relation": "viewer", "ctx": "x"}},
                                           {"!=": [1, 2, 3]}, {"or": [{"and": "ab"}]}, {"and": {"==": [1, 1]}}, {"and": [{"==": [1]}]},
                                           {"or": [False, {"!=": [1, 2, 3]}]}])
    elif k == 5:
        rule["obligations"] = gen.choice(r, [["x"], [None], {"type": "require_mfa"}, "mfa", [{"type": 5}], [{}]])
    elif k == 6:
        p["algorithm"] = gen.choice(r, ["foo", "DENY-OVERRIDES", 1, None, ""])
    elif k == 7:
        rule["id"] = gen.choice(r, ["", 5, None])
    elif k == 8:
        rule["extra"] = 1
    elif k == 9 and "rules" in p:
        p["policies"] = []
    elif k == 9 and kids:
        # a child that is itself a set (the schema's SinglePolicy has additionalProperties: false)
        gen.choice(r, kids)["policies"] = gen.choice(r, [[], [5], 5, "ab", [{"rules": [{"id": "n", "effect": 1, "actions": ["read"], "resource": {"type": "doc"}}]}],
                                                         [{"rules": [{"id": "n", "effect": "permit", "actions": ["*"], "resource": {"type": "*"}}]}]])
    elif k == 10:
        rule["resource"]["type"] = gen.choice(r, ["", ["doc", ""], "*", ["*"]])
    elif k == 11:
        rule["resource"]["id"] = gen.choice(r, gen.HOSTILE_NUMS + [None, [], {}])
    elif k == 12:
        rule["resource"]["attrs"] = {"level": gen.choice(r, gen.HOSTILE_NUMS + [[float("nan")], {}])}
    else:
        rule["condition"] = gen.gen_cond(r, 3, True, True)
    return p


def bool_number_twin(r: random.Random, doc):
    """a copy of `doc` in which ONE leaf true/false became 1/0 or a leaf 1/0 became true/false (equal under Python's ==, different
    JSON types); None if the document has no such leaf"""
    p = copy.deepcopy(doc)
    spots = []

    def walk(v):
        items = v.items() if isinstance(v, dict) else enumerate(v) if isinstance(v, list) else ()
        for k, x in items:
            if isinstance(x, bool) or (isinstance(x, (int, float)) and x in (0, 1)):
                spots.append((v, k))
            else:
                walk(x)
    walk(p)
    if not spots:
        return None
    holder, k = gen.choice(r, spots)
    x = holder[k]
    holder[k] = int(x) if isinstance(x, bool) else bool(x)
    return p


def twin_pairs() -> list:
    """(schema-valid document, its bool↔number twin) where the schema tells the two apart"""
    rule = {"id": "r", "effect": "permit", "actions": ["read"], "resource": {"type": "doc"}}
    out = []
    for a, b in ((True, 1), (False, 0)):
        out.append(({"rules": [{**rule, "condition": a}]}, {"rules": [{**rule, "condition": b}]}))
    for op in (">", "<", ">=", "<="):
        for a, b in ((1, True), (0, False)):
            out.append(({"rules": [{**rule, "condition": {op: [{"attr": "resource.attrs.n"}, a]}}]},
                        {"rules": [{**rule, "condition": {op: [{"attr": "resource.attrs.n"}, b]}}]}))
    return out


def roundtrip(r: random.Random, pol: dict) -> dict:
    k = r.random()
    try:
        if k < 0.4:
            return json.loads(json.dumps(pol))
        if k < 0.8:
            return yaml.safe_load(yaml.safe_dump(pol))
    except Exception:  # noqa: BLE001
        pass
    return pol


def hostile_request(r: random.Random, pol: dict) -> dict:
    req = gen.gen_request(r, pol, hostile=True)
    k = r.random()
    if k < 0.15:
        req["sid"] = gen.gen_value(r, 2, True)
    if k < 0.1:
        req["roles"] = [gen.gen_scalar(r, True) for _ in range(r.randrange(0, 3))]
    if 0.1 <= k < 0.2:
        req["rid"] = gen.gen_value(r, 2, True)
    if 0.2 <= k < 0.3:
        req["rtype"] = gen.gen_scalar(r, True)
    if 0.3 <= k < 0.4:
        req["action"] = gen.gen_scalar(r, True)
    if 0.4 <= k < 0.5:
        req["rattrs"] = {kk: gen.gen_value(r, 2, True) for kk in gen.ATTR_KEYS}
    if 0.5 <= k < 0.56:
        req["sattrs"] = None
        req["rattrs"] = None
    if 0.56 <= k < 0.6:
        req.pop("ctx", None)
    if 0.6 <= k < 0.7 and isinstance(req.get("ctx"), dict):
        req["ctx"]["_rebac"] = gen.choice(r, [{}, {"ip": "1.2.3.4"}, {"n": float("nan")}, None])
    if 0.7 <= k < 0.85 and isinstance(req.get("ctx"), dict):
        for kk in ("n", "when", "s", "xs"):
            req["ctx"][kk] = gen.gen_value(r, 2, True)
    return req


EDGE_ISO = ["0001-01-01T00:00:00+05:30", "0001-01-01T00:00:00+00:01", "0001-01-01T00:00:00Z", "0001-01-01", "9999-12-31T23:59:59-00:01",
            "9999-12-31T23:59:59.999999Z", "9999-12-31T23:59:59-23:59", "0001-01-01T00:00:00+23:59", "2016-12-31T23:59:60Z",
            "2024-01-01T24:00:00", "2024-W01-1", "2024-001", "20240101T000000Z", " 2024-01-01", "2024-01-01T00:00:00+00:00:30",
            "2024-01-01T00:00:00,5Z", "+002024-01-01", "2024-02-30", "2024-01-01T00:00:00+24:00", "2024-01-01T00:00:00-00:00",
            "0000-01-01T00:00:00Z", "10000-01-01T00:00:00Z", "1970-01-01T00:00:00.000000001Z", "2024-01-01t00:00:00z"]
GRID_OPS = ["==", "!=", "<", "<=", ">", ">=", "contains", "in", "hasAll", "hasAny", "startsWith", "endsWith", "before", "after"]
BENIGN = {"==": 1, "!=": 1, "<": 1, "<=": 1, ">": 1, ">=": 1, "contains": "a", "in": [1, "a"], "hasAll": [1, "a", 2, 3, 4, 5, 6, 7, 8, 9], "hasAny": [7, "a"],
          "startsWith": "a", "endsWith": "a", "before": "2024-06-01T00:00:00Z", "after": "2024-06-01T00:00:00+02:00"}


def grid_cases(quick: bool):
    """every operator × every hostile value, as the attribute-resolved LEFT operand, the attribute-resolved RIGHT operand, both, and
    (for JSON-representable values) as a policy literal × lax/strict: the conversions that may raise sit behind specific operators, so a
    random stream reaches a given (operator, value) cell only by luck."""
    vals = gen.HOSTILE_NUMS + gen.HOSTILE_STRS + EDGE_ISO + [None, True, [], {}, [float("inf")], {"a": 10 ** 400}, [None], "", 0, -0.0,
                                                                    [[1]], [{"a": 1}], [[1], 2, "a"], [0, 1, 2, 3, 4, 5, 6, 7, 8, 9, [1]], {"k": [1, {"z": None}]}]
    base = {"sid": "u", "roles": [], "sattrs": {}, "action": "read", "rtype": "doc", "rid": "1", "rattrs": {}}
    def pol(cond):
        return {"algorithm": "deny-overrides", "rules": [{"id": "g", "effect": "permit", "actions": ["read"], "resource": {"type": "doc"},
                                                            "condition": cond},
                                                           {"id": "h", "effect": "deny", "actions": ["read"], "resource": {"type": "doc"},
                                                            "condition": {"not": cond}}]}
    k = 0
    for op in GRID_OPS:
        for v in vals:
            k += 1
            strict = bool(k % 2)
            ctx = {"v": v, "w": v}
            yield pol({op: [{"attr": "context.v"}, BENIGN[op]]}), {**base, "ctx": ctx}, {"strict": strict}
            yield pol({op: [BENIGN[op], {"attr": "context.v"}]}), {**base, "ctx": ctx}, {"strict": not strict}
            if not quick or k % 3 == 0:
                yield pol({op: [{"attr": "context.v"}, {"attr": "context.w"}]}), {**base, "ctx": ctx}, {"strict": strict}
            if not (isinstance(v, float) and (v != v or v in (float("inf"), float("-inf")))) and (not quick or k % 3 == 1):
                yield pol({op: [v, BENIGN[op]]}), {**base, "ctx": {}}, {"strict": not strict}
    for v in vals:
        k += 1
        ctx = {"v": v, "lo": "2024-01-01T00:00:00Z", "hi": "2025-01-01T00:00:00Z"}
        yield pol({"between": [{"attr": "context.v"}, ["2024-01-01T00:00:00Z", "2025-01-01T00:00:00Z"]]}), {**base, "ctx": ctx}, {"strict": bool(k % 2)}
        yield pol({"between": ["2024-06-01T00:00:00Z", [{"attr": "context.v"}, {"attr": "context.hi"}]]}), {**base, "ctx": ctx}, {"strict": False}
        yield pol({"between": ["2024-06-01T00:00:00Z", [{"attr": "context.lo"}, {"attr": "context.v"}]]}), {**base, "ctx": ctx}, {"strict": False}
        yield pol({"between": ["2024-06-01T00:00:00Z", {"attr": "context.v"}]}), {**base, "ctx": ctx}, {"strict": False}


def surrogate_probes(run: lib.Run) -> None:
    """text a JSON parser produces but Lean's `String` cannot hold (lone surrogates, from "\\ud83d"): real engine only —
    evaluation (with and without cache, lax and strict) must return a well-formed decision"""
    from rbacx.core.cache import DefaultInMemoryCache
    texts = [json.loads('"\\ud83d"'), json.loads('"a\\udc00b"'), json.loads('"\\ud800\\ud800"')]
    pol = {"algorithm": "deny-overrides", "rules": [
        {"id": "s", "effect": "permit", "actions": ["read"], "resource": {"type": "doc"},
         "condition": {"or": [{"==": [{"attr": "context.s"}, "x"]}, {"startsWith": [{"attr": "context.s"}, "a"]},
                              {"contains": [{"attr": "subject.roles"}, {"attr": "context.s"}]}, {"before": [{"attr": "context.s"}, "2024-01-01T00:00:00Z"]}]}}]}
    for t in texts:
        for slot in ("ctx", "sid", "rid", "role", "attr", "rtype", "action"):
            req = {"sid": "u", "roles": ["a"], "sattrs": {}, "action": "read", "rtype": "doc", "rid": "1", "rattrs": {}, "ctx": {"s": "abc"}}
            if slot == "ctx":
                req["ctx"] = {"s": t, t: 1}
            elif slot == "sid":
                req["sid"] = t
            elif slot == "rid":
                req["rid"] = t
            elif slot == "role":
                req["roles"] = [t]
            elif slot == "attr":
                req["rattrs"] = {"k": t}
                req["sattrs"] = {t: t}
            elif slot == "rtype":
                req["rtype"] = t
            else:
                req["action"] = t
            for strict in (False, True):
                for cached in (False, True):
                    run.count("surrogate-probe")
                    run.evaluations += 1
                    try:
                        ev: list = []
                        g = real.make_guard(pol, {"strict": strict, "logger": True}, ev, cache=DefaultInMemoryCache(8) if cached else None)
                        d = real.call_guard(g, req)
                        d = real.call_guard(g, req)
                        if not isinstance(d.allowed, bool) or d.effect not in ("permit", "deny") or d.reason not in DOCUMENTED:
                            raise AssertionError("ill-formed decision")
                    except Exception as e:  # noqa: BLE001
                        run.spec_failures.append({"policy": pol, "request": {k: repr(v) for k, v in req.items()}, "cfg": {"strict": strict, "cache": cached},
                                                  "impl": {"raised": type(e).__name__},
                                                  "spec": f"evaluation raised {type(e).__name__} on a request holding a lone surrogate (valid JSON text)"})


def domain_ok(req: dict) -> bool:
    """inside the statement: values encodable for the model (JSON values + datetimes); no NaN inside containers"""
    try:
        proto.enc(req)
    except TypeError:
        return False
    bad = []

    def walk(v, inside):
        if isinstance(v, float) and v != v and inside:
            bad.append(v)
        if isinstance(v, (list, tuple)):
            for x in v:
                walk(x, True)
        elif isinstance(v, dict):
            for x in v.values():
                walk(x, inside or False)
    for k, v in req.items():
        if isinstance(v, (list, dict)):
            for x in (v.values() if isinstance(v, dict) else v):
                walk(x, isinstance(x, (list, dict)) or isinstance(v, list))
    return not bad


def run_cases(run: lib.Run, audit: dict, scale: int = 1, extras: bool = True):
    quick = run.tier == "quick"
    consts = audit["facts"]["consts"]
    r = random.Random(run.seed * 6151 + 6)
    n = (2500 if quick else 25000) * scale
    cases, accepted, rejected = [], 0, 0
    while len(cases) < n:
        hostile = r.random() < 0.6
        base = gen.gen_policyset(r, hostile, r.random() < 0.3) if r.random() < 0.3 else gen.gen_policy(r, hostile, r.random() < 0.3)
        doc = mutate(r, base) if r.random() < 0.35 else base
        doc = roundtrip(r, doc)
        if not isinstance(doc, dict):
            continue
        if not schema_ok(doc):
            rejected += 1
            run.count("schema:rejected")
            continue
        accepted += 1
        run.count("schema:accepted")
        req = hostile_request(r, doc)
        if not domain_ok(req) or not domain_ok({"p": doc}):
            run.count("outside-domain")
            continue
        cases.append((doc, req, {"strict": r.random() < 0.35}))
    if extras:
        for doc, req, cfg in grid_cases(quick):
            if not schema_ok(doc):
                run.count("grid:schema-rejected")
                continue
            if not domain_ok(req) or not domain_ok({"p": doc}):
                run.count("outside-domain")
                continue
            run.count("grid")
            cases.append((doc, req, cfg))
    # the same totality with a decision cache in front (miss, then hit): every fifth case
    from rbacx.core.cache import DefaultInMemoryCache
    for k, (doc, req, cfg) in enumerate(cases):
        if k % 5:
            continue
        try:
            ev: list = []
            g = real.make_guard(doc, cfg, ev, cache=DefaultInMemoryCache(8))
            d1 = real.call_guard(g, req)
            d2 = real.call_guard(g, req, "async")
            run.count("cached-engine")
            if (d1.allowed, d1.effect, d1.reason) != (d2.allowed, d2.effect, d2.reason):
                run.spec_failures.append({"policy": doc, "request": req, "cfg": cfg, "impl": [str(d1), str(d2)],
                                          "spec": "miss and hit of a cache-enabled engine differ"})
        except Exception as e:  # noqa: BLE001
            run.spec_failures.append({"policy": doc, "request": req, "cfg": cfg, "impl": {"raised": type(e).__name__},
                                      "spec": f"a cache-enabled engine raised {type(e).__name__} on a schema-valid policy and a JSON-valued request"})
    if extras:
        surrogate_probes(run)
    res = gc.run_batch(cases, consts, with_impl_spec=False)
    wf_cmds = [{"cmd": "wellformed", "policy": proto.enc(pol), "consts": {}, "oracle": {}} for pol, _, _ in cases]
    wf = proto.run_driver(wf_cmds)
    for (pol, req, cfg, out, model, _), is_wf in zip(res, wf):
        run.count(gc.outcome_class(out))
        nontrivial = "ok" in out and out["ok"]["reason"] != "no_match"
        run.case([pol, req, cfg], nontrivial, {"policy": pol, "request": req, "cfg": cfg, "impl": out})
        case = {"policy": pol, "request": req, "cfg": cfg, "impl": out, "model": model}
        if "raised" in out:
            run.spec_failures.append({**case, "spec": f"evaluation raised {out['raised']} on a schema-valid policy and a JSON-valued request"})
            continue
        d = out["ok"]
        if not isinstance(d["allowed"], bool) or d["effect"] not in ("permit", "deny") or d["reason"] not in DOCUMENTED \
                or d["allowed"] != (d["effect"] == "permit"):
            run.spec_failures.append({**case, "spec": "ill-formed decision (allowed/effect/reason)"})
            continue
        if not is_wf:
            run.disagreements.append({**case, "what": "schema-accepted document does not satisfy Rbacx.policyWF (hypothesis of c06_total)"})
            # the schema lets through a document the theorem does not cover: look for a request that reaches every one of its rules
            for q in requests_reaching(pol):
                o2 = real.run_guard(pol, q, cfg)
                run.count("targeted-search")
                if "raised" in o2:
                    run.spec_failures.append({"policy": pol, "request": q, "cfg": cfg, "impl": o2,
                                              "spec": f"evaluation raised {o2['raised']} on a schema-valid policy and a JSON-valued request"})
                    break
        proj = (lambda o: ("raised",) if "raised" in o else (o["ok"]["effect"], o["ok"]["reason"]))
        if proj(out) != proj(model):
            run.disagreements.append(case)


def requests_reaching(doc) -> list:
    """one request per rule of the document (at any nesting depth) built from the rule's own target, so that its condition is reached"""
    out = []

    def rules_of(d):
        if isinstance(d, dict):
            for r_ in d.get("rules") or []:
                if isinstance(r_, dict):
                    yield r_
            for c in d.get("policies") or []:
                yield from rules_of(c)
    for rule in rules_of(doc):
        acts = rule.get("actions") or ["read"]
        act = next((a for a in acts if isinstance(a, str) and a != "*"), "read")
        rd = rule.get("resource") if isinstance(rule.get("resource"), dict) else {}
        t = rd.get("type")
        t = (t[0] if t else "doc") if isinstance(t, list) else t
        if t in (None, "*") or not isinstance(t, str):
            t = "doc"
        attrs = {}
        a_ = rd.get("attrs") or rd.get("attributes") or {}
        if isinstance(a_, dict):
            attrs = {k: (v[0] if isinstance(v, list) and v else v) for k, v in a_.items()}
        out.append({"sid": "u", "roles": [], "sattrs": {}, "action": act, "rtype": t, "rid": rd.get("id", "1"), "rattrs": attrs, "ctx": {}})
    return out[:12]


def overlapping_calls(run: lib.Run) -> None:
    """evaluations that OVERLAP on one engine (a second thread calls while the first is still inside its role resolver / relationship
    lookup; a sync call from inside a running loop while another is in flight): each returns a well-formed decision, none raises"""
    import asyncio
    import threading
    pol = {"algorithm": "deny-overrides", "rules": [{"id": "r", "effect": "permit", "actions": ["read"], "resource": {"type": "doc"},
                                                      "condition": {"hasAny": [{"attr": "subject.roles"}, ["admin"]]}}]}
    s1, a1, r1, c1 = real.make_request({"sid": "slow", "roles": ["admin"], "sattrs": {}, "action": "read", "rtype": "doc", "rid": "1", "rattrs": {}, "ctx": {}})
    s2, a2, r2, c2 = real.make_request({"sid": "fast", "roles": [], "sattrs": {}, "action": "read", "rtype": "doc", "rid": "2", "rattrs": {}, "ctx": {}})
    for kind in ("sync resolver", "async resolver"):
        for second in ("evaluate_sync", "evaluate_sync inside a running loop", "evaluate_async"):
            gate, entered = threading.Event(), threading.Event()

            class SyncRes:
                def expand(self, roles):
                    if "admin" in roles and not gate.is_set():
                        entered.set()
                        gate.wait(10)
                    return list(roles)

            class AsyncRes:
                async def expand(self, roles):
                    if "admin" in roles and not gate.is_set():
                        entered.set()
                        while not gate.is_set():
                            await asyncio.sleep(0.005)
                    return list(roles)
            g = Guard(copy.deepcopy(pol), role_resolver=(SyncRes if kind == "sync resolver" else AsyncRes)())
            box: dict = {}

            def first():
                try:
                    box["first"] = g.evaluate_sync(s1, a1, r1, c1)
                except Exception as e:  # noqa: BLE001
                    box["first"] = e
            t = threading.Thread(target=first, daemon=True)
            t.start()
            got = None
            try:
                if entered.wait(10):
                    if second == "evaluate_sync":
                        got = g.evaluate_sync(s2, a2, r2, c2)
                    elif second == "evaluate_async":
                        got = asyncio.run(g.evaluate_async(s2, a2, r2, c2))
                    else:
                        async def outer():
                            return g.evaluate_sync(s2, a2, r2, c2)
                        got = asyncio.run(outer())
                else:
                    got = TimeoutError("the first evaluation never reached its resolver")
            except Exception as e:  # noqa: BLE001
                got = e
            finally:
                gate.set()
                t.join(10)
            run.evaluations += 1
            run.count("overlapping-calls")
            for who, d, want in (("first (held in its resolver)", box.get("first"), True), ("second", got, False)):
                if isinstance(d, Exception) or d is None or d.allowed is not want or d.effect not in ("permit", "deny"):
                    run.spec_failures.append({"part": "overlapping calls", "resolver": kind, "second_call": second, "which": who, "policy": pol,
                                              "observed": f"{type(d).__name__}: {d}" if isinstance(d, Exception) or d is None else [d.allowed, d.effect, d.reason],
                                              "spec": "an evaluation overlapping another one on the same engine raised / did not return its well-formed decision"})
                    return


# ----------------------------------------------------------------------------- the bundled schema, translated (obligation C06_schema)

SCHEMA_OBLIGATION = ("C06_schema: Generated.Src.schema_root / schema_def (the current text of dsl/policy.schema.json, keyword by keyword) accept only "
                     "documents that satisfy docWF, the hypothesis of c06_total — for every fuel and every value (schema_condition_wf, "
                     "schema_rule_wf, schema_policy_wf, schema_doc_wf); schema_valid_total: c06_total with 'the schema accepts' as hypothesis")


def _one_line(s) -> str:
    return " ".join(str(s).split())


def schema_obligation(run: lib.Run, audit: dict) -> tuple[bool, str, bool]:
    """compile Run/C06_schema.lean against the schema as it is now; returns (discharged, detail, translatable)"""
    tr = audit["facts"].get("translated_schema")
    untranslatable = not isinstance(tr, dict) or "extraction_failed" in tr
    ok, detail = lib.run_obligation("C06_schema")
    if not ok and untranslatable:
        detail = "the schema is outside the translatable keyword subset: " + str(
            tr.get("extraction_failed") if isinstance(tr, dict) else "no translation of the schema in this run's facts")
    run.obligation(SCHEMA_OBLIGATION, ok, "discharged" if ok else detail)
    return ok, detail, not untranslatable


def hostile_schema_docs() -> list:
    """shapes aimed at the keyword meanings (Model/JsonSchema.lean) and the translator rather than at the engine: what each keyword does on
    values of the WRONG type, boundary counts, exactly-one-of, references under `not`, annotations"""
    R = {"id": "r", "effect": "permit", "actions": ["read"], "resource": {"type": "doc"}}

    def pol(cond):
        return {"rules": [{**R, "condition": cond}]}

    def rule(**kw):
        r_ = {**R, **kw}
        return {"rules": [{k: v for k, v in r_.items() if v is not ...}]}
    A = {"attr": "context.x"}
    D = "2024-01-01T00:00:00Z"
    out: list = [None, True, False, 0, 1, 1.0, "x", "", [], [{"rules": []}], {}, {"rules": []}, {"policies": []}, {"rules": [], "policies": []},
                 {"rules": None}, {"rules": {}}, {"rules": "ab"}, {"rules": [None]}, {"rules": [[]]}, {"extra": 1, "rules": []}, {"extra": 1},
                 {"policies": None}, {"policies": {}}, {"rules": [], "policies": None},
                 {"algorithm": None, "rules": []}, {"algorithm": 1, "rules": []}, {"algorithm": "", "rules": []}, {"algorithm": True, "rules": []},
                 {"algorithm": "first-applicable", "rules": []}, {"algorithm": "First-Applicable", "rules": []}, {"algorithm": ["deny-overrides"], "rules": []},
                 {"policies": [{"rules": []}]}, {"policies": [{"rules": [], "policies": []}]}, {"policies": [{"rules": [], "id": "p"}]},
                 {"policies": [{}]}, {"policies": [5]}, {"policies": [None]}, {"policies": [{"algorithm": 1, "rules": []}]},
                 {"policies": [{"algorithm": "permit-overrides", "rules": [R]}], "algorithm": "deny-overrides"},
                 {"policies": [{"rules": [R]}, {"rules": [{**R, "extra": 1}]}]}, {"policies": [{"rules": [R]}], "id": "set", "extra": [1]}]
    # rule fields: presence, types, minLength / minItems boundaries
    out += [rule(id=...), rule(effect=...), rule(actions=...), rule(resource=...), rule(id=""), rule(id=5), rule(id=None), rule(effect="allow"),
            rule(effect=""), rule(effect=1), rule(effect=None), rule(effect=True), rule(effect=["permit"]), rule(actions=[]), rule(actions=[""]),
            rule(actions=["a", ""]), rule(actions="read"), rule(actions=[1]), rule(actions=None), rule(actions={"read": 1}), rule(extra=1),
            rule(resource={}), rule(resource={"id": "1"}), rule(resource={"type": ""}), rule(resource={"type": []}), rule(resource={"type": [""]}),
            rule(resource={"type": ["a", ""]}), rule(resource={"type": ["a", "b"]}), rule(resource={"type": 1}), rule(resource={"type": None}),
            rule(resource={"type": "doc", "attrs": []}), rule(resource={"type": "doc", "attrs": None}), rule(resource={"type": "doc", "attrs": {"a": float("nan")}}),
            rule(resource={"type": "doc", "anything": [1, {"x": None}]}), rule(resource="doc"), rule(resource=None), rule(resource=[{"type": "doc"}]),
            rule(obligations=[]), rule(obligations=[{}]), rule(obligations=["x"]), rule(obligations={}), rule(obligations=None), rule(obligations=[{"type": 5}, []]),
            rule(condition=None)]
    # conditions: boolean vs number twins, non-objects, key counts, unknown keys
    out += [pol(c) for c in (True, False, 1, 0, 1.0, 0.0, "true", None, [], [True], {}, {"foo": [1, 2]}, {"==": [1, 1], "!=": [1, 2]}, {"and": [], "or": []},
                             {"not": True, "x": 1}, {"and": []}, {"or": []}, {"and": [True, 1]}, {"and": 5}, {"and": "ab"}, {"and": {"==": [1, 1]}}, {"or": None},
                             {"not": True}, {"not": 1}, {"not": None}, {"not": {}}, {"not": [True]}, {"not": {"not": {"not": {"==": [1]}}}},
                             {"and": [{"or": [{"not": {"==": [1, 2]}}, {"!=": [1, 2, 3]}]}]})]
    # operand counts for every operator (`items: false` tails, minItems/maxItems, non-lists)
    for op in GRID_OPS + ["between"]:
        good = {"between": [D, [D, D]], "before": [D, D], "after": [D, D], "startsWith": ["a", "b"], "endsWith": ["a", "b"], "contains": [[1], 1],
                "in": [1, [1]], "hasAll": [[1], [1]], "hasAny": [[1], [1]]}.get(op, [1, 2])
        out += [pol({op: x}) for x in (good, good + [good[0]], good[:1], [], "ab", {"a": 1, "b": 2}, None, 5, [A, A], [None, None], [True, False], [[], {}],
                                       [good[1], good[0]])]
    # typed operands: number (not bool; 1.0 is one), string, AttrRef vs plain object, containers, date-time is an annotation
    out += [pol({">": x}) for x in ([1, True], [True, 1], [1.0, 2], [float("inf"), float("nan")], [10 ** 400, -1], ["1", 1], [A, 1], [{"attr": 1}, 1],
                                    [{"attr": "a", "b": 1}, 1], [{}, 1], [None, 1], [[1], 1])]
    out += [pol({"startsWith": x}) for x in (["", ""], [A, "a"], ["a", A], [1, "a"], [{"attr": None}, "a"], [["a"], "a"], [True, "a"])]
    out += [pol({"in": x}) for x in ([1, [1]], ["a", "abc"], [A, [1]], [1, A], ["a", A], [1, {"a": 1}], [1, {"attr": 1}], [1, {"attr": "a", "b": 1}], [1, {}],
                                     [1, 5], [1, None], [1, True], [True, [1]], [None, [1]], [[1], [1]], [1.5, {"attr": "a"}])]
    out += [pol({"contains": x}) for x in ([[1], 1], ["abc", "a"], [A, 1], [A, A], [{"a": 1}, "a"], [{"attr": "a"}, "a"], [{"attr": 1}, "a"], [5, 1], [[1], [1]],
                                           [[1], None])]
    out += [pol({"hasAny": x}) for x in ([A, A], [{}, {}], [{"attr": "x"}, {"attr": 1}], ["ab", ["a"]], [1, [1]], [[1], True])]
    out += [pol({"before": x}) for x in (["not a date", D], ["", ""], [D, "2024-13-45T99:00:00"], [1, D], [A, D], [D, A], [None, D], [D, [D]])]
    out += [pol({"between": x}) for x in ([D, [D]], [D, [D, D, D]], [D, "ab"], [D, [A, A]], [A, [D, "x"]], [D, [1, D]], [D, A], [D, {"a": 1, "b": 2}], [[D, D], D])]
    # rel in both spellings
    out += [pol({"rel": x}) for x in ("viewer", "", 5, None, True, [], ["viewer"], {}, {"relation": "viewer"}, {"relation": ""}, {"relation": 5}, {"relation": None},
                                      {"subject": "u"}, {"relation": "viewer", "subject": "u", "resource": A}, {"relation": "viewer", "subject": 5},
                                      {"relation": "viewer", "resource": {"attr": 5}}, {"relation": "viewer", "ctx": {}}, {"relation": "viewer", "ctx": {"a": [1]}},
                                      {"relation": "viewer", "ctx": []}, {"relation": "viewer", "ctx": [1]}, {"relation": "viewer", "ctx": None},
                                      {"relation": "viewer", "ctx": 5}, {"relation": "viewer", "ctx": "x"}, {"relation": "viewer", "ctx": False},
                                      {"relation": "viewer", "extra": 1})]
    out += [pol({"rel": "viewer", "==": [1, 1]})]
    # references nested deeply (the budget of the translated schema: one unit per $ref)
    deep = True
    for _ in range(40):
        deep = {"not": deep}
    wide = {"==": [1, 2]}
    for k in range(25):
        wide = {("and", "or")[k % 2]: [wide, {"<": [A, k]}]}
    bad_deep = {"==": [1]}
    for _ in range(30):
        bad_deep = {"and": [True, {"not": bad_deep}]}
    out += [pol(deep), pol(wide), pol(bad_deep), {"policies": [{"rules": [{**R, "condition": wide}]}] * 3}]
    return out


def translated_schema_vs_jsonschema(run: lib.Run) -> tuple[bool, str]:
    """the translated schema (Generated.Src.schema_root, evaluated by `lake env lean --run Rbacx/Run/SrcEvalSchema.lean`) against the real
    `jsonschema` validator built from the same file — on EVERY document this run put to the schema (grammar documents and single-point
    mutations, accepted and rejected alike) and on the hostile shapes above — and against `rbacx.dsl.validate.validate_policy` (on the
    hostile shapes and every 50th generated document: it re-checks the schema itself on every call, ~50 ms).  Both directions.  Validates the
    translator (harness/pytolean_schema.py) and the keyword meanings (Model/JsonSchema.lean), the two things the obligation C06_schema trusts."""
    import subprocess
    hostile = hostile_schema_docs()
    docs = [(d, True) for d in hostile] + [(d, k % 50 == 0) for k, d in enumerate(SEEN)]
    jobs, lines = [], []
    for doc, with_lib in docs:
        try:
            line = json.dumps({"doc": proto.enc(doc)})
        except (TypeError, ValueError):
            run.count("translated-schema: outside the value universe (not judged)")
            continue
        want = _validator().is_valid(doc)
        jobs.append((doc, want, validator_ok(doc) if with_lib else None))
        lines.append(line)
    p = subprocess.run(["lake", "env", "lean", "--run", "Rbacx/Run/SrcEvalSchema.lean"], cwd=lib.LEAN, input="\n".join(lines) + "\n",
                       capture_output=True, text=True, timeout=900)
    outs = [ln for ln in p.stdout.split("\n") if ln]
    if p.returncode != 0 or len(outs) != len(lines):
        return False, "SrcEvalSchema: " + _one_line(p.stderr or p.stdout)[-800:]
    bad = 0
    for (doc, want, want_lib), ln in zip(jobs, outs):
        got = json.loads(ln)
        if "valid" not in got:
            return False, f"SrcEvalSchema: {ln[:300]}"
        run.count("translated-schema: " + ("accepted" if want else "rejected") + (" (validate_policy asked too)" if want_lib is not None else ""))
        if got["valid"] != want or (want_lib is not None and want_lib != want):
            bad += 1
            if bad == 1:
                run.disagreements.append({"part": "translated schema vs jsonschema", "document": doc, "translated_schema_accepts": got["valid"],
                                          "fuel": got.get("fuel"), "bundled_schema_accepts": want, "validate_policy_accepts": want_lib,
                                          "what": "the translated bundled schema (Generated.Src.schema_root), the jsonschema validator built from "
                                                  "policy.schema.json and rbacx.dsl.validate.validate_policy do not give one verdict"})
    n = len(jobs)
    run.count("translated-schema", n)
    run.evaluations += n
    return bad == 0, (f"{bad} of {n} verdicts differ" if bad else
                      f"agree on {n} documents ({sum(1 for _, w, _ in jobs if w)} accepted; {len(hostile)} hostile shapes)")


def check(run: lib.Run, audit: dict) -> int:
    run.rule = ("grid: 14 binary operators + between × ~90 hostile values (non-finite/huge/out-of-range numbers, odd and calendar-edge ISO "
                "strings with offsets, nulls, containers) as left / right / both attribute operands and as policy literal, lax and strict; "
                "random: schema-grammar policies / sets (60 % with hostile literals, 30 % with rel) and single-point mutations (14 kinds), kept only "
                "if the real bundled schema accepts them, JSON/YAML round-tripped; requests with hostile values (NaN, ±Inf, 10^400, ±2^63, "
                "out-of-range epochs, malformed/edge ISO dates, empty/odd strings, nulls, wrong types, nested containers) in every slot, lax and "
                "strict. non-trivial = the decision's reason is not no_match")
    run.assumptions = ["roles is a list or null; subject/resource attrs and context are objects or null; context._rebac an object (C06's quantifier)",
                       "NaN does not occur inside containers (CPython identity shortcut)",
                       "strings with lone surrogates cannot be represented in the model (Lean String): they are evaluated on the real engine only (must not raise)"]
    if not audit["ok"]:
        raise lib.CheckError(f"Lean build/audit failed at {audit['stage']}: {audit.get('log') or audit.get('forbidden') or audit.get('bad_axioms')}")
    del SEEN[:]
    # the schema as it is written NOW, translated into Lean, is proved to guarantee the hypothesis of c06_total
    ok_schema, detail_schema, translatable = schema_obligation(run, audit)
    run_cases(run, audit, scale=run.boost)
    if translatable:
        ok_cmp, detail_cmp = translated_schema_vs_jsonschema(run)
    else:
        ok_cmp, detail_cmp = True, "skipped: the schema is not in the translatable keyword subset (see C06_schema)"
    run.obligation("translated schema gives the verdict of the real jsonschema validator built from policy.schema.json and of "
                   "rbacx.dsl.validate.validate_policy (translator + Model/JsonSchema.lean vs the jsonschema library)", ok_cmp, detail_cmp)
    overlapping_calls(run)
    violations = []
    if (run.disagreements or not ok_schema) and not run.spec_failures:
        run_cases(run, audit, scale=4, extras=False)   # correspondence or the schema tie broke: widen the search for a failing input
    if run.spec_failures:
        path = run.write_replay("spec", {"what": "C06 violated on the real engine", "case": run.spec_failures[0], "count": len(run.spec_failures),
                                         "schema_obligation": "discharged" if ok_schema else detail_schema[-1500:]})
        violations.append((path, True))
    elif not ok_schema:
        path = run.write_replay("obligation", {
            "what": "per-run obligation Rbacx/Run/C06_schema.lean no longer checks: the bundled schema as it is written now is not proved to "
                    "guarantee docWF, the hypothesis under which Rbacx.C06.c06_total says evaluation never raises; the widened search found no "
                    "schema-accepted document on which the real engine raises",
            "translation": "see lean/Rbacx/Generated.lean (Src.schema_def)" if translatable else audit["facts"].get("translated_schema"),
            "lean": detail_schema[-1500:], "first_disagreement": run.disagreements[:1]})
        violations.append((path, False))
    elif run.disagreements and run.disagreements[0].get("part") == "translated schema vs jsonschema":
        path = run.write_replay("correspondence", {"what": "translated schema vs jsonschema: " + run.disagreements[0]["what"] + "; the obligation "
                                                   "C06_schema rests on a translation / keyword meaning that the jsonschema library contradicts",
                                                   "first": run.disagreements[0], "count": len(run.disagreements), "detail": detail_cmp})
        violations.append((path, False))
    elif not ok_cmp:
        path = run.write_replay("correspondence", {"what": "the translated schema could not be evaluated / compared: " + detail_cmp})
        violations.append((path, False))
    elif run.disagreements:
        path = run.write_replay("correspondence", {"what": "model Rbacx.guardEval / well-formedness hypothesis and the engine disagree; theorem "
                                                   "Rbacx.C06.c06_total no longer speaks about this code", "first": run.disagreements[0],
                                                   "count": len(run.disagreements)})
        violations.append((path, False))
    return run.finish(audit, violations)


def replay(run: lib.Run, audit: dict, path: str) -> int:
    rp = json.load(open(path))
    c = rp.get("case") or rp.get("first")
    print("impl now:", real.run_guard(c["policy"], c["request"], c["cfg"]))
    print("recorded:", c["impl"], "model:", c.get("model"))
    return 0
