"""C07 — obligations gate permits; the built-in checker fails closed.

Tie: `BasicObligationChecker().check` on the full cross product of obligation shapes × context
values against the model's table (`Rbacx.obligationUnmet`, characterised row by row by theorems
Rbacx.C07.*), all ordered pairs for first-failure order, and through `Guard` with built-in, custom
(sync/async, every verdict) and raising checkers on (allowed, effect, reason, challenge).

Tie by regeneration: `BasicObligationChecker.check` is translated from the current source text in three fragments
(harness/extractors/src_translation_obligations.py: the statements before the loop, the whole loop body, the statement after it;
`_finite_number` stays an external function), proved equal to `Rbacx.obligationUnmet` / `Rbacx.checkObligations` by the per-run
obligation `Run/C07_translated.lean`, and the translation is evaluated against the same statements run by CPython
(`translated_vs_python`), which also compares the model's `finiteNumber` with the real `_finite_number`."""
from __future__ import annotations

import copy
import itertools
import json
import random

import guardcases as gc
import lib
import proto
import real
import rbacx.core.obligations as robl
from rbacx.core.obligations import BasicObligationChecker

CTX_VALUES = ["<absent>", None, False, True, 0, 1, 2.9, 3, -1, float("nan"), float("inf"), "3", "high", "", " 2 ", [], [3], {},
              {"k": True}, {"k": 0}, {"tos": 1}, 10 ** 400, 60, 60.9, 61]
TYPES = {
    "require_mfa": ("mfa", [None]),
    "require_level": ("auth_level", [{"min": 10 ** 400}, {"min": -(10 ** 400)}, {"min": 2}, {"min": 2.7}, {"min": "2"}, {"min": "x"}, {"min": None}, {"min": True}, {}, None, "bad", [1], {"min": [2]}, {"min": float("nan")}]),
    "http_challenge": (None, [{"scheme": "Basic"}, {"scheme": "BEARER"}, {"scheme": "digest"}, {"scheme": "ntlm"}, {}, None, {"scheme": None}, {"scheme": 5}, "Basic", ["Basic"]]),
    "require_consent": ("consent", [None, {}, {"key": "k"}, {"key": "tos"}, {"key": None}, {"key": 1}, {"key": ["k"]}, {"key": {"a": 1}}]),
    "require_terms_accept": ("tos_accepted", [None]),
    "require_captcha": ("captcha_passed", [None]),
    "require_reauth": ("reauth_age_seconds", [{"max_age": 10 ** 400}, {"max_age": 60}, {"max_age": 60.5}, {"max_age": "60"}, {"max_age": "oops"}, {"max_age": None}, {}, None, {"max_age": -1}, {"max_age": 0}]),
    "require_age_verified": ("age_verified", [None]),
    "require_geo": ("geo", [None, {"allow": ["EU"]}]),
}
ONS = ["permit", "deny", "<absent>", "advice", None, ""]


def obligations():
    for typ, (key, attrs_list) in TYPES.items():
        for attrs in attrs_list:
            for on in ONS:
                ob = {"type": typ}
                if attrs is not None:
                    ob["attrs"] = attrs
                if on != "<absent>":
                    ob["on"] = on
                yield ob, key


_SHARED = BasicObligationChecker()   # one long-lived instance, as a Guard holds it: its answers may not depend on earlier calls


def _call(checker, obls, ctx, decision):
    try:
        ok, ch = checker.check({"decision": decision, "obligations": obls}, real.Context(attrs=ctx))
        return {"ok": bool(ok), "challenge": ch}
    except Exception as e:  # noqa: BLE001
        return {"raised": type(e).__name__}


class _ReenteringCtx(dict):
    """a context mapping whose first lookup makes ANOTHER decision's check run on the same checker instance (what two threads
    sharing one Guard do, made deterministic): a check may not be disturbed by a check that overlaps it"""

    def __init__(self, data, checker):
        super().__init__(data)
        self._checker, self._armed = checker, True

    def get(self, k, default=None):
        if self._armed:
            self._armed = False
            other = {"mfa": True, "auth_level": 9, "consent": {"k": True, "tos": True}, "tos_accepted": True, "captcha_passed": True,
                     "reauth_age_seconds": 0, "age_verified": True}
            self._checker.check({"decision": "permit", "obligations": [{"type": "require_mfa"}, {"type": "require_level", "attrs": {"min": 1}}]},
                                real.Context(attrs=other))
        return super().get(k, default)


def check_impl(obls, ctx, decision="permit"):
    fresh = _call(BasicObligationChecker(), obls, ctx, decision)
    shared = _call(_SHARED, obls, ctx, decision)
    if shared != fresh:
        return {"stateful": True, "fresh": fresh, "shared_instance": shared}
    if isinstance(ctx, dict):
        overlapped = _call(_SHARED, obls, _ReenteringCtx(ctx, _SHARED), decision)
        if overlapped != fresh:
            return {"stateful": True, "fresh": fresh, "overlapped_by_another_check": overlapped}
    return fresh


# ---------------------------------------------------------------------- the translated checker vs the same statements run by CPython

ABSENT = "<absent>"
G_TYPES = ["require_mfa", "require_level", "http_challenge", "require_consent", "require_terms_accept", "require_captcha", "require_reauth",
           "require_age_verified", "unknown", None, 5, ABSENT]
G_ONS = [ABSENT, "permit", "deny", "", None, "advice", 5]
G_ATTRS = [ABSENT, {}, None, "x", {"min": 2}, {"min": "2"}, {"min": None}, {"min": [1]}, {"min": 10 ** 400}, {"max_age": 300}, {"max_age": "300"},
           {"scheme": "Basic"}, {"scheme": "bearer"}, {"scheme": "NTLM"}, {"scheme": 5}, {"key": "tos"}, {"key": None}, {"key": 5}, {"key": ["a"]},
           # beyond the listed grid: floats (their str() and their reading as numbers go through the oracle tables), a dict as key
           {"min": 1.5}, {"min": -0.0}, {"max_age": 100.0}, {"scheme": 1.5}, {"scheme": ["Basic"]}, {"key": {"a": 1}}, {"key": 1.0}, {"key": True}]
G_MALFORMED = [None, "x", 5, []]
G_EFFECTS = ["permit", "deny"]
G_CTX = [{}, {"mfa": True}, {"mfa": 0}, {"auth_level": 2}, {"auth_level": "2"}, {"auth_level": 1}, {"auth_level": None}, {"auth_level": True},
         {"consent": True}, {"consent": {"tos": True}}, {"consent": {"tos": 0}}, {"consent": "x"}, {"tos_accepted": 1}, {"captcha_passed": True},
         {"reauth_age_seconds": 100}, {"reauth_age_seconds": 301}, {"reauth_age_seconds": "100"}, {"age_verified": True},
         {"auth_level": 1.5}, {"auth_level": float("nan")}, {"auth_level": 10 ** 400}, {"reauth_age_seconds": 300.0}, {"reauth_age_seconds": float("inf")},
         {"consent": {"tos": True, "True": 1, "1": 1, "5": 1}}, {"consent": []}]
G_NUMBERS = [None, True, False, 0, 1, -1, 2, 10 ** 400, -(10 ** 400), 2 ** 53 + 1, 2 ** 63, 1.5, 0.0, -0.0, float("nan"), float("inf"), float("-inf"), 5e-324,
             "2", " 2 ", "2.50", "x", "", "1e400", "-1e400", "nan", "inf", "-Infinity", "1_0", "0x10", "\u0663", "1e-400", [], [1], {}, {"a": 1}]


def _entry(typ, on, attrs):
    ob = {}
    if typ != ABSENT:
        ob["type"] = typ
    if on != ABSENT:
        ob["on"] = on
    if attrs != ABSENT:
        ob["attrs"] = attrs
    return ob


def step_grid(run: lib.Run, n_random: int, full: bool):
    """(ob, current_effect, ctx) for the loop body: every (type, attrs) × every context for an entry aimed at the current effect; every
    `on` × effect × type; malformed entries; then the full product (thorough) or a seeded sample of it (quick)"""
    for typ, attrs, ctx in itertools.product(G_TYPES, G_ATTRS, G_CTX):
        yield _entry(typ, ABSENT, attrs), "permit", ctx
    for on, eff, typ, ctx in itertools.product(G_ONS, G_EFFECTS, G_TYPES, ({}, {"mfa": True}, {"auth_level": 2})):
        yield _entry(typ, on, ABSENT), eff, ctx
    for ob, eff, ctx in itertools.product(G_MALFORMED, G_EFFECTS, G_CTX):
        yield ob, eff, ctx
    if full:
        for typ, on, attrs, eff, ctx in itertools.product(G_TYPES, G_ONS[1:], G_ATTRS, G_EFFECTS, G_CTX):
            yield _entry(typ, on, attrs), eff, ctx
    else:
        r = random.Random(run.seed * 131 + 5)
        pick = lambda xs: xs[r.randrange(len(xs))]  # noqa: E731
        for _ in range(n_random):
            yield _entry(pick(G_TYPES), pick(G_ONS), pick(G_ATTRS)), pick(G_EFFECTS), pick(G_CTX)


def prologue_grid():
    for dec, eff, allowed, obls in itertools.product([ABSENT, "permit", "deny", "Permit", "", None, 5], [ABSENT, "permit", "deny", None, ""],
                                                     [ABSENT, True, False, 1], [ABSENT, None, [], [{"type": "require_mfa"}], {}, "x", [None]]):
        d = {}
        for k, v in (("decision", dec), ("effect", eff), ("allowed", allowed), ("obligations", obls)):
            if v != ABSENT:
                d[k] = v
        yield (d,)


def _ext_table(fn, *roots) -> list:
    """the external function `fn` on every value reachable from `roots` (and the constants the source passes as defaults)"""
    nodes: list = [None, 0, ""]      # `d.get(k)` of a missing key, the defaults of `attrs.get("min", 0)` / `attrs.get("scheme", "")`
    for root in roots:
        proto._walk(root, nodes)
    seen, rows = set(), []
    for v in nodes:
        try:
            e = proto.enc(v)
        except TypeError:
            continue
        key = json.dumps(e)
        if key in seen:
            continue
        seen.add(key)
        rows.append([e, proto.enc(fn(v))])
    return rows


def translated_vs_python(run: lib.Run, facts: dict) -> tuple[bool, str]:
    """each translated fragment of `check` (Generated.Src.check_prologue / check_step / check_final, evaluated by `lake env lean --run
    Rbacx/Run/SrcEvalObl.lean`) against the SAME statement range of the current source text, wrapped into a Python function and run by
    CPython; `_finite_number` — an external function on the Lean side — is handed to the evaluator as the table of the real function's
    results, `str()` of floats/containers as the usual oracle table.  Also: the MODEL's `finiteNumber` against the real `_finite_number`
    (what the obligation C07_translated puts in the external function's place).  Validates the translator's flow fragments and
    Model/PyLib.lean — what C07_translated trusts."""
    import copy
    import subprocess
    import pytolean
    from extractors import src_translation_obligations as plug
    src = open(robl.__file__, encoding="utf-8").read()
    quick = run.tier == "quick"
    grids = {"check_prologue": lambda: prologue_grid(), "check_step": lambda: step_grid(run, 2500 * run.boost, not quick),
             "check_final": lambda: iter([(True,), (False,), (None,), ("permit",)])}
    calls = []
    for kind, start, lean_name in plug.FRAGMENTS:
        try:
            pyf, inputs, _outs = pytolean.fragment_as_python(src, plug.FUNCTION, kind, start, vars(robl))
        except pytolean.Unsupported as e:
            return False, f"fragment {lean_name}: {e}"
        if inputs != facts[lean_name]["inputs"]:
            return False, f"fragment {lean_name}: inputs of the imported module {inputs} differ from the extracted ones {facts[lean_name]['inputs']}"
        flow = facts[lean_name]["flow"]
        for args in grids[lean_name]():
            try:
                res = pyf(*copy.deepcopy(args))
                if flow:
                    want = ("ok", {"ret": proto.enc(res[1])} if res[0] == "ret" else {"next": [proto.enc(x) for x in res[1]]})
                else:
                    want = ("ok", {"ret": proto.enc(res)})
            except Exception as e:  # noqa: BLE001
                want = ("raised", type(e).__name__)
            calls.append((lean_name, list(args), want))
    for v in G_NUMBERS:
        calls.append(("finiteNumber", [v], ("ok", {"ret": proto.enc(robl._finite_number(copy.deepcopy(v)))})))
    lines = [json.dumps({"fn": fn, "args": [proto.enc(a) for a in args], "oracle": proto.build_oracle(*args),
                         "ext": {"_finite_number": _ext_table(robl._finite_number, *args)} if fn == "check_step" else {}})
             for fn, args, _ in calls]
    p = subprocess.run(["lake", "env", "lean", "--run", "Rbacx/Run/SrcEvalObl.lean"], cwd=lib.LEAN, input="\n".join(lines) + "\n",
                       capture_output=True, text=True, timeout=1800)
    outs = [ln for ln in p.stdout.split("\n") if ln]
    if p.returncode != 0 or len(outs) != len(lines):
        return False, "SrcEvalObl: " + (p.stderr or p.stdout)[-800:]
    bad = 0
    for (fn, args, want), ln in zip(calls, outs):
        got = json.loads(ln)
        run.count("translated-obligations")
        if want[0] != "ok":
            run.count("translated-obligations: python raised (not judged)")
            continue          # CPython raised (an argument outside the fragment's domain): not judged
        run.count(f"translated-obligations: {fn} -> {'ret' if 'ret' in want[1] else 'next'}")
        if got != want[1]:
            bad += 1
            if bad == 1:
                what = ("the model's finiteNumber and the real _finite_number differ" if fn == "finiteNumber" else
                        f"the translated fragment {fn} (Generated.Src) and the same statements run by CPython differ")
                run.disagreements.append({"part": "translated source vs python", "fragment": fn, "args": args,
                                          "impl": {"python": want[1]}, "model": got, "what": what})
    run.evaluations += len(calls)
    return bad == 0, f"{bad} of {len(calls)} evaluations differ" if bad else f"agree on {len(calls)} evaluations"


def run_cases(run: lib.Run, audit: dict, scale: int = 1):
    quick = run.tier == "quick"
    batch, cmds = [], []

    def add(obls, ctx, decision="permit"):
        batch.append((obls, ctx, decision, check_impl(obls, ctx, decision)))
        cmds.append({"cmd": "oblig", "obligations": proto.enc(obls), "ctx": proto.enc(ctx), "decision": decision, "consts": {},
                     "oracle": proto.build_oracle(obls, ctx)})

    singles = list(obligations())
    for ob, key in singles:
        for v in CTX_VALUES:
            ctx = {} if v == "<absent>" or key is None else {key: v}
            add([ob], ctx)
            if key is None:
                break
    # other keys present do not matter; deny effect; malformed entries
    add([{"type": "require_mfa"}], {"mfa": True}, "deny")
    add([{"type": "http_challenge", "on": "deny", "attrs": {"scheme": "Basic"}}], {}, "deny")
    add([None, {}, {"type": None}, "x", 5, ["require_mfa"], {"type": "require_mfa"}], {"mfa": False})
    add([None, {}, "x"], {})
    # a `type` that is not a string (the schema does not forbid it): ignored like any unknown type, the later obligation still counts
    for odd in (["require_mfa"], {"t": 1}, 5, None, True, [["x"]], {"type": "require_mfa"}):
        add([{"type": odd}, {"type": "require_mfa"}], {"mfa": False})
        add([{"type": odd, "on": "permit", "attrs": {"min": 3}}, {"type": "require_level", "attrs": {"min": 3}}], {"auth_level": 1})
        add([{"type": odd}], {})
    # all ordered pairs (first-failure order) over a reduced pool, against contexts that meet none / the first / the second / both
    pool = [({"type": "require_mfa"}, "mfa"), ({"type": "require_level", "attrs": {"min": 2}}, "auth_level"),
            ({"type": "require_consent", "attrs": {"key": "k"}}, "consent"), ({"type": "require_reauth", "attrs": {"max_age": 60}}, "reauth_age_seconds"),
            ({"type": "http_challenge", "attrs": {"scheme": "Bearer"}}, None), ({"type": "require_geo"}, None),
            ({"type": "require_captcha", "on": "deny"}, "captcha_passed"), ({"type": "require_terms_accept"}, "tos_accepted")]
    good = {"mfa": True, "auth_level": 3, "consent": {"k": True}, "reauth_age_seconds": 10, "captcha_passed": True, "tos_accepted": True}
    for (o1, k1), (o2, k2) in itertools.product(pool, repeat=2):
        for meet in range(4):
            ctx = {}
            if meet & 1 and k1:
                ctx[k1] = good[k1]
            if meet & 2 and k2:
                ctx[k2] = good[k2]
            add([o1, o2], ctx)
    # several obligations of the SAME type with different attrs: each one is a requirement of its own
    same = [[{"type": "require_level", "attrs": {"min": 1}}, {"type": "require_level", "attrs": {"min": 3}}],
            [{"type": "require_level", "attrs": {"min": 3}}, {"type": "require_level", "attrs": {"min": 1}}],
            [{"type": "require_consent", "attrs": {"key": "k"}}, {"type": "require_consent", "attrs": {"key": "tos"}}],
            [{"type": "require_consent"}, {"type": "require_consent", "attrs": {"key": "tos"}}],
            [{"type": "require_reauth", "attrs": {"max_age": 300}}, {"type": "require_reauth", "attrs": {"max_age": 5}}],
            [{"type": "require_mfa", "on": "deny"}, {"type": "require_mfa"}],
            [{"type": "require_mfa", "on": "advice"}, {"type": "require_mfa", "on": "permit"}],
            [{"type": "http_challenge", "on": "deny", "attrs": {"scheme": "Basic"}}, {"type": "http_challenge", "attrs": {"scheme": "Digest"}}],
            [{"type": "require_geo"}, {"type": "require_geo"}, {"type": "require_captcha"}],
            [{"type": "require_level", "attrs": {"min": "x"}}, {"type": "require_level", "attrs": {"min": 2}}]]
    same_ctx = [{}, {"auth_level": 2, "consent": {"k": True}, "reauth_age_seconds": 10, "mfa": False, "captcha_passed": False},
                {"auth_level": 2, "consent": {"k": True, "tos": 0}, "reauth_age_seconds": 100, "mfa": True, "captcha_passed": True},
                {"auth_level": 5, "consent": {"k": 1, "tos": 1}, "reauth_age_seconds": 1, "mfa": True, "captcha_passed": True}]
    for obs in same:
        for ctx in same_ctx:
            add(obs, ctx)
    # random lists of 3–5 obligations (duplicates of a type included) against random contexts
    import random as _random
    rr = _random.Random(run.seed * 31 + 7)
    pool_obs = [ob for ob, _ in singles]
    for _ in range((300 if quick else 3000) * scale):
        obs = [pool_obs[rr.randrange(len(pool_obs))] for _ in range(rr.randrange(3, 6))]
        ctx = {}
        for k, vals in (("mfa", [True, False, 1]), ("auth_level", [0, 2, 3, "3", None]), ("consent", [True, False, {"k": 1}, {"tos": 1, "k": 0}]),
                        ("tos_accepted", [True, False]), ("captcha_passed", [True, 0]), ("reauth_age_seconds", [0, 30, 61, "30"]),
                        ("age_verified", [True, False])):
            if rr.random() < 0.6:
                ctx[k] = vals[rr.randrange(len(vals))]
        add(obs, ctx)
    answers = proto.run_driver(cmds)
    for (obls, ctx, decision, out), model in zip(batch, answers):
        cls = "stateful" if "stateful" in out else "raised" if "raised" in out else ("met" if out["ok"] else f"unmet:{out['challenge']}")
        run.count("checker:" + cls)
        run.case([obls, ctx, decision], "ok" in out and not out["ok"], {"obligations": obls, "ctx": ctx, "impl": out})
        if out != model:
            run.spec_failures.append({"obligations": obls, "ctx": ctx, "decision": decision, "impl": out, "documented": model,
                                      "spec": "built-in checker deviates from the documented table (Rbacx.checkObligations)"})
    # through the engine: built-in / custom / raising checkers, sync and async
    consts = audit["facts"]["consts"]
    cases = []
    verdicts = ["builtin", "raise"] + [["custom", ok, ch] for ok in (True, False, 0, None, "yes") for ch in (None, "custom_ch")]
    pol_ob = lambda obs: {"algorithm": "deny-overrides", "rules": [{"id": "r", "effect": "permit", "actions": ["read"], "resource": {"type": "doc"}, "obligations": obs}]}
    reqf = lambda ctx: {"sid": "u", "roles": [], "sattrs": {}, "action": "read", "rtype": "doc", "rid": "1", "rattrs": {}, "ctx": ctx}
    # (the stride is coprime to the 6 `on` values that vary fastest in `singles`, so every `on` — also null and "" — goes through the engine)
    for (ob, key) in singles[:: (5 if quick else 1)]:
        for v in CTX_VALUES[:: (3 if quick else 1)]:
            ctx = {} if v == "<absent>" or key is None else {key: v}
            cases.append((pol_ob([ob]), reqf(ctx), {"strict": False}))
    for vd in verdicts:
        for obs in ([], [{"type": "require_mfa"}], [{"type": "require_mfa", "on": "deny"}]):
            for ctx in ({}, {"mfa": True}):
                cfg = {"strict": False}
                if vd != "builtin":
                    cfg["checker"] = vd
                cases.append((pol_ob(obs), reqf(ctx), cfg))
    # failing / recording sinks around an unmet and a met obligation: a sink is only a consumer of the finished decision
    for sink in ({"metrics": True, "sink_mode": "raise"}, {"logger": True, "sink_mode": "raise"}, {"metrics": True, "logger": True},
                 {"metrics": True, "logger": True, "sink_mode": "raise"}):
        for obs in same[:3] + [[{"type": "require_mfa"}], [{"type": "http_challenge", "attrs": {"scheme": "Basic"}}]]:
            for ctx in same_ctx[:3]:
                cases.append((pol_ob(obs), reqf(ctx), {"strict": False, **sink}))
    deny_pol = {"algorithm": "deny-overrides", "rules": [{"id": "d", "effect": "deny", "actions": ["read"], "resource": {"type": "doc"},
                                                          "obligations": [{"type": "http_challenge", "on": "deny", "attrs": {"scheme": "Basic"}}]}]}
    cases.append((deny_pol, reqf({}), {"strict": False}))
    cases.append((deny_pol, reqf({}), {"strict": False, "checker": ["custom", True, "x"]}))
    flav = ["sync", "async", "sync-collab-async", "async-collab-async", "sync-collab-awaitable", "async-collab-awaitable"]
    res = gc.run_batch(cases, consts, flavour_of=lambda i: flav[i % 6])
    for pol, req, cfg, out, model, extra in res:
        run.count("guard:" + gc.outcome_class(out))
        run.case([pol, req, cfg], "ok" in out and out["ok"]["reason"] == "obligation_failed")
        proj = (lambda o: ("raised",) if "raised" in o else (o["ok"]["allowed"], o["ok"]["effect"], o["ok"]["reason"], o["ok"]["challenge"]))
        if proj(out) != proj(model):
            run.spec_failures.append({"policy": pol, "request": req, "cfg": cfg, "impl": out, "documented": model,
                                      "spec": "engine gate deviates from C07 (allowed, effect, reason, challenge)"})


def cached_sequences(run: lib.Run) -> None:
    """the gate is applied on EVERY evaluation, also when the raw decision comes out of the decision cache: one cached engine answers
    the same request several times while what the checker sees changes in between — (a) a checker derived from the built-in one that
    also consults state of its own (the documented extension pattern), sync and async; (b) the built-in checker with the context's values alternating.  Every answer is the one of an uncached engine at that moment."""
    import asyncio
    from rbacx.core.cache import DefaultInMemoryCache
    from rbacx.core.engine import Guard
    rows = [("require_mfa", None, {"mfa": True}, {"mfa": False}), ("require_level", {"min": 2}, {"auth_level": 3}, {"auth_level": 1}),
            ("require_consent", {"key": "k"}, {"consent": {"k": True}}, {"consent": {}}), ("require_terms_accept", None, {"tos_accepted": True}, {}),
            ("require_captcha", None, {"captcha_passed": True}, {"captcha_passed": 0}),
            ("require_reauth", {"max_age": 60}, {"reauth_age_seconds": 5}, {"reauth_age_seconds": 600}), ("require_age_verified", None, {"age_verified": True}, {})]
    revoked: set = set()

    class Derived(BasicObligationChecker):
        def check(self, decision, context):
            ok, ch = super().check(decision, context)
            if ok and "s-1" in revoked:
                return False, "reauth"
            return ok, ch

    class AsyncDerived(Derived):
        async def check(self, decision, context):  # type: ignore[override]
            await asyncio.sleep(0)
            return Derived.check(self, decision, context)
    proj = lambda d: (d.allowed, d.effect, d.reason, d.challenge)  # noqa: E731
    s_, a_, r_, _c = real.make_request({"sid": "u", "roles": [], "sattrs": {}, "action": "read", "rtype": "doc", "rid": "1", "rattrs": {}, "ctx": {}})
    # a permit WITHOUT obligations (key absent / an empty list / only entries for the other effect) is still put to a custom checker:
    # "a negative verdict of a custom checker … is honoured the same way" does not depend on what the rule carries
    bare = [("<no obligations key>", "absent", {}, None), ("<empty obligations list>", "empty", {}, None), ("<only on:deny entries>", "other", {}, None)]
    for typ, attrs, good, bad in rows + bare:
        if bad is None:
            rule = {"id": "r", "effect": "permit", "actions": ["read"], "resource": {"type": "doc"}}
            if attrs == "empty":
                rule["obligations"] = []
            elif attrs == "other":
                rule["obligations"] = [{"type": "require_mfa", "on": "deny"}]
            pol = {"algorithm": "permit-overrides", "rules": [rule]}
        else:
            ob = {"type": typ} if attrs is None else {"type": typ, "attrs": attrs}
            pol = {"algorithm": "permit-overrides", "rules": [{"id": "r", "effect": "permit", "actions": ["read"], "resource": {"type": "doc"}, "obligations": [ob]}]}
        # (b) mapping contexts alternating on one cached engine
        for as_mapping in ((False,) if bad is not None else ()):   # the request context is a `Context` (the documented API); a bare mapping is outside the quantifier
            for order in ((good, bad, good, bad), (bad, good, bad, good)):
                g = Guard(copy.deepcopy(pol), cache=DefaultInMemoryCache())
                for i, ctx in enumerate(order):
                    c_ = dict(ctx) if as_mapping else real.Context(attrs=dict(ctx))
                    got = proj(g.evaluate_sync(s_, a_, r_, c_))
                    want = proj(Guard(copy.deepcopy(pol)).evaluate_sync(s_, a_, r_, dict(ctx) if as_mapping else real.Context(attrs=dict(ctx))))
                    run.evaluations += 1
                    run.count("cached-sequence")
                    if got != want:
                        run.spec_failures.append({"part": "cached sequence", "policy": pol, "contexts_in_order": list(order), "context_as_plain_mapping": as_mapping,
                                                  "evaluation": i + 1, "impl": list(got), "documented": list(want),
                                                  "spec": "on a cached engine the obligation gate did not judge the request at hand (allowed, effect, reason, challenge of an uncached engine)"})
                        return
        # (a) a derived checker whose own verdict changes between two evaluations of the same request
        for cls, use_async in ((Derived, False), (AsyncDerived, True)):
            revoked.clear()
            g = Guard(copy.deepcopy(pol), cache=DefaultInMemoryCache(), obligation_checker=cls())
            ctx = real.Context(attrs=dict(good))
            ev = (lambda: asyncio.run(g.evaluate_async(s_, a_, r_, ctx))) if use_async else (lambda: g.evaluate_sync(s_, a_, r_, ctx))
            seq = []
            for step in ("live", "revoked", "live again"):
                if step == "revoked":
                    revoked.add("s-1")
                else:
                    revoked.discard("s-1")
                seq.append(proj(ev()))
            run.evaluations += 1
            run.count("cached-sequence:derived-checker")
            want = [(True, "permit", "matched", None), (False, "deny", "obligation_failed", "reauth"), (True, "permit", "matched", None)]
            if seq != want:
                run.spec_failures.append({"part": "cached sequence", "policy": pol, "checker": cls.__name__ + " (built-in first, then its own revocation list)",
                                          "impl": [list(x) for x in seq], "documented": [list(x) for x in want],
                                          "spec": "on a cached engine a negative verdict of the checker was not honoured (or a withdrawn one stuck)"})
                return


def check(run: lib.Run, audit: dict) -> int:
    run.rule = ("exhaustive: 9 obligation types × every attrs shape (valid/invalid/absent/non-dict) × 6 `on` values × 25 context values (absent, null, "
                "booleans, numbers incl. NaN/Inf/10^400/fractions, numeric and non-numeric strings, lists, objects) through the checker; all ordered "
                "pairs of 8 obligations × 4 contexts (first-failure order); lists with several obligations of one type; random lists of 3–5 obligations; "
                "every call answered by a fresh and by one long-lived checker instance; through Guard (also with raising/recording metric and log sinks) × {built-in, raising, 10 custom verdicts} × sync/async; "
                "the translated source of BasicObligationChecker.check (three fragments) vs the same statements run by CPython: 12 types × 27 attrs shapes × "
                "25 contexts, 7 `on` values × 2 effects × 12 types, malformed entries, a seeded sample (quick) / all (thorough) of the full product, "
                "7×5×4×7 raw-decision shapes for the statements before the loop; the model's finiteNumber vs the real _finite_number on 36 values. "
                "non-trivial = the obligation is unmet / the permit is revoked")
    run.exhaustive = True
    run.assumptions = ["Context.attrs is an object or null", "float(str) is an oracle computed by the harness"]
    if not audit["ok"]:
        raise lib.CheckError(f"Lean build/audit failed at {audit['stage']}: {audit.get('log') or audit.get('forbidden') or audit.get('bad_axioms')}")
    # the checker as it is written NOW, translated into Lean, is proved equal to the model's (per-run obligation)
    tr = audit["facts"].get("translated_obligations")
    untranslatable = isinstance(tr, dict) and "extraction_failed" in tr
    ok_tr, detail_tr = lib.run_obligation("C07_translated")
    run.obligation("C07_translated: Generated.Src.{check_prologue,check_step,check_final} (the current source text of BasicObligationChecker.check, "
                   "_finite_number as an external function) = prologueModel / obligationUnmet / checkObligations of the model, for every obligation "
                   "entry, context, oracle and string effect", ok_tr,
                   "discharged" if ok_tr else (str(tr["extraction_failed"]) if untranslatable else detail_tr))
    if untranslatable or not isinstance(tr, dict):
        ok_py, detail_py = True, "skipped: the checker is not in the translatable subset (see C07_translated)"
    else:
        ok_py, detail_py = translated_vs_python(run, tr)
    run.obligation("translated checker evaluates like the same statements run by CPython; the model's finiteNumber like the real _finite_number "
                   "(translator + Model/PyLib.lean + the external function vs CPython)", ok_py, detail_py)
    # the engine's gate around the checker (Guard._evaluate_core_async: decision_str … d = Decision(…)) as it is written NOW is proved to
    # be the Decision of the model's finishDecision — the obligation is C01's; its comparison with CPython runs there
    from props import c01 as _c01
    ok_gate, _, detail_gate, tr_gate = _c01.translated_obligation(run, audit, differential=False)
    run_cases(run, audit, scale=run.boost * (1 if ok_tr and ok_gate else 2))
    cached_sequences(run)
    violations = []
    if run.spec_failures:
        path = run.write_replay("spec", {"what": "C07 violated", "case": run.spec_failures[0], "count": len(run.spec_failures)})
        violations.append((path, True))
    elif not ok_gate:
        path = run.write_replay("obligation", {"what": "per-run obligation Rbacx/Run/C01_translated.lean no longer checks: the translated source of the "
                                               "engine's obligation gate (Guard._evaluate_core_async) is not proved equal to the Decision of the "
                                               "model's finishDecision, the object theorems Rbacx.C07.c07_guard_* are about; the search found no "
                                               "obligation list, checker and context on which the engine deviates from the documented behaviour",
                                               "translation": tr_gate, "lean": detail_gate[-1500:], "first_disagreement": run.disagreements[:1]})
        violations.append((path, False))
    elif not ok_tr:
        path = run.write_replay("obligation", {"what": "per-run obligation Rbacx/Run/C07_translated.lean no longer checks: the translated source of "
                                               "BasicObligationChecker.check is not proved equal to the model's obligationUnmet / checkObligations, the "
                                               "functions theorems Rbacx.C07.* are about; the widened search found no obligation list and context on "
                                               "which the checker deviates from the documented table",
                                               "translation": tr, "lean": detail_tr[-1500:], "first_disagreement": run.disagreements[:1]})
        violations.append((path, False))
    elif run.disagreements or not ok_py:
        first = run.disagreements[0] if run.disagreements else {"part": "translated source vs python", "what": detail_py}
        path = run.write_replay("correspondence", {"what": "translated source vs python: " + str(first.get("what")) + "; the obligation "
                                                   "C07_translated rests on a translation that CPython contradicts (or that could not be evaluated)",
                                                   "first": first, "count": len(run.disagreements)})
        violations.append((path, False))
    return run.finish(audit, violations)


def replay(run: lib.Run, audit: dict, path: str) -> int:
    rp = json.load(open(path))
    c = rp.get("case")
    if c is None:
        print("nothing to re-run on the implementation:", rp.get("what"))
        print("recorded:", rp.get("first") or rp.get("first_disagreement") or rp.get("lean"))
        return 0
    if "obligations" in c:
        print("impl now:", check_impl(c["obligations"], c["ctx"], c.get("decision", "permit")), "documented:", c["documented"])
    else:
        print("impl now:", real.run_guard(c["policy"], c["request"], c["cfg"]), "documented:", c["documented"])
    return 0
