"""C07 — obligations gate permits; the built-in checker fails closed.

Tie: `BasicObligationChecker().check` on the full cross product of obligation shapes × context
values against the model's table (`Rbacx.obligationUnmet`, characterised row by row by theorems
Rbacx.C07.*), all ordered pairs for first-failure order, and through `Guard` with built-in, custom
(sync/async, every verdict) and raising checkers on (allowed, effect, reason, challenge)."""
from __future__ import annotations

import itertools

import guardcases as gc
import lib
import proto
import real
from rbacx.core.obligations import BasicObligationChecker

CTX_VALUES = ["<absent>", None, False, True, 0, 1, 2.9, 3, -1, float("nan"), float("inf"), "3", "high", "", " 2 ", [], [3], {},
              {"k": True}, {"k": 0}, {"tos": 1}, 10 ** 400, 60, 60.9, 61]
TYPES = {
    "require_mfa": ("mfa", [None]),
    "require_level": ("auth_level", [{"min": 10 ** 400}, {"min": -(10 ** 400)}, {"min": 2}, {"min": 2.7}, {"min": "2"}, {"min": "x"}, {"min": None}, {"min": True}, {}, None, "bad", [1], {"min": [2]}, {"min": float("nan")}]),
    "http_challenge": (None, [{"scheme": "Basic"}, {"scheme": "BEARER"}, {"scheme": "digest"}, {"scheme": "ntlm"}, {}, None, {"scheme": None}, {"scheme": 5}, "Basic", ["Basic"]]),
    "require_consent": ("consent", [None, {}, {"key": "k"}, {"key": "tos"}, {"key": None}, {"key": 1}, {"key": ["k"]}, {"key": {"a": 1}}]),
    "require_terms_accept": ("tos_accepted", [None]),
    "require_captcha": ("captcha_passed", [None]),
    "require_reauth": ("reauth_age_seconds", [{"max_age": 10 ** 400}, {"max_age": 60}, {"max_age": 60.5}, {"max_age": "60"}, {"max_age": "oops"}, {"max_age": None}, {}, None, {"max_age": -1}, {"max_age": 0}]),
    "require_age_verified": ("age_verified", [None]),
    "require_geo": ("geo", [None, {"allow": ["EU"]}]),
}
ONS = ["permit", "deny", "<absent>", "advice", None, ""]


def obligations():
    for typ, (key, attrs_list) in TYPES.items():
        for attrs in attrs_list:
            for on in ONS:
                ob = {"type": typ}
                if attrs is not None:
                    ob["attrs"] = attrs
                if on != "<absent>":
                    ob["on"] = on
                yield ob, key


_SHARED = BasicObligationChecker()   # one long-lived instance, as a Guard holds it: its answers may not depend on earlier calls


def _call(checker, obls, ctx, decision):
    try:
        ok, ch = checker.check({"decision": decision, "obligations": obls}, real.Context(attrs=ctx))
        return {"ok": bool(ok), "challenge": ch}
    except Exception as e:  # noqa: BLE001
        return {"raised": type(e).__name__}


class _ReenteringCtx(dict):
    """a context mapping whose first lookup makes ANOTHER decision's check run on the same checker instance (what two threads
    sharing one Guard do, made deterministic): a check may not be disturbed by a check that overlaps it"""

    def __init__(self, data, checker):
        super().__init__(data)
        self._checker, self._armed = checker, True

    def get(self, k, default=None):
        if self._armed:
            self._armed = False
            other = {"mfa": True, "auth_level": 9, "consent": {"k": True, "tos": True}, "tos_accepted": True, "captcha_passed": True,
                     "reauth_age_seconds": 0, "age_verified": True}
            self._checker.check({"decision": "permit", "obligations": [{"type": "require_mfa"}, {"type": "require_level", "attrs": {"min": 1}}]},
                                real.Context(attrs=other))
        return super().get(k, default)


def check_impl(obls, ctx, decision="permit"):
    fresh = _call(BasicObligationChecker(), obls, ctx, decision)
    shared = _call(_SHARED, obls, ctx, decision)
    if shared != fresh:
        return {"stateful": True, "fresh": fresh, "shared_instance": shared}
    if isinstance(ctx, dict):
        overlapped = _call(_SHARED, obls, _ReenteringCtx(ctx, _SHARED), decision)
        if overlapped != fresh:
            return {"stateful": True, "fresh": fresh, "overlapped_by_another_check": overlapped}
    return fresh


def run_cases(run: lib.Run, audit: dict):
    quick = run.tier == "quick"
    batch, cmds = [], []

    def add(obls, ctx, decision="permit"):
        batch.append((obls, ctx, decision, check_impl(obls, ctx, decision)))
        cmds.append({"cmd": "oblig", "obligations": proto.enc(obls), "ctx": proto.enc(ctx), "decision": decision, "consts": {},
                     "oracle": proto.build_oracle(obls, ctx)})

    singles = list(obligations())
    for ob, key in singles:
        for v in CTX_VALUES:
            ctx = {} if v == "<absent>" or key is None else {key: v}
            add([ob], ctx)
            if key is None:
                break
    # other keys present do not matter; deny effect; malformed entries
    add([{"type": "require_mfa"}], {"mfa": True}, "deny")
    add([{"type": "http_challenge", "on": "deny", "attrs": {"scheme": "Basic"}}], {}, "deny")
    add([None, {}, {"type": None}, "x", 5, ["require_mfa"], {"type": "require_mfa"}], {"mfa": False})
    add([None, {}, "x"], {})
    # a `type` that is not a string (the schema does not forbid it): ignored like any unknown type, the later obligation still counts
    for odd in (["require_mfa"], {"t": 1}, 5, None, True, [["x"]], {"type": "require_mfa"}):
        add([{"type": odd}, {"type": "require_mfa"}], {"mfa": False})
        add([{"type": odd, "on": "permit", "attrs": {"min": 3}}, {"type": "require_level", "attrs": {"min": 3}}], {"auth_level": 1})
        add([{"type": odd}], {})
    # all ordered pairs (first-failure order) over a reduced pool, against contexts that meet none / the first / the second / both
    pool = [({"type": "require_mfa"}, "mfa"), ({"type": "require_level", "attrs": {"min": 2}}, "auth_level"),
            ({"type": "require_consent", "attrs": {"key": "k"}}, "consent"), ({"type": "require_reauth", "attrs": {"max_age": 60}}, "reauth_age_seconds"),
            ({"type": "http_challenge", "attrs": {"scheme": "Bearer"}}, None), ({"type": "require_geo"}, None),
            ({"type": "require_captcha", "on": "deny"}, "captcha_passed"), ({"type": "require_terms_accept"}, "tos_accepted")]
    good = {"mfa": True, "auth_level": 3, "consent": {"k": True}, "reauth_age_seconds": 10, "captcha_passed": True, "tos_accepted": True}
    for (o1, k1), (o2, k2) in itertools.product(pool, repeat=2):
        for meet in range(4):
            ctx = {}
            if meet & 1 and k1:
                ctx[k1] = good[k1]
            if meet & 2 and k2:
                ctx[k2] = good[k2]
            add([o1, o2], ctx)
    # several obligations of the SAME type with different attrs: each one is a requirement of its own
    same = [[{"type": "require_level", "attrs": {"min": 1}}, {"type": "require_level", "attrs": {"min": 3}}],
            [{"type": "require_level", "attrs": {"min": 3}}, {"type": "require_level", "attrs": {"min": 1}}],
            [{"type": "require_consent", "attrs": {"key": "k"}}, {"type": "require_consent", "attrs": {"key": "tos"}}],
            [{"type": "require_consent"}, {"type": "require_consent", "attrs": {"key": "tos"}}],
            [{"type": "require_reauth", "attrs": {"max_age": 300}}, {"type": "require_reauth", "attrs": {"max_age": 5}}],
            [{"type": "require_mfa", "on": "deny"}, {"type": "require_mfa"}],
            [{"type": "require_mfa", "on": "advice"}, {"type": "require_mfa", "on": "permit"}],
            [{"type": "http_challenge", "on": "deny", "attrs": {"scheme": "Basic"}}, {"type": "http_challenge", "attrs": {"scheme": "Digest"}}],
            [{"type": "require_geo"}, {"type": "require_geo"}, {"type": "require_captcha"}],
            [{"type": "require_level", "attrs": {"min": "x"}}, {"type": "require_level", "attrs": {"min": 2}}]]
    same_ctx = [{}, {"auth_level": 2, "consent": {"k": True}, "reauth_age_seconds": 10, "mfa": False, "captcha_passed": False},
                {"auth_level": 2, "consent": {"k": True, "tos": 0}, "reauth_age_seconds": 100, "mfa": True, "captcha_passed": True},
                {"auth_level": 5, "consent": {"k": 1, "tos": 1}, "reauth_age_seconds": 1, "mfa": True, "captcha_passed": True}]
    for obs in same:
        for ctx in same_ctx:
            add(obs, ctx)
    # random lists of 3–5 obligations (duplicates of a type included) against random contexts
    import random as _random
    rr = _random.Random(run.seed * 31 + 7)
    pool_obs = [ob for ob, _ in singles]
    for _ in range(300 if quick else 3000):
        obs = [pool_obs[rr.randrange(len(pool_obs))] for _ in range(rr.randrange(3, 6))]
        ctx = {}
        for k, vals in (("mfa", [True, False, 1]), ("auth_level", [0, 2, 3, "3", None]), ("consent", [True, False, {"k": 1}, {"tos": 1, "k": 0}]),
                        ("tos_accepted", [True, False]), ("captcha_passed", [True, 0]), ("reauth_age_seconds", [0, 30, 61, "30"]),
                        ("age_verified", [True, False])):
            if rr.random() < 0.6:
                ctx[k] = vals[rr.randrange(len(vals))]
        add(obs, ctx)
    answers = proto.run_driver(cmds)
    for (obls, ctx, decision, out), model in zip(batch, answers):
        cls = "stateful" if "stateful" in out else "raised" if "raised" in out else ("met" if out["ok"] else f"unmet:{out['challenge']}")
        run.count("checker:" + cls)
        run.case([obls, ctx, decision], "ok" in out and not out["ok"], {"obligations": obls, "ctx": ctx, "impl": out})
        if out != model:
            run.spec_failures.append({"obligations": obls, "ctx": ctx, "decision": decision, "impl": out, "documented": model,
                                      "spec": "built-in checker deviates from the documented table (Rbacx.checkObligations)"})
    # through the engine: built-in / custom / raising checkers, sync and async
    consts = audit["facts"]["consts"]
    cases = []
    verdicts = ["builtin", "raise"] + [["custom", ok, ch] for ok in (True, False, 0, None, "yes") for ch in (None, "custom_ch")]
    pol_ob = lambda obs: {"algorithm": "deny-overrides", "rules": [{"id": "r", "effect": "permit", "actions": ["read"], "resource": {"type": "doc"}, "obligations": obs}]}
    reqf = lambda ctx: {"sid": "u", "roles": [], "sattrs": {}, "action": "read", "rtype": "doc", "rid": "1", "rattrs": {}, "ctx": ctx}
    for (ob, key) in singles[:: (3 if quick else 1)]:
        for v in CTX_VALUES[:: (3 if quick else 1)]:
            ctx = {} if v == "<absent>" or key is None else {key: v}
            cases.append((pol_ob([ob]), reqf(ctx), {"strict": False}))
    for vd in verdicts:
        for obs in ([], [{"type": "require_mfa"}], [{"type": "require_mfa", "on": "deny"}]):
            for ctx in ({}, {"mfa": True}):
                cfg = {"strict": False}
                if vd != "builtin":
                    cfg["checker"] = vd
                cases.append((pol_ob(obs), reqf(ctx), cfg))
    # failing / recording sinks around an unmet and a met obligation: a sink is only a consumer of the finished decision
    for sink in ({"metrics": True, "sink_mode": "raise"}, {"logger": True, "sink_mode": "raise"}, {"metrics": True, "logger": True},
                 {"metrics": True, "logger": True, "sink_mode": "raise"}):
        for obs in same[:3] + [[{"type": "require_mfa"}], [{"type": "http_challenge", "attrs": {"scheme": "Basic"}}]]:
            for ctx in same_ctx[:3]:
                cases.append((pol_ob(obs), reqf(ctx), {"strict": False, **sink}))
    deny_pol = {"algorithm": "deny-overrides", "rules": [{"id": "d", "effect": "deny", "actions": ["read"], "resource": {"type": "doc"},
                                                          "obligations": [{"type": "http_challenge", "on": "deny", "attrs": {"scheme": "Basic"}}]}]}
    cases.append((deny_pol, reqf({}), {"strict": False}))
    cases.append((deny_pol, reqf({}), {"strict": False, "checker": ["custom", True, "x"]}))
    flav = ["sync", "async", "sync-collab-async", "async-collab-async", "sync-collab-awaitable", "async-collab-awaitable"]
    res = gc.run_batch(cases, consts, flavour_of=lambda i: flav[i % 6])
    for pol, req, cfg, out, model, extra in res:
        run.count("guard:" + gc.outcome_class(out))
        run.case([pol, req, cfg], "ok" in out and out["ok"]["reason"] == "obligation_failed")
        proj = (lambda o: ("raised",) if "raised" in o else (o["ok"]["allowed"], o["ok"]["effect"], o["ok"]["reason"], o["ok"]["challenge"]))
        if proj(out) != proj(model):
            run.spec_failures.append({"policy": pol, "request": req, "cfg": cfg, "impl": out, "documented": model,
                                      "spec": "engine gate deviates from C07 (allowed, effect, reason, challenge)"})


def check(run: lib.Run, audit: dict) -> int:
    run.rule = ("exhaustive: 9 obligation types × every attrs shape (valid/invalid/absent/non-dict) × 6 `on` values × 25 context values (absent, null, "
                "booleans, numbers incl. NaN/Inf/10^400/fractions, numeric and non-numeric strings, lists, objects) through the checker; all ordered "
                "pairs of 8 obligations × 4 contexts (first-failure order); lists with several obligations of one type; random lists of 3–5 obligations; "
                "every call answered by a fresh and by one long-lived checker instance; through Guard (also with raising/recording metric and log sinks) × {built-in, raising, 10 custom verdicts} × sync/async. "
                "non-trivial = the obligation is unmet / the permit is revoked")
    run.exhaustive = True
    run.assumptions = ["Context.attrs is an object or null", "float(str) is an oracle computed by the harness"]
    if not audit["ok"]:
        raise lib.CheckError(f"Lean build/audit failed at {audit['stage']}: {audit.get('log') or audit.get('forbidden') or audit.get('bad_axioms')}")
    run_cases(run, audit)
    violations = []
    if run.spec_failures:
        path = run.write_replay("spec", {"what": "C07 violated", "case": run.spec_failures[0], "count": len(run.spec_failures)})
        violations.append((path, True))
    return run.finish(audit, violations)


def replay(run: lib.Run, audit: dict, path: str) -> int:
    import json
    c = json.load(open(path))["case"]
    if "obligations" in c:
        print("impl now:", check_impl(c["obligations"], c["ctx"], c.get("decision", "permit")), "documented:", c["documented"])
    else:
        print("impl now:", real.run_guard(c["policy"], c["request"], c["cfg"]), "documented:", c["documented"])
    return 0
