"""C08 — the decision cache is transparent over every history.

Tie: the theorem (`Rbacx.C08.c08_transparent`) is about ANY honest cache under the engine's cache
protocol (lookup under key(policy, env); on a miss decide, store, return; set_policy/clear_cache
clear). The harness (1) checks the protocol the real Guard speaks to its cache against the model's
`stepCached` op shapes (recording cache), (2) probes `KeyFaithful` on near-duplicate request pools
(equal real keys ⇒ equal model envs), (3) runs histories on real engines with the built-in LRU+TTL
cache, a dict cache and a copying cache — alone or shared by a second engine (other policy, strict
mode) — next to uncached engines holding the same current policies and compares every Decision field."""
from __future__ import annotations

import copy
import itertools
import json
import random

import gen
import lib
import proto
import real
from rbacx.core import cache as rcache
from rbacx.core.cache import DefaultInMemoryCache
from rbacx.core.engine import Guard

FIELDS = ("allowed", "effect", "obligations", "challenge", "rule_id", "policy_id", "reason")


class Clock:
    def __init__(self):
        self.t = 1000.0

    def monotonic(self):
        return self.t


class DictCache:
    def __init__(self):
        self.d = {}

    def get(self, k):
        return self.d.get(k)

    def set(self, k, v, ttl=None):
        self.d[k] = v

    def delete(self, k):
        self.d.pop(k, None)

    def clear(self):
        self.d.clear()


class CopyingCache(DictCache):
    def get(self, k):
        v = self.d.get(k)
        return copy.deepcopy(v) if v is not None else None

    def set(self, k, v, ttl=None):
        self.d[k] = copy.deepcopy(v)


class Recording:
    """wraps a cache and records the protocol the engine speaks"""

    def __init__(self, inner):
        self.inner, self.ops = inner, []

    def get(self, k):
        v = self.inner.get(k)
        self.ops.append(("get", k, v is not None))
        return v

    def set(self, k, v, ttl=None):
        self.ops.append(("set", k))
        self.inner.set(k, v, ttl=ttl)

    def delete(self, k):
        self.ops.append(("delete", k))
        self.inner.delete(k)

    def clear(self):
        self.ops.append(("clear",))
        self.inner.clear()


MFA = {"type": "require_mfa"}
POL_A = {"algorithm": "deny-overrides", "rules": [
    {"id": "a1", "effect": "permit", "actions": ["read"], "resource": {"type": "doc", "id": 1}, "obligations": [MFA]},
    {"id": "a2", "effect": "permit", "actions": ["read"], "resource": {"type": "doc"}, "condition": {"hasAny": [{"attr": "subject.roles"}, ["admin"]]}},
    {"id": "a3", "effect": "deny", "actions": ["read"], "resource": {"type": "doc", "attrs": {"level": 1}}}]}
POL_B = {"algorithm": "first-applicable", "rules": [
    {"id": "b1", "effect": "deny", "actions": ["read"], "resource": {"type": "doc"}, "condition": {"==": [{"attr": "context.n"}, 1]}},
    {"id": "b2", "effect": "permit", "actions": ["*"], "resource": {"type": "*"}}]}
POL_C = {"policies": [{"id": "c-first", "rules": POL_A["rules"][:2]}, {"id": "c-second", "algorithm": "permit-overrides", "rules": POL_B["rules"]}]}
POLICIES = [POL_A, POL_B, POL_C]


def req(sid="u", roles=(), action="read", rtype="doc", rid=1, rattrs=None, ctx=None):
    return {"sid": sid, "roles": list(roles), "sattrs": {}, "action": action, "rtype": rtype, "rid": rid, "rattrs": rattrs or {}, "ctx": ctx or {}}


# near-duplicate pool: requests differing only in the JSON type of a value, role order, ids, context
POOL = [req(rid=1), req(rid="1"), req(rid=1.0), req(rid=True), req(rid="True"), req(rid=None), req(rid="None"),
        req(roles=["admin", "user"]), req(roles=["user", "admin"]), req(roles=["admin"]), req(sid="v"),
        req(rattrs={"level": 1}), req(rattrs={"level": "1"}), req(rattrs={"level": 1.0}), req(rattrs={"level": True}),
        req(ctx={"n": 1}), req(ctx={"n": "1"}), req(ctx={"n": 1, "mfa": True}), req(ctx={"mfa": True, "n": 1}), req(ctx={"mfa": 1}),
        req(ctx={"mfa": False}), req(sid="é"), req(sid="é"), req(ctx={"a": {"b": 1}}), req(ctx={"a": {"b": [1]}}), req(ctx={"a.b": 1})]


def decision(g: Guard, r: dict):
    s, a, rs, c = real.make_request(r)
    d = g.evaluate_sync(s, a, rs, c)
    return {f: proto.canon(getattr(d, f)) for f in FIELDS}


def model_env(r: dict, strict: bool) -> str:
    env = {"subject": {"id": r["sid"], "roles": list(r["roles"]), "attrs": dict(r["sattrs"])}, "action": r["action"],
           "resource": {"type": r["rtype"], "id": r["rid"], "attrs": dict(r["rattrs"])}, "context": dict(r["ctx"])}
    if strict:
        env["__strict_types__"] = True
    # env equality as the model sees it: structural, dict order irrelevant
    return proto.canon_unordered(env)


def check_keys_and_protocol(run: lib.Run):
    """KeyFaithful probe + protocol shape"""
    seen: dict[str, tuple] = {}
    for pi, pol in enumerate(POLICIES):
        for strict in (False, True):
            rec = Recording(DictCache())
            g = Guard(copy.deepcopy(pol), cache=rec, strict_types=strict)
            envs_seen: set = set()
            for ri, r in enumerate(POOL):
                rec.ops.clear()
                decision(g, r)
                run.evaluations += 1
                ops = list(rec.ops)
                me_env = model_env(r, strict)
                if me_env in envs_seen:
                    # an equal environment (e.g. context keys in another order) must be a hit
                    if [o[0] for o in ops] != ["get"] or not ops[0][2]:
                        run.spec_failures.append({"part": "cache protocol", "ops": ops, "request": r,
                                                  "spec": "an equal environment was not served from the cache by a single get(key)"})
                    continue
                envs_seen.add(me_env)
                if [o[0] for o in ops] != ["get", "set"] or ops[0][1] != ops[1][1]:
                    run.spec_failures.append({"part": "cache protocol", "ops": ops, "request": r,
                                              "spec": "a miss must be exactly get(key) then set(key, …) with the same key"})
                    continue
                key = ops[0][1]
                me = (pi, model_env(r, strict))
                if key in seen and seen[key] != me:
                    run.spec_failures.append({"part": "cache key", "key": key[:200], "first": seen[key], "second": me,
                                              "spec": "two different (policy, environment) pairs share one cache key (KeyFaithful violated)"})
                seen.setdefault(key, me)
                rec.ops.clear()
                decision(g, r)
                if [o[0] for o in rec.ops] != ["get"] or not rec.ops[0][2]:
                    run.spec_failures.append({"part": "cache protocol", "ops": list(rec.ops), "request": r,
                                              "spec": "a repeated evaluation must be a single get(key) hit"})
            rec.ops.clear()
            g.set_policy(copy.deepcopy(POLICIES[(pi + 1) % 3]))
            if rec.ops != [("clear",)]:
                run.spec_failures.append({"part": "cache protocol", "ops": list(rec.ops), "spec": "set_policy must clear the cache exactly once"})
            rec.ops.clear()
            g.clear_cache()
            if rec.ops != [("clear",)]:
                run.spec_failures.append({"part": "cache protocol", "ops": list(rec.ops), "spec": "clear_cache must clear the cache"})
    run.count("key-probe:distinct-keys", len(seen))


ALPHABET = [("eval", 0, 0), ("eval", 0, 1), ("eval", 0, 17), ("eval", 1, 0), ("eval", 1, 7), ("set", 0, 1), ("set", 0, 0), ("set", 1, 2),
            ("clear", 0), ("clear", 1), ("tick", 3), ("tick", 10)]


def run_history(hist, cap, ttl, kind, shared_strict):
    """returns None if transparent, else a description of the first difference"""
    clock = Clock()
    saved = rcache.time
    rcache.time = clock
    try:
        if kind == "lru":
            cache = DefaultInMemoryCache(maxsize=cap)
        elif kind == "dict":
            cache = DictCache()
        else:
            cache = CopyingCache()
        cur = [copy.deepcopy(POL_A), copy.deepcopy(POL_B)]
        strict = [False, shared_strict]
        cached = [Guard(cur[i], cache=cache, cache_ttl=ttl, strict_types=strict[i]) for i in range(2)]
        for step, op in enumerate(hist):
            if op[0] == "eval":
                _, e, ri = op
                r = POOL[ri % len(POOL)]
                got = decision(cached[e], r)
                want = decision(Guard(copy.deepcopy(cur[e]), strict_types=strict[e]), r)
                if got != want:
                    return {"step": step, "op": op, "request": r, "cached": got, "uncached": want}
            elif op[0] == "set":
                _, e, pi = op
                cur[e] = copy.deepcopy(POLICIES[pi])
                (cached[e].set_policy if step % 2 else cached[e].update_policy)(cur[e])
            elif op[0] == "clear":
                cached[op[1]].clear_cache()
            else:
                clock.t += op[1]
        return None
    finally:
        rcache.time = saved


def run_cases(run: lib.Run, scale: int = 1):
    quick = run.tier == "quick"
    configs = [(cap, ttl, "lru") for cap in (0, 1, 2, 2048) for ttl in (None, 0, 5)] + [(0, 5, "dict"), (0, None, "copy")]
    n = 3 if quick else 4
    count = 0
    for L in range(1, n + 1):
        for hist in itertools.product(ALPHABET, repeat=L):
            if not any(o[0] == "eval" for o in hist):
                continue
            for ci, (cap, ttl, kind) in enumerate(configs):
                if quick and L == 3 and (hash((hist, ci)) % 7):
                    continue
                count += 1
                bad = run_history(hist, cap, ttl, kind, shared_strict=bool((ci + L) % 2))
                run.case([hist, cap, ttl, kind], sum(1 for o in hist if o[0] == "eval") >= 2, {"history": hist, "maxsize": cap, "ttl": ttl, "cache": kind} if count % 500 == 0 else None)
                run.count(f"hist:{kind}")
                if bad:
                    run.spec_failures.append({"part": "history", "history": hist, "maxsize": cap, "ttl": ttl, "cache": kind, **bad,
                                              "spec": "a cached engine returned a decision different from the uncached engine holding the same policy"})
    r = random.Random(run.seed * 8191 + 8)
    for k in range((150 if quick else 1500) * scale):
        L = r.randrange(5, 60)
        hist = []
        for _ in range(L):
            t = r.random()
            if t < 0.7:
                hist.append(("eval", r.randrange(2), r.randrange(len(POOL))))
            elif t < 0.82:
                hist.append(("set", r.randrange(2), r.randrange(3)))
            elif t < 0.88:
                hist.append(("clear", r.randrange(2)))
            else:
                hist.append(("tick", r.choice([1, 4, 5, 6, 300])))
        cap, ttl, kind = gen.choice(r, configs)
        bad = run_history(hist, cap, ttl, kind, r.random() < 0.5)
        run.case([hist, cap, ttl, kind], True, {"history": hist[:12], "maxsize": cap, "ttl": ttl, "cache": kind} if k < 2 else None)
        run.count(f"random:{kind}")
        if bad:
            hist = lib.shrink_list(hist, lambda h: run_history(h, cap, ttl, kind, False) is not None or run_history(h, cap, ttl, kind, True) is not None, 150)
            run.spec_failures.append({"part": "history", "history": hist, "maxsize": cap, "ttl": ttl, "cache": kind, **bad,
                                      "spec": "a cached engine returned a decision different from the uncached engine holding the same policy"})


def check(run: lib.Run, audit: dict) -> int:
    run.rule = ("exhaustive: all histories of length ≤3 (quick; length 3 subsampled 1/7) / ≤4 (thorough) over a 12-letter alphabet (evaluate on either "
                "of two engines sharing the cache: 3 requests incl. a near-duplicate pair; set_policy/update_policy A→B→A and a policy set; "
                "clear_cache; clock +3/+10) × {LRU maxsize 0,1,2,2048 × ttl None,0,5; dict cache; copying cache} × second engine lax/strict; random "
                "histories of length 5–60 over a 26-request near-duplicate pool; key probe: 3 policies × lax/strict × the pool; protocol shape. "
                "non-trivial = a history with ≥2 evaluations")
    run.exhaustive = True
    run.assumptions = ["KeyFaithful: sha3-256 of the sorted policy JSON and the canonical env JSON are injective on JSON-valued envs (probed, not proved)",
                       "requests are JSON-valued (a datetime and its str() share a key — outside the quantifier, DESIGN §6 F15)",
                       "the obligation checker is a function of (raw decision, context)"]
    if not audit["ok"]:
        raise lib.CheckError(f"Lean build/audit failed at {audit['stage']}: {audit.get('log') or audit.get('forbidden') or audit.get('bad_axioms')}")
    check_keys_and_protocol(run)
    run_cases(run)
    violations = []
    if run.spec_failures:
        path = run.write_replay("spec", {"what": "C08 violated", "case": run.spec_failures[0], "count": len(run.spec_failures)})
        violations.append((path, True))
    return run.finish(audit, violations)


def replay(run: lib.Run, audit: dict, path: str) -> int:
    c = json.load(open(path))["case"]
    if c.get("part") == "history":
        hist = [tuple(o) for o in c["history"]]
        print("now:", run_history(hist, c["maxsize"], c["ttl"], c["cache"], False), run_history(hist, c["maxsize"], c["ttl"], c["cache"], True))
    print("recorded:", json.dumps(c, default=str)[:1500])
    return 0
