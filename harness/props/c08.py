"""C08 — the decision cache is transparent over every history.

Tie: the theorem (`Rbacx.C08.c08_transparent`) is about ANY honest cache under the engine's cache
protocol (lookup under key(policy, env); on a miss decide, store, return; set_policy/clear_cache
clear). The harness (1) checks the protocol the real Guard speaks to its cache against the model's
`stepCached` op shapes (recording cache), (2) probes `KeyFaithful` on near-duplicate request pools
(equal real keys ⇒ equal model envs), (3) runs histories on real engines with the built-in LRU+TTL
cache, a dict cache and a copying cache — alone or shared by a second engine (other policy, strict
mode) — next to uncached engines holding the same current policies and compares every Decision field,
(4) ties the Lean model of the key's canonical serialiser (`Rbacx.canonJson`, proved injective up to
dict-entry order: `Rbacx.C08.c08_canon_json_injective`, `c08_key_injective`) to the real
`Guard._normalize_env_for_cache` / `Guard._cache_key` on thousands of JSON-valued environments."""
from __future__ import annotations

import copy
import itertools
import json
import random
from datetime import datetime

import gen
import lib
import proto
import real
from rbacx.core import cache as rcache
from rbacx.core.cache import DefaultInMemoryCache
from rbacx.core.engine import Guard

FIELDS = ("allowed", "effect", "obligations", "challenge", "rule_id", "policy_id", "reason")


class Clock:
    def __init__(self):
        self.t = 1000.0

    def monotonic(self):
        return self.t


class DictCache:
    def __init__(self):
        self.d = {}

    def get(self, k):
        return self.d.get(k)

    def set(self, k, v, ttl=None):
        self.d[k] = v

    def delete(self, k):
        self.d.pop(k, None)

    def clear(self):
        self.d.clear()


class CopyingCache(DictCache):
    def get(self, k):
        v = self.d.get(k)
        return copy.deepcopy(v) if v is not None else None

    def set(self, k, v, ttl=None):
        self.d[k] = copy.deepcopy(v)


class Recording:
    """wraps a cache and records the protocol the engine speaks"""

    def __init__(self, inner):
        self.inner, self.ops = inner, []

    def get(self, k):
        v = self.inner.get(k)
        self.ops.append(("get", k, v is not None))
        return v

    def set(self, k, v, ttl=None):
        self.ops.append(("set", k))
        self.inner.set(k, v, ttl=ttl)

    def delete(self, k):
        self.ops.append(("delete", k))
        self.inner.delete(k)

    def clear(self):
        self.ops.append(("clear",))
        self.inner.clear()


MFA = {"type": "require_mfa"}
POL_A = {"algorithm": "deny-overrides", "rules": [
    {"id": "a1", "effect": "permit", "actions": ["read"], "resource": {"type": "doc", "id": 1}, "obligations": [MFA]},
    {"id": "a2", "effect": "permit", "actions": ["read"], "resource": {"type": "doc"}, "condition": {"hasAny": [{"attr": "subject.roles"}, ["admin"]]}},
    {"id": "a3", "effect": "deny", "actions": ["read"], "resource": {"type": "doc", "attrs": {"level": 1}}}]}
POL_B = {"algorithm": "first-applicable", "rules": [
    {"id": "b1", "effect": "deny", "actions": ["read"], "resource": {"type": "doc"}, "condition": {"==": [{"attr": "context.n"}, 1]}},
    {"id": "b2", "effect": "permit", "actions": ["*"], "resource": {"type": "*"}}]}
POL_C = {"policies": [{"id": "c-first", "rules": POL_A["rules"][:2]}, {"id": "c-second", "algorithm": "permit-overrides", "rules": POL_B["rules"]}]}
POLICIES = [POL_A, POL_B, POL_C]


def req(sid="u", roles=(), action="read", rtype="doc", rid=1, rattrs=None, ctx=None):
    return {"sid": sid, "roles": list(roles), "sattrs": {}, "action": action, "rtype": rtype, "rid": rid, "rattrs": rattrs or {}, "ctx": ctx or {}}


# near-duplicate pool: requests differing only in the JSON type of a value, role order, ids, context
POOL = [req(rid=1), req(rid="1"), req(rid=1.0), req(rid=True), req(rid="True"), req(rid=None), req(rid="None"),
        req(roles=["admin", "user"]), req(roles=["user", "admin"]), req(roles=["admin"]), req(sid="v"),
        req(rattrs={"level": 1}), req(rattrs={"level": "1"}), req(rattrs={"level": 1.0}), req(rattrs={"level": True}),
        req(ctx={"n": 1}), req(ctx={"n": "1"}), req(ctx={"n": 1, "mfa": True}), req(ctx={"mfa": True, "n": 1}), req(ctx={"mfa": 1}),
        req(ctx={"mfa": False}), req(sid="é"), req(sid="é"), req(ctx={"a": {"b": 1}}), req(ctx={"a": {"b": [1]}}), req(ctx={"a.b": 1}), req(roles=["user"], rid=2), req(roles=["v"], rid=2)]


def decision(g: Guard, r: dict):
    s, a, rs, c = real.make_request(r)
    d = g.evaluate_sync(s, a, rs, c)
    return {f: proto.canon(getattr(d, f)) for f in FIELDS}


def env_dict(r: dict, strict: bool) -> dict:
    """the environment `Guard._evaluate_core_async` builds for this request (no role resolver)"""
    env = {"subject": {"id": r["sid"], "roles": list(r["roles"] or []), "attrs": dict(r["sattrs"])}, "action": r["action"],
           "resource": {"type": r["rtype"], "id": r["rid"], "attrs": dict(r["rattrs"])}, "context": dict(r["ctx"] or {})}
    if strict:
        env["__strict_types__"] = True
    return env


def model_env(r: dict, strict: bool) -> str:
    # env equality as the model sees it: structural, dict order irrelevant
    return proto.canon_unordered(env_dict(r, strict))


def check_keys_and_protocol(run: lib.Run) -> list:
    """KeyFaithful probe + protocol shape; returns the real (etag, key, env) triples seen on the cache protocol"""
    seen: dict[str, tuple] = {}
    real_keys: list = []
    for pi, pol in enumerate(POLICIES):
        for strict in (False, True):
            rec = Recording(DictCache())
            g = Guard(copy.deepcopy(pol), cache=rec, strict_types=strict)
            envs_seen: set = set()
            for ri, r in enumerate(POOL):
                rec.ops.clear()
                decision(g, r)
                run.evaluations += 1
                ops = list(rec.ops)
                me_env = model_env(r, strict)
                if me_env in envs_seen:
                    # an equal environment (e.g. context keys in another order) must be a hit
                    if [o[0] for o in ops] != ["get"] or not ops[0][2]:
                        run.spec_failures.append({"part": "cache protocol", "ops": ops, "request": r,
                                                  "spec": "an equal environment was not served from the cache by a single get(key)"})
                    continue
                envs_seen.add(me_env)
                if [o[0] for o in ops] != ["get", "set"] or ops[0][1] != ops[1][1]:
                    run.spec_failures.append({"part": "cache protocol", "ops": ops, "request": r,
                                              "spec": "a miss must be exactly get(key) then set(key, …) with the same key"})
                    continue
                key = ops[0][1]
                real_keys.append((g.policy_etag, key, env_dict(r, strict)))
                me = (pi, model_env(r, strict))
                if key in seen and seen[key] != me:
                    run.spec_failures.append({"part": "cache key", "key": key[:200], "first": seen[key], "second": me,
                                              "spec": "two different (policy, environment) pairs share one cache key (KeyFaithful violated)"})
                seen.setdefault(key, me)
                rec.ops.clear()
                decision(g, r)
                if [o[0] for o in rec.ops] != ["get"] or not rec.ops[0][2]:
                    run.spec_failures.append({"part": "cache protocol", "ops": list(rec.ops), "request": r,
                                              "spec": "a repeated evaluation must be a single get(key) hit"})
            rec.ops.clear()
            g.set_policy(copy.deepcopy(POLICIES[(pi + 1) % 3]))
            if rec.ops != [("clear",)]:
                run.spec_failures.append({"part": "cache protocol", "ops": list(rec.ops), "spec": "set_policy must clear the cache exactly once"})
            rec.ops.clear()
            g.clear_cache()
            if rec.ops != [("clear",)]:
                run.spec_failures.append({"part": "cache protocol", "ops": list(rec.ops), "spec": "clear_cache must clear the cache"})
    run.count("key-probe:distinct-keys", len(seen))
    return real_keys


# ----------------------------------------------------------------------------- the key's canonical serialiser

CANON_WHAT = "model Rbacx.canonJson vs Guard._normalize_env_for_cache"
HOSTILE_PIECES = ['"', "\\", "/", "\n", "\r", "\t", "\b", "\f", "\x00", "\x01", "\x0b", "\x1c", "\x1f", " ", "\x7f", "\x80", "\x85", "\x9f", "\xa0",
                  "\u00e9", "e\u0301", "\u2028", "\u2029", "\ufeff", "\ud7ff", "\ue000", "\uffff", "\U0001d11e", "\U00010000", "\U0010ffff", ",", ":", "{", "}", "[", "]",
                  "null", "true", "false", "1", "-", "0", "a", "A", "b", "u", "\\u0041", "\\n", "Z", "z", "NaN", "१"]
BIG_INTS = [0, -0, 1, -1, 9, 10, -10, 99, 100, 2**31, -(2**31), 2**53 + 1, 2**63, -(2**63), 2**64, 10**30, -(10**40), 10**400, -(10**400),
            10**4299, -(10**4298), 123456789012345678901234567890, -98765432109876543210]


def gen_str(r: random.Random) -> str:
    return "".join(gen.choice(r, HOSTILE_PIECES) for _ in range(r.randrange(0, 6)))


def gen_json(r: random.Random, depth: int):
    """a float-free JSON value biased towards what could confuse a serialiser"""
    k = r.random()
    if depth <= 0 or k < 0.45:
        t = r.random()
        if t < 0.3:
            return gen.choice(r, [None, True, False, 1, "1", "True", "true", "None", "null", 0, "0", "", [], {}, "[]", "{}", -1, "-1"])
        if t < 0.5:
            return gen.choice(r, BIG_INTS) if r.random() < 0.5 else r.randrange(-10**r.randrange(1, 40), 10**r.randrange(1, 40))
        return gen_str(r)
    if k < 0.7:
        return [gen_json(r, depth - 1) for _ in range(r.randrange(0, 4))]
    return {(gen_str(r) if r.random() < 0.7 else gen.choice(r, ["a", "b", "ab", "a.b", "k", ""])): gen_json(r, depth - 1) for _ in range(r.randrange(0, 5))}


def defloat(v, r: random.Random):
    """replace floats (outside the model's proved domain) by an int, their repr or a bool"""
    if isinstance(v, float):
        return gen.choice(r, [int(v) if v == v and abs(v) != float("inf") else 0, repr(v), v == 1.0])
    if isinstance(v, (list, tuple)):
        return [defloat(x, r) for x in v]
    if isinstance(v, dict):
        return {k: defloat(x, r) for k, x in v.items()}
    return v


def has_float(v) -> bool:
    """outside the model's proved domain: a float or a datetime somewhere"""
    if isinstance(v, (float, datetime)):
        return True
    if isinstance(v, (list, tuple)):
        return any(has_float(x) for x in v)
    if isinstance(v, dict):
        return any(has_float(x) for x in v.values())
    return False


def has_datetime(v) -> bool:
    """a datetime and its str() share a text (`default=str`, DESIGN §6 F15) — outside the quantifier"""
    if isinstance(v, (list, tuple)):
        return any(has_datetime(x) for x in v)
    if isinstance(v, dict):
        return any(has_datetime(x) for x in v.values())
    return isinstance(v, datetime)


def shuffled(v, r: random.Random):
    """the same value with every dict rebuilt in another insertion order"""
    if isinstance(v, (list, tuple)):
        return [shuffled(x, r) for x in v]
    if isinstance(v, dict):
        ks = list(v)
        r.shuffle(ks)
        return {k: shuffled(v[k], r) for k in ks}
    return v


def interesting(v) -> bool:
    """non-trivial for the serialiser: a dict with ≥2 keys somewhere, or a string that needs escaping"""
    if isinstance(v, str):
        return any(c in '"\\' or ord(c) < 0x20 for c in v)
    if isinstance(v, (list, tuple)):
        return any(interesting(x) for x in v)
    if isinstance(v, dict):
        return len(v) >= 2 or any(interesting(k) or interesting(x) for k, x in v.items())
    return False


def canon_envs(run: lib.Run, scale: int) -> list:
    """(label, value, index of the original this is a shuffled twin of | None) for the serialiser tie"""
    r = random.Random(run.seed * 524287 + 88 + scale)
    n = (1000 if run.tier == "quick" else 8000) * scale
    out = []
    for rq in POOL:
        for strict in (False, True):
            out.append(("pool", env_dict(rq, strict)))
    for i in range(n):
        rq = gen.gen_request(r, POLICIES[i % 3], hostile=(i % 4 == 0))
        e = env_dict(rq, bool(i % 2))
        out.append(("request", e if i % 5 == 0 else defloat(e, r)))
    for i in range(n):
        v = gen.gen_value(r, 3, hostile=(i % 3 == 0))
        out.append(("value", v if i % 5 == 0 else defloat(v, r)))
    for i in range(2 * n):
        out.append(("hostile", gen_json(r, 3)))
    for i in range(n // 2):
        # an environment whose ids / roles / attrs / context carry hostile data
        rq = req(sid=gen_json(r, 0), roles=[gen_str(r) for _ in range(r.randrange(0, 3))], rid=gen_json(r, 0),
                 rattrs={gen_str(r): gen_json(r, 1) for _ in range(r.randrange(0, 3))},
                 ctx={gen_str(r): gen_json(r, 2) for _ in range(r.randrange(0, 4))})
        out.append(("hostile-env", env_dict(rq, bool(i % 2))))
    cases = [(lab, v, None) for lab, v in out]
    cases += [(lab + "+shuffled", shuffled(v, r), i) for i, (lab, v) in enumerate(out) if isinstance(v, dict)]
    return cases


def check_canon_model(run: lib.Run, real_keys: list, scale: int = 1):
    """the Lean model of the canonical serialiser against the real one; real-vs-real injectivity / key-order probes"""
    cases = canon_envs(run, scale)
    cmds = [{"cmd": "canon-json", "value": proto.enc(v)} for _, v, _ in cases] + \
           [{"cmd": "canon-json", "value": proto.enc(env)} for _, _, env in real_keys]
    outs = proto.run_driver(cmds)
    texts = [Guard._normalize_env_for_cache(v) for _, v, _ in cases]
    by_text: dict[str, str] = {}
    for (lab, v, twin_of), o, text in zip(cases, outs, texts):
        ff = not has_float(v)
        run.case(["canon", text], ff and interesting(v), {"value": v, "canonical": text} if lab == "hostile-env" and interesting(v) else None)
        if o["float_free"] != ff or not o["no_dup_keys"]:
            run.disagreements.append({"part": "canon", "what": CANON_WHAT, "label": lab, "value": v, "model": o, "impl": text,
                                      "note": "the model's domain predicates (floatFree / noDupKeys) differ from the Python-side value"})
        elif not ff:
            run.count("canon:float/datetime (outside the model's domain, model answers null)")
            if o["text"] is not None:
                run.disagreements.append({"part": "canon", "what": CANON_WHAT, "label": lab, "value": v, "model": o, "impl": text})
        elif o["text"] != text:
            run.count("canon:DISAGREE")
            run.disagreements.append({"part": "canon", "what": CANON_WHAT, "label": lab, "value": v, "model": o["text"], "impl": text})
        else:
            run.count(f"canon:agree:{lab}")
        # real-vs-real: one text ⇒ one value up to dict order (what c08_canon_json_injective says of the model) …
        cu = proto.canon_unordered(v)
        if not has_datetime(v) and by_text.setdefault(text, cu) != cu:
            run.spec_failures.append({"part": "canon", "value": v, "canonical": text[:300], "other": by_text[text][:300],
                                      "spec": "two different environments share one canonical text (KeyFaithful violated)"})
        # … and a twin with shuffled dict insertion order prints exactly like its original (sort_keys)
        if twin_of is not None and text != texts[twin_of]:
            run.spec_failures.append({"part": "canon", "value": v, "other": cases[twin_of][1], "canonical": text[:300],
                                      "spec": "the canonical text depends on the insertion order of dict entries"})
    run.count("canon:distinct-texts", len(by_text))
    # the real keys seen on the cache protocol are `etag:model text` (Rbacx.cacheKeyOf)
    for (etag, key, env), o in zip(real_keys, outs[len(cases):]):
        run.evaluations += 1
        if has_float(env):
            run.count("key:float (outside the model's domain)")
        elif o["text"] is None or key != f"{etag}:{o['text']}":
            run.disagreements.append({"part": "canon", "what": "model Rbacx.cacheKeyOf vs the key Guard passes to cache.get", "value": env,
                                      "model": None if o["text"] is None else f"{etag}:{o['text']}", "impl": key})
        else:
            run.count("key:agree (etag:model text = real cache key)")


ALPHABET = [("eval", 0, 0), ("eval", 0, 1), ("eval", 0, 17), ("eval", 1, 0), ("eval", 1, 7), ("set", 0, 1), ("set", 0, 0), ("set", 1, 2),
            ("clear", 0), ("clear", 1), ("tick", 3), ("tick", 10)]


def run_history(hist, cap, ttl, kind, shared_strict, resolver_second: bool = False):
    """returns None if transparent, else a description of the first difference.  `resolver_second`: both engines hold policy A, the
    second one expands roles through a StaticRoleResolver (user → admin) — same requests, other effective roles, one shared cache"""
    clock = Clock()
    saved = rcache.time
    rcache.time = clock
    try:
        if kind == "lru":
            cache = DefaultInMemoryCache(maxsize=cap)
        elif kind == "dict":
            cache = DictCache()
        else:
            cache = CopyingCache()
        cur = [copy.deepcopy(POL_A), copy.deepcopy(POL_A if resolver_second else POL_B)]
        strict = [False, shared_strict]
        from rbacx.core.roles import StaticRoleResolver
        res = [None, StaticRoleResolver({"user": ["admin"], "v": ["user"]}) if resolver_second else None]
        cached = [Guard(cur[i], cache=cache, cache_ttl=ttl, strict_types=strict[i], role_resolver=res[i]) for i in range(2)]
        for step, op in enumerate(hist):
            if op[0] == "eval":
                _, e, ri = op
                r = POOL[ri % len(POOL)]
                got = decision(cached[e], r)
                want = decision(Guard(copy.deepcopy(cur[e]), strict_types=strict[e], role_resolver=res[e]), r)
                if got != want:
                    return {"step": step, "op": op, "request": r, "cached": got, "uncached": want}
            elif op[0] == "set":
                _, e, pi = op
                cur[e] = copy.deepcopy(POLICIES[pi])
                (cached[e].set_policy if step % 2 else cached[e].update_policy)(cur[e])
            elif op[0] == "clear":
                cached[op[1]].clear_cache()
            else:
                clock.t += op[1]
        return None
    finally:
        rcache.time = saved


def _edit(pol: dict, f) -> dict:
    q = copy.deepcopy(pol)
    f(q)
    return q


def _unserialisable(pol: dict) -> dict:
    """the same document carrying a value json.dumps refuses (a date): the engine has no etag for it and must not cache under it"""
    from datetime import date
    return {**copy.deepcopy(pol), "issued": date(2024, 6, 1)}


def twin_policies() -> list:
    """pairs of documents that differ in ONE detail a sloppy policy fingerprint / a 'same document' shortcut would not see"""
    a, b = POL_A, POL_B
    return [("rule id ''", a, _edit(a, lambda q: q["rules"][0].__setitem__("id", ""))),
            ("rule id absent", a, _edit(a, lambda q: q["rules"][0].pop("id"))),
            ("'' vs absent", _edit(a, lambda q: q["rules"][0].__setitem__("id", "")), _edit(a, lambda q: q["rules"][0].pop("id"))),
            ("resource id 1 vs '1'", a, _edit(a, lambda q: q["rules"][0]["resource"].__setitem__("id", "1"))),
            ("resource id 1 vs True", a, _edit(a, lambda q: q["rules"][0]["resource"].__setitem__("id", True))),
            ("obligations dropped", a, _edit(a, lambda q: q["rules"][0].__setitem__("obligations", []))),
            ("rule order", b, _edit(b, lambda q: q["rules"].reverse())),
            ("algorithm", a, _edit(a, lambda q: q.__setitem__("algorithm", "permit-overrides"))),
            ("policy id", _edit(a, lambda q: q.__setitem__("id", "p")), _edit(a, lambda q: q.__setitem__("id", ""))),
            ("both unserialisable", _unserialisable(a), _unserialisable(b)),
            ("unserialisable, one rule id", _unserialisable(a), _unserialisable(_edit(a, lambda q: q["rules"][0].__setitem__("id", "other")))),
            ("serialisable → unserialisable", a, _unserialisable(b)),
            ("unserialisable → serialisable", _unserialisable(b), a)]


def twin_cases(run: lib.Run) -> None:
    """P, then P', then P again on one cached engine; every request of the pool after every publication, next to an uncached engine"""
    for name, p1, p2 in twin_policies():
        for cap, ttl, kind in ((2048, None, "lru"), (0, 5, "dict"), (2, 5, "lru")):
            cache = DefaultInMemoryCache(maxsize=cap) if kind == "lru" else DictCache()
            g = Guard(copy.deepcopy(p1), cache=cache, cache_ttl=ttl)
            for step, cur in enumerate((p1, p2, p1, p2)):
                if step:
                    (g.set_policy if step % 2 else g.update_policy)(copy.deepcopy(cur))
                plain = Guard(copy.deepcopy(cur))
                for ri, r in enumerate(POOL):
                    for again in (0, 1):
                        got, want = decision(g, r), decision(plain, r)
                        run.case(["twin", name, cap, ttl, kind, step, ri, again], True)
                        run.count("twin-policy")
                        if got != want:
                            run.spec_failures.append({"part": "twin-policies", "pair": name, "first": repr(p1)[:400], "second": repr(p2)[:400],
                                                      "publication": step, "maxsize": cap, "ttl": ttl, "cache": kind, "request": r,
                                                      "cached": got, "uncached": want,
                                                      "spec": "a cached engine returned a decision different from the uncached engine holding the same policy"})
                            return


STRING_TWINS = [
    ("two unpaired surrogates", "file-\udcff", "file-\udcfe"),
    ("unpaired surrogate vs question mark", "file-\udcff", "file-?"),
    ("unpaired surrogate vs U+FFFD", "a\ud800b", "a\ufffdb"),
    ("high vs low unpaired surrogate", "\ud83d", "\ude00"),
    ("NUL vs nothing", "ab\x00", "ab"),
    ("NFC vs NFD", "caf\u00e9", "cafe\u0301"),
    ("case", "Alice", "alice"),
    ("trailing blank", "alice", "alice "),
    ("astral vs BMP look-alike", "\U0001d5ba", "a"),
    ("long common prefix, last character", "p" * 5000 + "x", "p" * 5000 + "y"),
    ("long common prefix and suffix, middle character", "p" * 3000 + "x" + "s" * 3000, "p" * 3000 + "y" + "s" * 3000),
    ("same length, digits", "id-" + "0" * 200 + "1", "id-" + "0" * 200 + "2"),
    ("backslash escape vs character", "a\\u0041", "aA"),
    ("quote", 'a"b', "a'b"),
]
TWIN_POLICY = {"algorithm": "deny-overrides", "rules": [
    {"id": "same-name", "effect": "permit", "actions": ["read"], "resource": {"type": "doc"},
     "condition": {"==": [{"attr": "context.probe"}, {"attr": "context.expected"}]}}]}


def string_twins(run: lib.Run) -> None:
    """two requests that differ in ONE string only — strings that are close under some encoding, normalisation, truncation or escaping
    (unpaired surrogates, U+FFFD, NUL, NFC/NFD, case, blanks, a 5000-character common prefix …) — at each position of the request (subject
    id, role, resource id, resource attribute, context value; the context also carries the expected string, so the policy itself
    mentions none of them and stays cacheable): one cached engine answers first, second, first, second in both orders, next to an
    uncached engine.  The decisions differ (permit / deny), so a shared cache entry shows."""
    positions = {
        "context value": lambda s1, s: req(ctx={"probe": s, "expected": s1}),
        "resource attribute": lambda s1, s: {**req(ctx={"expected": s1}), "rattrs": {"name": s}},
        "subject id": lambda s1, s: {**req(ctx={"expected": s1}), "sid": s},
        "resource id": lambda s1, s: {**req(ctx={"expected": s1}), "rid": s},
        "role": lambda s1, s: {**req(ctx={"expected": s1}), "roles": [s]},
    }
    attr_of = {"context value": "context.probe", "resource attribute": "resource.attrs.name", "subject id": "subject.id",
               "resource id": "resource.id", "role": None}
    for pos, mk in positions.items():
        pol = copy.deepcopy(TWIN_POLICY)
        if attr_of[pos] is None:
            pol["rules"][0]["condition"] = {"in": [{"attr": "context.expected"}, {"attr": "subject.roles"}]}
        else:
            pol["rules"][0]["condition"] = {"==": [{"attr": attr_of[pos]}, {"attr": "context.expected"}]}
        plain = Guard(copy.deepcopy(pol))
        for name, s1, s2 in STRING_TWINS:
            for a, b in ((s1, s2), (s2, s1)):
                qa, qb = mk(a, a), mk(a, b)          # qa: the probe equals the expected string (permit); qb: its twin (deny)
                for cap, ttl, kind in ((2048, None, "lru"), (2, 5, "lru"), (0, 5, "dict")):
                    for order in ((qa, qb, qa, qb), (qb, qa, qb, qa)):
                        cache = DefaultInMemoryCache(maxsize=cap) if kind == "lru" else DictCache()
                        g = Guard(copy.deepcopy(pol), cache=cache, cache_ttl=ttl)
                        for step, q in enumerate(order):
                            try:
                                got = decision(g, q)
                            except Exception as e:  # noqa: BLE001
                                got = {"raised": type(e).__name__}
                            try:
                                want = decision(plain, q)
                            except Exception as e:  # noqa: BLE001
                                want = {"raised": type(e).__name__}
                            run.case(["string-twin", pos, name, a == s1, cap, ttl, kind, order is not None and order[0] is qa, step], True)
                            run.count("string-twins")
                            if got != want:
                                run.spec_failures.append({"part": "string-twins", "pair": name, "position": pos, "strings": [ascii(a), ascii(b)],
                                                          "step": step, "maxsize": cap, "ttl": ttl, "cache": kind,
                                                          "request": json.loads(json.dumps(q, default=repr).encode("ascii", "backslashreplace").decode()),
                                                          "cached": got, "uncached": want,
                                                          "spec": "a cached engine returned a decision different from the uncached engine holding the same policy "
                                                                  "(two requests that differ in one string share a cache entry)"})
                                return


def literal_twins() -> list:
    """documents that differ only in the TYPE of a literal json.dumps cannot write (a date) vs its text form: different documents"""
    from datetime import date
    def doc(lit):
        return {"algorithm": "deny-overrides", "rules": [{"id": "d", "effect": "permit", "actions": ["read"], "resource": {"type": "doc"},
                                                           "condition": {"==": [{"attr": "context.day"}, lit]}}]}
    return [("date object vs its ISO text", doc(date(2026, 9, 29)), doc("2026-09-29")),
            ("set vs sorted list", {**doc("x"), "tags": {"b", "a"}}, {**doc("y"), "tags": ["a", "b"]})]


def shared_cache_twins(run: lib.Run) -> None:
    """TWO engines holding twin documents and sharing ONE cache (a deployment-wide cache): each is answered by its own document"""
    reqs = POOL[:3] + [req(ctx={"day": "2026-09-29"}), req(ctx={"day": "x"}), req(ctx={"day": "y"})]
    for name, p1, p2 in twin_policies() + literal_twins():
        for order in (0, 1):
            cache = DefaultInMemoryCache(maxsize=2048)
            docs = (p1, p2) if order == 0 else (p2, p1)
            gs = [Guard(copy.deepcopy(d), cache=cache, cache_ttl=300) for d in docs]
            plain = [Guard(copy.deepcopy(d)) for d in docs]
            for rnd in (0, 1):
                for ri, r in enumerate(reqs):
                    for gi in (0, 1):
                        got, want = decision(gs[gi], r), decision(plain[gi], r)
                        run.case(["shared-twin", name, order, rnd, ri, gi], True)
                        run.count("twin-policy:shared-cache")
                        if got != want:
                            run.spec_failures.append({"part": "twin-policies", "pair": name + " (two engines, one cache)", "first": repr(docs[0])[:400],
                                                      "second": repr(docs[1])[:400], "engine": gi, "request": r, "cached": got, "uncached": want,
                                                      "spec": "a cached engine returned a decision different from the uncached engine holding the same policy"})
                            return


def shared_cache_replacements(run: lib.Run) -> None:
    """TWO engines on ONE cache, and one of them is RE-PUBLISHED (set_policy / update_policy) while the other keeps its document:
    P on both → second engine gets P' → P again → P', for every twin pair in both directions (documents json.dumps refuses included:
    an engine that cannot fingerprint the document it now holds must not go on using the fingerprint of the one it held before —
    its own cache is cleared by the publication, the neighbour's entries are not).  Every request goes to both engines after every
    publication, next to uncached engines holding the same documents."""
    reqs = POOL[:2] + [POOL[7], POOL[15], req(ctx={"day": "2026-09-29"})]
    for name, p1, p2 in twin_policies() + literal_twins() + [("A vs unserialisable B", POL_A, _unserialisable(POL_B)),
                                                              ("B vs unserialisable A", POL_B, _unserialisable(POL_A))]:
        for order in (0, 1):
            first, second = (p1, p2) if order == 0 else (p2, p1)
            for cap, ttl, kind in ((2048, 300, "lru"), (0, 5, "dict")):
                if kind == "dict" and "unserialisable" not in name:
                    continue
                cache = DefaultInMemoryCache(maxsize=cap) if kind == "lru" else DictCache()
                keeper = Guard(copy.deepcopy(first), cache=cache, cache_ttl=ttl)
                mover = Guard(copy.deepcopy(first), cache=cache, cache_ttl=ttl)
                plain_keeper = Guard(copy.deepcopy(first))
                for step, cur in enumerate((first, second, first, second)):
                    if step:
                        (mover.set_policy if step % 2 else mover.update_policy)(copy.deepcopy(cur))
                    plain_mover = Guard(copy.deepcopy(cur))
                    for rnd in (0, 1):
                        for ri, r in enumerate(reqs):
                            for who, g, plain in (("keeper", keeper, plain_keeper), ("mover", mover, plain_mover)):
                                got, want = decision(g, r), decision(plain, r)
                                run.case(["shared-replacement", name, order, cap, kind, step, rnd, ri, who], True)
                                run.count("twin-policy:shared-cache-replacement")
                                if got != want:
                                    run.spec_failures.append({"part": "twin-policies", "pair": name + " (two engines, one cache, one re-published)",
                                                              "first": repr(first)[:400], "second": repr(second)[:400], "publication": step,
                                                              "engine": who, "maxsize": cap, "ttl": ttl, "cache": kind, "request": r,
                                                              "cached": got, "uncached": want,
                                                              "spec": "a cached engine returned a decision different from the uncached engine holding the same policy"})
                                    return


def changing_verdicts(run: lib.Run) -> None:
    """a custom checker (derived from the built-in one) whose own verdict changes from one evaluation of the SAME request to the next
    — a revocation list, a rate limit: every pattern of 4 verdicts on a cached engine next to an uncached engine with the same checker.
    What the engine writes on a decision it revokes must not travel back into the cache."""
    import fixedwit
    pol = {"algorithm": "permit-overrides", "rules": [{"id": "r", "effect": "permit", "actions": ["read"], "resource": {"type": "doc"},
                                                        "obligations": [{"type": "require_mfa"}]}]}
    rq = req(ctx={"mfa": True})
    for pattern in itertools.product([True, False], repeat=4):
        w = {"policy": pol, "request": rq, "verdicts": list(pattern)}
        got = fixedwit.cached_checker_sequence(w)
        want = [[True, "permit", "matched", None] if v else [False, "deny", "obligation_failed", "reauth"] for v in pattern]
        run.case(["changing-verdicts", pattern], True)
        run.count("changing-verdicts")
        if got != want:
            run.spec_failures.append({"part": "changing-verdicts", "policy": pol, "request": rq, "checker_verdicts_in_order": list(pattern),
                                      "cached": got, "uncached": want,
                                      "spec": "a cached engine returned a decision different from the uncached engine holding the same policy"})
            return


def gather_cases(run: lib.Run) -> None:
    """the whole pool in flight at once on ONE cached engine (a role resolver that yields to the loop makes the evaluations interleave),
    twice; every answer next to the uncached engine's"""
    import asyncio

    class Yielding:
        async def expand(self, roles):
            await asyncio.sleep(0)
            await asyncio.sleep(0)
            return list(roles or [])

    async def go(g):
        async def one(r):
            s_, a_, rs_, c_ = real.make_request(r)
            d = await g.evaluate_async(s_, a_, rs_, c_)
            return {f: proto.canon(getattr(d, f)) for f in FIELDS}
        first = await asyncio.gather(*[one(r) for r in POOL])
        second = await asyncio.gather(*[one(r) for r in reversed(POOL)])
        return first, list(reversed(second))

    for pol in POLICIES:
        for cap, ttl in ((2048, None), (2, 5), (0, None)):
            g = Guard(copy.deepcopy(pol), cache=DefaultInMemoryCache(maxsize=cap), cache_ttl=ttl, role_resolver=Yielding())
            plain = Guard(copy.deepcopy(pol))
            first, second = asyncio.run(go(g))
            for ri, r in enumerate(POOL):
                want = decision(plain, r)
                run.case(["gather", cap, ttl, ri], True)
                run.count("gather")
                for rnd, got in (("first", first[ri]), ("second", second[ri])):
                    if got != want:
                        run.spec_failures.append({"part": "concurrent-evaluations", "round": rnd, "maxsize": cap, "ttl": ttl, "request": r,
                                                  "cached": got, "uncached": want,
                                                  "spec": "a cached engine returned a decision different from the uncached engine holding the same policy"})
                        return


POL_REL = {"algorithm": "deny-overrides", "rules": [
    {"id": "viewers", "effect": "permit", "actions": ["read"], "resource": {"type": "doc"}, "condition": {"rel": "viewer"}}]}


def overlap_cases(run: lib.Run) -> None:
    """two evaluations of DIFFERENT requests overlapping on one cached engine: the first is held inside its decision (its relationship
    lookup does not answer) while the second runs to completion; then the first is released.  Both answers, and the answers to the same
    two requests afterwards (served from the cache), are those of an uncached engine.  Once on one event loop (async checker), once
    with two threads (sync checker)."""
    import asyncio
    import threading

    def fields(d):
        return {f: proto.canon(getattr(d, f)) for f in FIELDS}

    def reqs():
        return [real.make_request(req(sid=s_)) for s_ in ("slow", "fast")]

    for slow_allowed in (True, False):
        answers = {"user:slow": slow_allowed, "user:fast": not slow_allowed}

        class Plain:
            def check(self, subject, relation, resource, *, context=None):
                return answers[subject]
        want = [fields(Guard(copy.deepcopy(POL_REL), relationship_checker=Plain()).evaluate_sync(*q)) for q in reqs()]

        async def on_loop():
            gate, entered = asyncio.Event(), asyncio.Event()

            class Rel:
                async def check(self, subject, relation, resource, *, context=None):
                    if subject == "user:slow" and not gate.is_set():
                        entered.set()
                        await gate.wait()
                    return answers[subject]
            g = Guard(copy.deepcopy(POL_REL), cache=DefaultInMemoryCache(), cache_ttl=300, relationship_checker=Rel())
            qa, qb = reqs()
            ta = asyncio.ensure_future(g.evaluate_async(*qa))
            await asyncio.wait_for(entered.wait(), 5)
            db = await asyncio.wait_for(g.evaluate_async(*qb), 5)
            gate.set()
            da = await asyncio.wait_for(ta, 5)
            later = [await g.evaluate_async(*q) for q in reqs()]
            return [fields(da), fields(db)], [fields(d) for d in later]

        def on_threads():
            gate, entered = threading.Event(), threading.Event()

            class Rel:
                def check(self, subject, relation, resource, *, context=None):
                    if subject == "user:slow" and not gate.is_set():
                        entered.set()
                        gate.wait(5)
                    return answers[subject]
            g = Guard(copy.deepcopy(POL_REL), cache=DefaultInMemoryCache(), cache_ttl=300, relationship_checker=Rel())
            qa, qb = reqs()
            box: dict = {}
            t = threading.Thread(target=lambda: box.__setitem__("a", g.evaluate_sync(*qa)), daemon=True)
            t.start()
            if not entered.wait(5):
                raise TimeoutError("first evaluation never reached its relationship lookup")
            db = g.evaluate_sync(*qb)
            gate.set()
            t.join(5)
            if "a" not in box:
                raise TimeoutError("first evaluation did not finish")
            later = [g.evaluate_sync(*q) for q in reqs()]
            return [fields(box["a"]), fields(db)], [fields(d) for d in later]

        for mode, fn in (("one event loop", lambda: asyncio.run(on_loop())), ("two threads", on_threads)):
            run.count("overlap:" + mode)
            run.case(["overlap", mode, slow_allowed], True)
            try:
                during, later = fn()
            except Exception as e:  # noqa: BLE001
                run.spec_failures.append({"part": "overlapping evaluations", "mode": mode, "observed": f"{type(e).__name__}: {e}",
                                          "spec": "two overlapping evaluations on one cached engine did not complete"})
                continue
            for phase, got in (("while overlapping", during), ("afterwards, from the cache", later)):
                if got != want:
                    run.spec_failures.append({"part": "overlapping evaluations", "mode": mode, "phase": phase, "policy": POL_REL,
                                              "held_request_allowed": slow_allowed, "cached": got, "uncached": want,
                                              "spec": "a cached engine returned a decision different from the uncached engine holding the same policy"})
                    break


def _stable_hash(*xs) -> int:
    """deterministic across processes (the builtin hash of strings is salted per process)"""
    import zlib
    return zlib.crc32(repr(xs).encode())


def run_cases(run: lib.Run, scale: int = 1):
    quick = run.tier == "quick"
    configs = [(cap, ttl, "lru") for cap in (0, 1, 2, 2048) for ttl in (None, 0, 5)] + [(0, 5, "dict"), (0, None, "copy")]
    n = 3 if quick else 4
    count = 0
    for L in range(1, n + 1):
        for hist in itertools.product(ALPHABET, repeat=L):
            if not any(o[0] == "eval" for o in hist):
                continue
            for ci, (cap, ttl, kind) in enumerate(configs):
                if quick and L == 3 and (_stable_hash(hist, ci, run.seed) % 7):
                    continue
                if not quick and L == 4 and (_stable_hash(hist, ci, run.seed) % 3):
                    continue
                count += 1
                bad = run_history(hist, cap, ttl, kind, shared_strict=bool((ci + L) % 2))
                run.case([hist, cap, ttl, kind], sum(1 for o in hist if o[0] == "eval") >= 2, {"history": hist, "maxsize": cap, "ttl": ttl, "cache": kind} if count % 500 == 0 else None)
                run.count(f"hist:{kind}")
                if bad:
                    run.spec_failures.append({"part": "history", "history": hist, "maxsize": cap, "ttl": ttl, "cache": kind, **bad,
                                              "spec": "a cached engine returned a decision different from the uncached engine holding the same policy"})
    # two engines, same policy, one of them with a role resolver, one shared cache: every history of length ≤ 3 over a small alphabet
    user = next(i for i, q in enumerate(POOL) if q["roles"] == ["user"])      # rid=2: rule a2 (admin role) decides
    small = [("eval", 0, user), ("eval", 1, user), ("eval", 0, 7), ("eval", 1, 7), ("clear", 0), ("tick", 10)]
    for L in range(1, 4):
        for hist in itertools.product(small, repeat=L):
            if sum(1 for o in hist if o[0] == "eval") < 2:
                continue
            for cap, ttl, kind in ((2048, None, "lru"), (1, 5, "lru"), (0, 5, "dict")):
                bad = run_history(hist, cap, ttl, kind, False, resolver_second=True)
                run.case([hist, cap, ttl, kind, "resolver"], True)
                run.count("hist:resolver-on-second-engine")
                if bad:
                    run.spec_failures.append({"part": "history", "history": hist, "maxsize": cap, "ttl": ttl, "cache": kind, "second_engine_has_role_resolver": True,
                                              **bad, "spec": "a cached engine returned a decision different from the uncached engine holding the same policy"})
    r = random.Random(run.seed * 8191 + 8)
    for k in range((150 if quick else 1500) * scale):
        L = r.randrange(5, 60)
        hist = []
        for _ in range(L):
            t = r.random()
            if t < 0.7:
                hist.append(("eval", r.randrange(2), r.randrange(len(POOL))))
            elif t < 0.82:
                hist.append(("set", r.randrange(2), r.randrange(3)))
            elif t < 0.88:
                hist.append(("clear", r.randrange(2)))
            else:
                hist.append(("tick", r.choice([1, 4, 5, 6, 300])))
        cap, ttl, kind = gen.choice(r, configs)
        with_res = r.random() < 0.3
        bad = run_history(hist, cap, ttl, kind, r.random() < 0.5, resolver_second=with_res)
        run.case([hist, cap, ttl, kind, with_res], True, {"history": hist[:12], "maxsize": cap, "ttl": ttl, "cache": kind} if k < 2 else None)
        run.count(f"random:{kind}")
        if bad:
            hist = lib.shrink_list(hist, lambda h: run_history(h, cap, ttl, kind, False, with_res) is not None or run_history(h, cap, ttl, kind, True, with_res) is not None, 150)
            run.spec_failures.append({"part": "history", "history": hist, "maxsize": cap, "ttl": ttl, "cache": kind, **bad,
                                      "spec": "a cached engine returned a decision different from the uncached engine holding the same policy"})


# ----------------------------------------------------------------------------- the translated cache protocol vs CPython

P_ENVS = [{"subject": {"id": "u", "roles": ["a"], "attrs": {}}, "action": "read", "resource": {"type": "doc", "id": 1, "attrs": {}}, "context": {}},
          {"subject": {"id": "é\"\n", "roles": [], "attrs": {"b": 2, "a": [None, True]}}, "action": "read", "context": {"z": {}, "a": "1"}},
          {"subject": {"id": 1.5}, "context": {"when": datetime(2024, 6, 1, 12, 0)}}]
P_RAWS = [{"decision": "permit", "reason": "matched", "rule_id": "r", "obligations": []}, {"decision": "deny", "reason": "no_match"}]
P_GET = [("ok", None), ("ok", P_RAWS[0]), ("ok", P_RAWS[1]), ("ok", {}), ("ok", 0), ("ok", ""), ("raised",)]
P_DECIDE = [("ok", P_RAWS[0]), ("ok", P_RAWS[1]), ("ok", None), ("raised",)]
P_SET = [("ok", None), ("raised",)]
P_GENS = [(0, 0), (3, 3), (3, 4), (4, 3), (True, 1)]
P_ETAGS = [None, "", "3f9a0c", "e:1"]


def _outcome(o):
    return {"ok": proto.enc(o[1])} if o[0] == "ok" else {"raised": True}


def _dumps_outcome(env):
    try:
        return ("ok", json.dumps(env, sort_keys=True, separators=(",", ":"), default=str, ensure_ascii=False))
    except Exception:  # noqa: BLE001
        return ("raised",)


class _StubCache:
    def __init__(self, get, set_, log):
        self._get, self._set, self.log = get, set_, log

    def get(self, k):
        self.log.append(["call", "cache.get", [proto.enc(k)]])
        if self._get[0] == "raised":
            raise RuntimeError("cache.get raised")
        return self._get[1]

    def set(self, k, v, ttl=None):
        self.log.append(["call", "cache.set", [proto.enc(k), proto.enc(v), proto.enc(ttl)]])
        if self._set[0] == "raised":
            raise RuntimeError("cache.set raised")

    def clear(self):
        self.log.append(["call", "cache.clear", []])
        if self._set[0] == "raised":
            raise RuntimeError("cache.clear raised")


def proto_cases(run: lib.Run, full: bool):
    """(cache present, etag, get outcome, decide outcome, set outcome, (gen at start, gen at store time), ttl, env)"""
    grid = itertools.product((False, True), P_ETAGS, P_GET, P_DECIDE, P_SET, P_GENS, (300, None), range(len(P_ENVS)))
    r = random.Random(run.seed * 977 + 13)
    for t in grid:
        # everything about the protocol itself exhaustively on the first env; the other envs (unicode / floats: the key) on a sample
        if full or t[7] == 0 or r.random() < 0.15:
            yield t


def translated_vs_python(run: lib.Run, facts: dict) -> tuple[bool, str]:
    """the translated cache protocol (Generated.Src.guard_normalize_env / guard_cache_key / engine_cache_proto / guard_set_policy,
    evaluated by `lake env lean --run Rbacx/Run/SrcEvalCacheProto.lean`) against CPython: (1) `guard_cache_key` against the REAL
    `Guard._cache_key` on the near-duplicate pools of the serialiser tie (floats / datetimes included: there the translation is handed what
    CPython's json.dumps did) × etags None / '' / hex / one with a colon; (2) the cache range of `_evaluate_core_async` against the SAME
    statements compiled as a real `async def` from the source text (pytolean_proto.as_python) with a stub cache / `_decide_async` that
    return the outcome's value or raise and record the calls — cache None / hit / falsy hit / miss / get raises / set raises, key None,
    generation moved or not, decide returning None or raising — value AND trace; (3) `set_policy` with `_recompute_etag` / `clear_cache`
    (the methods' own source, compiled) on a stub engine that logs lock, shared-attribute and cache accesses — serialisable / unserialisable
    policy × compile ok / raising / not importable × cache None / ok / raising — final state AND access trace."""
    import subprocess
    import threading
    import types

    import pytolean_proto as pp
    import rbacx.core.engine as reng
    from extractors import src_translation_cacheproto as plug
    quick = run.tier == "quick"
    try:
        src, cfgs, now = plug.configs(real.REPO)
    except pp.Unsupported as e:
        return False, str(e)
    for name in plug.ORDER_OF_TARGETS:
        if [now[name][k] for k in ("lead", "attrs", "inputs")] != [facts[name][k] for k in ("lead", "attrs", "inputs")]:
            return False, f"{name}: the signature extracted now differs from the one in Generated.lean"
    calls = []      # (fn, args, ext, flags, wanted {"out"|"raised", "trace"})

    # ---- (1) the key
    key_sig = facts["guard_cache_key"]
    if key_sig["attrs"] != ["policy_etag"] or len(key_sig["inputs"]) != 1:
        return False, f"guard_cache_key: unexpected inputs {key_sig['attrs']} {key_sig['inputs']}"
    holder = types.SimpleNamespace(_normalize_env_for_cache=Guard._normalize_env_for_cache)
    envs = [(lab, v) for lab, v, twin in canon_envs(run, 1)]
    r = random.Random(run.seed * 131 + 3)
    for i, (lab, v) in enumerate(envs):
        if not isinstance(v, dict) and not lab.startswith("hostile"):
            continue
        if not (lab.startswith("pool") or not quick or i % 4 == 0):
            continue
        try:
            proto.enc(v)
        except TypeError:
            continue
        for etag in (P_ETAGS if lab.startswith("pool") else [r.choice(P_ETAGS[1:])]):
            holder.policy_etag = etag
            want = Guard._cache_key(holder, v)
            calls.append(("guard_cache_key", [etag, v], {"dumps_other": _outcome(_dumps_outcome(v)), "repr_of": {"ok": repr(v)}}, {},
                          {"out": want, "trace": []}))
    n_key = len(calls)

    # ---- (2) the cache range of _evaluate_core_async
    tgt, cfg = cfgs["engine_cache_proto"]
    try:
        py = pp.as_python(src, tgt, cfg, vars(reng))
    except pp.Unsupported as e:
        return False, f"engine_cache_proto: {e}"
    sig = facts["engine_cache_proto"]
    if sig["attrs"] != ["cache", "_policy_gen#1", "_policy_gen#2", "policy_etag", "cache_ttl"] or py["_inputs"] != sig["inputs"] or len(sig["inputs"]) != 1:
        return False, f"engine_cache_proto: unexpected inputs {sig['attrs']} {sig['inputs']}"
    frag = py["_fragment"]
    for present, etag, g_out, d_out, s_out, (g1, g2), ttl, ei in proto_cases(run, not quick):
        env = copy.deepcopy(P_ENVS[ei])
        log: list = []

        class Me:
            relationship_checker = None
            _normalize_env_for_cache = staticmethod(Guard._normalize_env_for_cache)
            _cache_key = Guard._cache_key
            _policy_lock = threading.Lock()
            cache = _StubCache(g_out, s_out, log) if present else None
            policy_etag, cache_ttl = etag, ttl
            _gens = [g1, g2]

            @property
            def _policy_gen(self):
                return self._gens.pop(0)

            async def _decide_async(self, e, d_out=d_out):
                if d_out[0] == "raised":
                    raise RuntimeError("decide raised")
                return d_out[1]
        coro = frag(Me(), env)
        try:
            coro.send(None)
            coro.close()
            return False, "engine_cache_proto: the range suspended (a stub never does)"
        except StopIteration as stop:
            want = {"out": stop.value, "trace": log}
        except RuntimeError as e:
            want = {"raised": str(e), "trace": log}
        ext = {"cache_get": _outcome(g_out), "cache_set": _outcome(s_out), "decide_async": _outcome(d_out),
               "dumps_other": _outcome(_dumps_outcome(env)), "repr_of": {"ok": repr(env)}}
        calls.append(("engine_cache_proto", [None if not present else "<cache>", g1, g2, etag, ttl, env], ext, {}, want))
    n_range = len(calls) - n_key

    # ---- (3) set_policy
    tgt, cfg = cfgs["guard_set_policy"]
    sig = facts["guard_set_policy"]
    if sig["attrs"] != ["cache", "_policy_gen", "policy", "policy_etag", "_compiled"] or len(sig["inputs"]) != 1:
        return False, f"guard_set_policy: unexpected inputs {sig['attrs']} {sig['inputs']}"
    import hashlib
    from datetime import date
    pols = [("P-json", {"rules": [{"id": "r", "effect": "permit"}], "algorithm": "deny-overrides"}), ("P-date", {"rules": [], "issued": date(2024, 6, 1)})]
    for (pname, pol), comp, cache_kind, g in itertools.product(pols, ("ok", "raised", "absent"), ("none", "ok", "raised"), (0, 7)):
        log = []

        def wire(v, pol=pol, pname=pname):
            return pname if v is pol else v

        def compile_stub(p, comp=comp, pname=pname):
            if comp == "raised":
                raise RuntimeError("compile raised")
            return f"FN({pname})"
        try:
            fns = pp.as_python(src, tgt, cfg, vars(reng), overrides={"compile_policy": None if comp == "absent" else compile_stub})
        except pp.Unsupported as e:
            return False, f"guard_set_policy: {e}"

        class Lock:
            def __enter__(self, log=log):
                log.append(["acq", "_policy_lock"])

            def __exit__(self, *a, log=log):
                log.append(["rel", "_policy_lock"])
                return False

        class Me:
            _recompute_etag = fns["_recompute_etag"]
            clear_cache = fns["clear_cache"]

            def __getattribute__(self, name, log=log):
                if name in plug.SHARED:
                    log.append(["rd", name])
                return object.__getattribute__(self, name)

            def __setattr__(self, name, value, log=log, wire=wire):
                if name in plug.SHARED:
                    log.append(["wr", name, proto.enc(wire(value))])
                object.__setattr__(self, name, value)
        me = Me()
        for k, v in (("_policy_lock", Lock()), ("cache", None if cache_kind == "none" else _StubCache(("ok", None), (cache_kind,), log)),
                     ("_policy_gen", g), ("policy", "P-old"), ("policy_etag", "old-etag"), ("_compiled", "old-fn")):
            object.__setattr__(me, k, v)
        try:
            fns["set_policy"](me, pol)
            want = {"out": [wire(object.__getattribute__(me, a)) for a in ("_policy_gen", "policy", "policy_etag", "_compiled")], "trace": log}
        except RuntimeError as e:
            want = {"raised": str(e), "trace": log}
        try:
            text = ("ok", json.dumps(pol, sort_keys=True))
            digest = ("ok", hashlib.sha3_256(text[1].encode("utf-8")).hexdigest())
        except Exception:  # noqa: BLE001
            text, digest = ("raised",), ("raised",)
        ext = {"dumps_sorted_utf8": _outcome(text), "sha3_256_hex": _outcome(digest),
               "compile_policy": {"raised": True} if comp != "ok" else {"ok": f"FN({pname})"},
               "cache_clear": _outcome(("ok", None) if cache_kind == "ok" else ("raised",))}
        calls.append(("guard_set_policy", [None if cache_kind == "none" else "<cache>", g, "P-old", "old-etag", "old-fn", pname], ext,
                      {"compile_policy_present": comp != "absent"}, want))
    n_set = len(calls) - n_key - n_range

    lines = [json.dumps({"fn": fn, "args": [proto.enc(a) for a in args], "oracle": proto.build_oracle(*args), "ext": ext, "flags": flags})
             for fn, args, ext, flags, _ in calls]
    p = subprocess.run(["lake", "env", "lean", "--run", "Rbacx/Run/SrcEvalCacheProto.lean"], cwd=lib.LEAN, input="\n".join(lines) + "\n",
                       capture_output=True, text=True, timeout=1800)
    outs = [ln for ln in p.stdout.split("\n") if ln]
    if p.returncode != 0 or len(outs) != len(lines):
        return False, "SrcEvalCacheProto: " + (p.stderr or p.stdout)[-800:]
    bad = 0
    for (fn, args, ext, flags, want), ln in zip(calls, outs):
        got = json.loads(ln)
        run.count(f"translated-cache-protocol: {fn}")
        w = {"trace": want["trace"], **({"raised": True} if "raised" in want else {"out": proto.enc(want["out"])})}
        if got != w:
            bad += 1
            if bad == 1:
                run.disagreements.append({"part": "translated source vs python", "target": fn, "args": args, "outcomes": ext, "flags": flags,
                                          "impl": {"python": w}, "model": got,
                                          "what": f"the translated {fn} (Generated.Src) and the same statements run by CPython differ"})
    run.evaluations += len(calls)
    return bad == 0, (f"{bad} of {len(calls)} evaluations differ" if bad else
                      f"agree on {len(calls)} evaluations ({n_key} keys, {n_range} protocol runs, {n_set} set_policy runs)")


C08_TRANSLATED = ("C08_translated: Generated.Src.{guard_normalize_env,guard_cache_key,engine_cache_proto,guard_set_policy} (the current source text "
                  "of Guard._normalize_env_for_cache / _cache_key, of the cache range of _evaluate_core_async and of set_policy / _recompute_etag / "
                  "clear_cache; cache.get / cache.set / _decide_async / json.dumps / sha3 / compile as outcome parameters) = the key "
                  "etag:canonJson(env) (None for a falsy etag), the cached step of the model (hit: the cached value, nothing stored; miss: the decision, "
                  "stored under the key iff the generation is unchanged; no cache / no key: plain decision; a raising cache is swallowed), and the updater "
                  "program of C09's model (generation bumped, etag and compiled function recomputed from the NEW policy, cache cleared, all inside the lock)")


def translated_obligation(run: lib.Run, audit: dict, differential: bool = True) -> tuple[bool, bool, str, dict | None]:
    """run and register the per-run obligation C08_translated (and, with `differential`, the comparison with CPython); returns
    (obligation discharged, comparison ok, Lean's message or the comparison's, the extracted translation)"""
    tr = audit["facts"].get("translated_cacheproto")
    untranslatable = isinstance(tr, dict) and "extraction_failed" in tr
    ok_tr, detail_tr = lib.run_obligation("C08_translated")
    run.obligation(C08_TRANSLATED, ok_tr, "discharged" if ok_tr else (str(tr["extraction_failed"]) if untranslatable else detail_tr))
    if not differential:
        return ok_tr, True, detail_tr, tr
    if untranslatable or not isinstance(tr, dict):
        ok_py, detail_py = True, "skipped: the cache protocol is not in the translatable subset (see C08_translated)"
    else:
        ok_py, detail_py = translated_vs_python(run, tr)
    run.obligation("translated cache protocol evaluates like the same statements run by CPython (pytolean_proto + Model/PyProto.lean vs CPython: "
                   "externals raising in the middle of a try, try/finally, lock blocks, two reads of _policy_gen, spliced methods, the real _cache_key)",
                   ok_py, detail_py)
    return ok_tr, ok_py, (detail_tr if not ok_tr else detail_py), tr


def check(run: lib.Run, audit: dict) -> int:
    run.rule = ("exhaustive: all histories of length ≤3 (quick; length 3 subsampled 1/7) / ≤4 (thorough) over a 12-letter alphabet (evaluate on either "
                "of two engines sharing the cache: 3 requests incl. a near-duplicate pair; set_policy/update_policy A→B→A and a policy set; "
                "clear_cache; clock +3/+10) × {LRU maxsize 0,1,2,2048 × ttl None,0,5; dict cache; copying cache} × second engine lax/strict; random "
                "histories of length 5–60 over a 26-request near-duplicate pool; key probe: 3 policies × lax/strict × the pool; protocol shape; 13 twin "
                "document pairs (ids ''/absent, 1/'1'/True, dropped obligations, rule order, algorithm, documents json.dumps refuses) published "
                "P,P',P,P' on one cached engine × the pool × 3 caches; the pool in flight at once (asyncio.gather, yielding role resolver); two "
                "different requests overlapping on one cached engine (first held in its relationship lookup; one loop / two threads), then again. "
                "non-trivial = a history with ≥2 evaluations")
    run.exhaustive = True
    run.rule += ("; serialiser tie (model Rbacx.canonJson vs Guard._normalize_env_for_cache): the 26-request pool × lax/strict, random requests towards "
                 "3 policies, gen_value trees, hostile float-free JSON (quotes, backslashes, every control-character class, U+007F/U+0085/U+2028, "
                 "astral, empty containers, ints up to 4300 digits, keys that are prefixes / escapes of each other) and hostile environments, each "
                 "dict-valued case again with every dict's insertion order shuffled; floats ⇒ the model answers null; the real keys on the cache "
                 "protocol = etag:model text"
                 "; the translated source of the cache protocol vs CPython: the real Guard._cache_key on the serialiser pools × 4 etags; the cache "
                 "range of _evaluate_core_async (same statements compiled from the source) over cache None/present × 4 etags × 7 get outcomes × 4 "
                 "decide outcomes × 2 set outcomes × 5 generation pairs × 2 ttls (× 3 envs sampled; thorough: all); set_policy over 2 policies × "
                 "compile ok/raising/absent × cache none/ok/raising × 2 generations — value and effect trace")
    run.assumptions = ["KeyFaithful is reduced by Rbacx.C08.c08_key_faithful to: sha3-256 of the sorted policy JSON collision-free on the policies in "
                       "play; the raw decision independent of the ORDER of dict entries of the env; envs JSON-valued, float-free, datetime-free. The "
                       "canonical serialiser itself is PROVED injective up to dict-entry order (c08_canon_json_injective, c08_key_injective) and tied "
                       "to the real one on every run; floats (float.__repr__) stay oracle behaviour, probed only",
                       "requests are JSON-valued (a datetime and its str() share a key — outside the quantifier, DESIGN §6 F15)",
                       "the obligation checker is a function of (raw decision, context)"]
    if not audit["ok"]:
        raise lib.CheckError(f"Lean build/audit failed at {audit['stage']}: {audit.get('log') or audit.get('forbidden') or audit.get('bad_axioms')}")
    # the cache protocol as it is written NOW, translated into Lean, is proved to be the step of the models (per-run obligation)
    ok_tr, ok_py, detail_tr, tr = translated_obligation(run, audit)
    real_keys = check_keys_and_protocol(run)
    check_canon_model(run, real_keys)
    run_cases(run)
    twin_cases(run)
    string_twins(run)
    shared_cache_twins(run)
    shared_cache_replacements(run)
    changing_verdicts(run)
    gather_cases(run)
    overlap_cases(run)
    violations = []
    if run.disagreements and not run.spec_failures:
        check_canon_model(run, real_keys, scale=5)  # correspondence broke: widen the search for two envs sharing a real key
    if not ok_tr and not run.spec_failures:
        # the source no longer is the protocol the theorems are about: widen the search for a history on which the cache shows
        run_cases(run, scale=4)
        if not run.spec_failures:
            check_canon_model(run, real_keys, scale=3)
    if run.spec_failures:
        path = run.write_replay("spec", {"what": "C08 violated", "case": run.spec_failures[0], "count": len(run.spec_failures)})
        violations.append((path, True))
    elif not ok_tr:
        path = run.write_replay("obligation", {"what": "per-run obligation Rbacx/Run/C08_translated.lean no longer checks: the translated source of the "
                                               "engine's cache protocol (the cache range of Guard._evaluate_core_async, _cache_key / "
                                               "_normalize_env_for_cache, set_policy / _recompute_etag / clear_cache) is not proved to be the key "
                                               "etag:canonJson(env), the cached step of the model (CacheHist.stepCached, the hypotheses of "
                                               "Rbacx.C08.c08_transparent) and the updater program of Rbacx.Conc; the widened search found no history "
                                               "on which a cached engine answers differently from an uncached one",
                                               "translation": {k: (v.get("lean") if isinstance(v, dict) else v) for k, v in tr.items()} if isinstance(tr, dict) else tr,
                                               "lean": detail_tr[-1500:], "first_disagreement": run.disagreements[:1]})
        violations.append((path, False))
    elif not ok_py or any(d.get("part") == "translated source vs python" for d in run.disagreements):
        first = next((d for d in run.disagreements if d.get("part") == "translated source vs python"),
                     {"part": "translated source vs python", "what": detail_tr})
        path = run.write_replay("correspondence", {"what": "translated source vs python: " + str(first.get("what")) + "; the obligation "
                                                   "C08_translated rests on a translation that CPython contradicts (or that could not be evaluated)",
                                                   "case": first, "count": len(run.disagreements)})
        violations.append((path, False))
    elif run.disagreements:
        path = run.write_replay("correspondence", {"what": f"{run.disagreements[0].get('what', CANON_WHAT)}: the model of the cache key's canonical "
                                                   "serialiser and the implementation disagree; theorems Rbacx.C08.c08_canon_json_injective / "
                                                   "c08_key_injective / c08_key_faithful no longer speak about this code",
                                                   "case": run.disagreements[0], "count": len(run.disagreements)})
        violations.append((path, False))
    return run.finish(audit, violations)


def replay(run: lib.Run, audit: dict, path: str) -> int:
    rp = json.load(open(path))
    c = rp.get("case") or {}
    if not c:
        print("nothing to re-run on the implementation:", rp.get("what"))
        print("recorded:", str(rp.get("lean") or rp.get("first_disagreement"))[:1500])
        return 0
    if c.get("part") == "canon":
        out = proto.run_driver([{"cmd": "canon-json", "value": proto.enc(c["value"])}])[0]
        print("now: impl :", Guard._normalize_env_for_cache(c["value"])[:1500])
        print("now: model:", (out["text"] if out["text"] is not None else "<outside the model's domain>")[:1500])
    if c.get("part") == "history":
        hist = [tuple(o) for o in c["history"]]
        print("now:", run_history(hist, c["maxsize"], c["ttl"], c["cache"], False), run_history(hist, c["maxsize"], c["ttl"], c["cache"], True))
    if c.get("part") in ("overlapping evaluations", "twin-policies", "concurrent-evaluations", "changing-verdicts", "string-twins"):
        before = len(run.spec_failures)
        for fn in {"changing-verdicts": (changing_verdicts,), "overlapping evaluations": (overlap_cases,), "twin-policies": (twin_cases, shared_cache_twins), "string-twins": (string_twins,), "concurrent-evaluations": (gather_cases,)}[c["part"]]:
            fn(run)
        now = run.spec_failures[before:]
        print("now:", json.dumps(now[:1], default=str)[:1500] if now else "no difference between the cached and the uncached engine")
        print("recorded:", json.dumps(c, default=str)[:1500])
        return 1 if now else 0
    print("recorded:", json.dumps(c, default=str)[:1500])
    return 0
