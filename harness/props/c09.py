"""C09 — policy replacement is coherent under concurrent evaluations.

Tie: (1) the shared-access order of the real Guard is traced on every run and checked against the order the
Lean model runs (`Run/C09_shape.lean`); (2) the same schedules are executed on real threads (deterministic
scheduler: every shared access parks its thread) and on the model (`sched-run`): returned decisions, cache
contents and published fields must agree; (3) the statement is checked directly on the real engine's state:
every cached entry is the decision of the policy with that etag, every returned decision is a whole decision of
an installed policy, and after everything has returned a fresh evaluation sees the current policy."""
from __future__ import annotations

import copy
import json
import random

import guardtrace
import lib
import proto
import real
import sched as schedmod
from rbacx.core.cache import DefaultInMemoryCache
from rbacx.core.engine import Guard
from rbacx.core.model import Action, Context, Resource, Subject


def pol(i: int) -> dict:
    """policy number i; numbers ≥ 100 are policy SETS (one child holding the rule), the others single policies"""
    single = {"algorithm": "deny-overrides", "rules": [{"id": f"P{i}", "effect": "permit" if i % 2 else "deny", "actions": ["read"],
                                                         "resource": {"type": "doc"}}]}
    if i >= 100:
        return {"algorithm": "deny-overrides", "policies": [dict(single, id="child")]}
    return single


def pol_number(policy: dict) -> int:
    rules = policy["rules"] if "rules" in policy else policy["policies"][0]["rules"]
    return int(rules[0]["id"][1:])


ETAG = {}


def etag_of(i: int) -> str:
    if i not in ETAG:
        ETAG[i] = Guard(pol(i)).policy_etag
    return ETAG[i]


def req(k: int):
    return Subject("u"), Action("read"), Resource("doc", str(k)), Context({})


class DictCache:
    def __init__(self):
        self.d = {}

    def get(self, k):
        return self.d.get(k)

    def set(self, k, v, ttl=None):
        self.d[k] = v

    def delete(self, k):
        self.d.pop(k, None)

    def clear(self):
        self.d.clear()

    def items(self):
        return list(self.d.items())


def cache_items(cache):
    if isinstance(cache, DictCache):
        return cache.items()
    return [(k, e.value) for k, e in list(cache._data.items())]


def parse_key(k: str, tags: dict):
    """(policy number of the key's etag or -1, request number) of a cache key of the shape `etag:env-json`; (None, request number or -1)
    for a key of another shape (the engine is free to choose its keys: that alone is not a violation, but the model's bookkeeping of
    'which policy's tag is this entry filed under' no longer applies — reported as a broken correspondence)"""
    tag, sep, envjson = k.partition(":")
    try:
        if sep and tag in tags or (sep and len(tag) == 64 and all(c in "0123456789abcdef" for c in tag)):
            return tags.get(tag, -1), int(json.loads(envjson)["resource"]["id"])
        return None, int(json.loads(k)["resource"]["id"])
    except Exception:  # noqa: BLE001
        return None, -1


def run_real(p0: int, progs: list, schedule: list, cache_kind: str):
    ctrl = schedmod.Controlled()
    cache = DictCache() if cache_kind == "dict" else DefaultInMemoryCache(64)
    g, logs, enabled = guardtrace.make_traced_guard(Guard, pol(p0), cache, hook=ctrl.hook)
    results: dict[int, list] = {t: [] for t in range(len(progs))}

    def body(t):
        def run():
            for call in progs[t]:
                if call[0] == "eval":
                    d = g.evaluate_sync(*req(call[1]))
                    results[t].append([call[1], int(str(d.rule_id)[1:])])
                else:
                    g.set_policy(pol(call[1]))
        return run
    for t in range(len(progs)):
        ctrl.spawn(t, body(t))
    for t in range(len(progs)):
        ctrl.settle(t)
    for t in schedule:
        ctrl.step(t)
    enabled["on"] = False
    tags = {etag_of(i): i for i in {p0} | {c[1] for p in progs for c in p if c[0] == "set"}}
    snap_cache = []
    odd_keys = 0
    for k, raw in cache_items(cache):
        t_, rid = parse_key(k, tags)
        if t_ is None:
            odd_keys += 1
            continue
        snap_cache.append([t_, int(rid), int(str(raw.get("last_rule_id"))[1:])])
    oga = lambda n: object.__getattribute__(g, n)  # noqa: E731
    snap = {"returned": {t: list(v) for t, v in results.items()}, "cache": sorted(snap_cache),
            "etag": tags.get(oga("policy_etag"), -1), "pol": pol_number(oga("policy"))}
    enabled["on"] = True
    ctrl.finish_all(range(len(progs)))
    enabled["on"] = False
    if ctrl.errors:
        snap["errors"] = ctrl.errors
    # quiescent probe: everything has returned; a fresh evaluation must see the current policy
    cur = pol_number(oga("policy"))
    probe = {}
    for k in sorted({c[1] for p in progs for c in p if c[0] == "eval"}):
        d = g.evaluate_sync(*req(k))
        probe[k] = int(str(d.rule_id)[1:])
    snap["probe"] = probe
    snap["final_pol"] = cur
    snap["final_cache"] = sorted([parse_key(k, tags)[0], parse_key(k, tags)[1], int(str(raw.get("last_rule_id"))[1:])]
                                 for k, raw in cache_items(cache) if parse_key(k, tags)[0] is not None)
    if odd_keys:
        snap["keys_of_another_shape"] = odd_keys
    return snap


def schedules(lengths: list[int], bound: int):
    """all schedules in which every thread gets its budget of steps, with at most `bound` pre-emptions"""
    n = len(lengths)
    out = []

    def rec(rem, cur, used, acc):
        if all(r == 0 for r in rem):
            out.append(list(acc))
            return
        for t in range(n):
            if rem[t] == 0:
                continue
            cost = 1 if (cur is not None and t != cur and rem[cur] > 0) else 0
            if used + cost > bound:
                continue
            rem[t] -= 1
            acc.append(t)
            rec(rem, t, used + cost, acc)
            acc.pop()
            rem[t] += 1
    rec(list(lengths), None, 0, [])
    return out


def budget(prog) -> int:
    return sum(10 if c[0] == "eval" else 8 for c in prog) + 2


SCENARIOS = [
    (1, [[["eval", 1]], [["set", 2]]]),
    (1, [[["eval", 1], ["eval", 1]], [["set", 2], ["set", 1]]]),
    (1, [[["eval", 1]], [["eval", 1], ["eval", 2]], [["set", 2]]]),
    (101, [[["eval", 1]], [["set", 3]]]),                     # a policy set replaced by a single policy
    (1, [[["eval", 1], ["eval", 1]], [["set", 103], ["set", 1]]]),   # single → set → single
]


def cases(run: lib.Run, scale: int = 1):
    quick = run.tier == "quick"
    r = random.Random(run.seed * 9001 + 9)
    for si, (p0, progs) in enumerate(SCENARIOS):
        lens = [budget(p) for p in progs]
        bound = (2 if si in (0, 3) else 1) if quick else (4 if si in (0, 3) else 2)
        scheds = schedules(lens, bound)
        if quick and len(scheds) > 400:
            scheds = r.sample(scheds, 400)
        for s in scheds:
            yield p0, progs, s, "lru" if (len(s) + si) % 2 else "dict", f"bounded{bound}"
        for _ in range((150 if quick else 3000) * scale):
            pool = [t for t, L in enumerate(lens) for _ in range(L)]
            r.shuffle(pool)
            yield p0, progs, pool, r.choice(["lru", "dict"]), "random"


def spec_check(p0, progs, snap) -> str | None:
    installed = {p0} | {c[1] for p in progs for c in p if c[0] == "set"}
    for tag, k, d in snap["cache"] + snap["final_cache"]:
        if tag != d:
            return f"cache holds the decision of policy {d} under the etag of policy {tag} (request {k})"
    for t, rets in snap["returned"].items():
        for k, d in rets:
            if d not in installed:
                return f"thread {t} returned a decision of no installed policy"
    for k, d in snap["probe"].items():
        if d != snap["final_pol"]:
            return (f"after all calls had returned, a fresh evaluation of request {k} returned policy {d}'s decision "
                    f"while policy {snap['final_pol']} is current")
    if snap.get("errors"):
        return f"a call raised: {snap['errors']}"
    return None


def run_cases(run: lib.Run, audit: dict, scale: int = 1):
    batch, cmds = [], []
    stuck = 0
    for p0, progs, s, kind, label in cases(run, scale):
        try:
            snap = run_real(p0, progs, s, kind)
        except lib.CheckError as e:
            # the engine's threads could not be driven through this schedule (an access pattern the scheduler does not know, or a
            # real blocking wait): the correspondence is broken on this schedule; a handful of these ends the exploration
            stuck += 1
            run.count("schedule-not-executable")
            run.disagreements.append({"p0": p0, "progs": progs, "schedule": s, "cache": kind, "scheduler": str(e)})
            if stuck >= 3:
                break
            continue
        batch.append((p0, progs, s, kind, label, snap))
        cmds.append({"cmd": "sched-run", "p0": p0, "progs": progs, "sched": s})
    answers = proto.run_driver(cmds)
    for (p0, progs, s, kind, label, snap), model in zip(batch, answers):
        overlapped = any(len(v) for v in snap["returned"].values()) and snap["pol"] != p0
        run.count(f"{label}:{kind}")
        run.case([p0, progs, s, kind], overlapped, {"p0": p0, "progs": progs, "schedule": s, "cache": kind, "observed": snap} if overlapped else None)
        case = {"p0": p0, "progs": progs, "schedule": s, "cache": kind, "observed": snap, "model": model}
        why = spec_check(p0, progs, snap)
        if why:
            run.spec_failures.append({**case, "spec": why})
            continue
        # model's freshness clause on the implementation's returns
        m_ret = {t: [[x["key"], x["policy"]] for x in v] for t, v in enumerate(model["returned"])}
        i_ret = {int(t): v for t, v in snap["returned"].items()}
        m_cache = sorted({(a, b, c) for a, b, c in model["cache"]})   # the model's cache is a log: later duplicates of a key are equal
        m_cache = [list(x) for x in m_cache]
        if m_ret != i_ret or m_cache != snap["cache"] or model["etag"] != snap["etag"] or model["pol"] != snap["pol"]:
            run.disagreements.append(case)
            continue
        for t, v in enumerate(model["returned"]):
            for x, (k, d) in zip(v, i_ret.get(t, [])):
                if x["start_clean"] and x["no_update_inside"] and d != x["pol_at_return"]:
                    run.spec_failures.append({**case, "spec": "an evaluation with no replacement step inside its span returned another policy's decision"})


def inside_decision_probes(run: lib.Run) -> None:
    """an evaluation paused INSIDE its decision (at every call the compiled decision function makes to the matcher / the evaluator)
    while, on another thread, another request is evaluated to completion — with or without a replacement in between.  The paused
    evaluation, once released, returns the complete decision of the old or of the new policy for ITS OWN request; the other one
    returns the decision of the policy current when it started; afterwards the cache serves the current policy's decisions."""
    import contextvars
    import threading
    from rbacx.core import compiler as rcompiler
    who: contextvars.ContextVar = contextvars.ContextVar("verif_c09_probe", default=None)

    def mk(tag, e_read, e_write):
        return {"algorithm": "deny-overrides", "rules": [
            {"id": f"{tag}-read", "effect": e_read, "actions": ["read"], "resource": {"type": "doc"}},
            {"id": f"{tag}-write", "effect": e_write, "actions": ["write"], "resource": {"type": "file", "id": "7"}},
            {"id": f"{tag}-any", "effect": "permit", "actions": ["*"], "resource": {"type": "*"}}]}
    A, B = mk("A", "permit", "deny"), mk("B", "deny", "permit")
    q1 = (Subject("u"), Action("read"), Resource("doc", "1"), Context({}))
    q2 = (Subject("u"), Action("write"), Resource("file", "7"), Context({}))
    proj = lambda d: (d.allowed, d.effect, d.rule_id, d.reason)  # noqa: E731
    alone = {(n, i): proj(Guard(copy.deepcopy(p)).evaluate_sync(*q)) for n, p in (("A", A), ("B", B)) for i, q in ((1, q1), (2, q2))}
    names = [n for n in ("match_resource", "evaluate_policy") if hasattr(rcompiler, n)]
    saved = {n: getattr(rcompiler, n) for n in names}
    for replace in (False, True):
        for cached in (False, True):
            # how many pause points does the first evaluation have?
            calls = [0]

            def counting(orig):
                def w(*a, **k):
                    if who.get() == 1:
                        calls[0] += 1
                    return orig(*a, **k)
                return w
            g = Guard(copy.deepcopy(A), cache=DefaultInMemoryCache(64) if cached else None)
            for n in names:
                setattr(rcompiler, n, counting(saved[n]))
            try:
                who.set(1)
                g.evaluate_sync(*q1)
            finally:
                who.set(None)
                for n in names:
                    setattr(rcompiler, n, saved[n])
            total = calls[0]
            run.count("inside-decision:pause-points", total)
            for k in range(1, total + 1):
                g = Guard(copy.deepcopy(A), cache=DefaultInMemoryCache(64) if cached else None)
                reached, release = threading.Event(), threading.Event()
                n_calls = [0]

                def pausing(orig):
                    def w(*a, **kw):
                        if who.get() == 1:
                            n_calls[0] += 1
                            if n_calls[0] == k:
                                reached.set()
                                release.wait(10)
                        return orig(*a, **kw)
                    return w
                box: dict = {}

                def first():
                    who.set(1)
                    try:
                        box["d1"] = proj(g.evaluate_sync(*q1))
                    except Exception as e:  # noqa: BLE001
                        box["d1"] = ("raised", type(e).__name__)
                for n in names:
                    setattr(rcompiler, n, pausing(saved[n]))
                try:
                    t = threading.Thread(target=first, daemon=True)
                    t.start()
                    if not reached.wait(10):
                        release.set()
                        t.join(10)
                        continue
                    try:
                        if replace:
                            g.set_policy(copy.deepcopy(B))
                        d2 = proj(g.evaluate_sync(*q2))
                    except Exception as e:  # noqa: BLE001
                        d2 = ("raised", type(e).__name__)
                    release.set()
                    t.join(10)
                finally:
                    release.set()
                    for n in names:
                        setattr(rcompiler, n, saved[n])
                cur = "B" if replace else "A"
                later = [proj(g.evaluate_sync(*q1)), proj(g.evaluate_sync(*q2))]
                run.evaluations += 1
                run.count("inside-decision:probe")
                why = None
                if box.get("d1") not in ({alone[("A", 1)], alone[("B", 1)]} if replace else {alone[("A", 1)]}):
                    why = "the paused evaluation returned a decision that is neither the old nor the new policy's decision for its request"
                elif d2 != alone[(cur, 2)]:
                    why = "an evaluation started after the replacement had returned (or with no replacement at all) did not return the current policy's decision"
                elif later != [alone[(cur, 1)], alone[(cur, 2)]]:
                    why = "after everything had returned, a fresh evaluation did not return the current policy's decision (a stale or foreign decision was left in the cache)"
                if why:
                    run.spec_failures.append({"part": "inside the decision", "pause_at_call": k, "of": total, "replacement_in_between": replace, "cache": cached,
                                              "policy_A": A, "policy_B": B, "paused_request": "read doc/1", "other_request": "write file/7",
                                              "paused_returned": box.get("d1"), "other_returned": d2, "afterwards": later,
                                              "alone": {f"{n}{i}": v for (n, i), v in alone.items()}, "spec": why})
                    return


DECIDE_TRANSLATED = ("C09_decide_translated: Generated.Src.guard_decide_async (the current source text of Guard._decide_async; the functions run by "
                     "asyncio.to_thread as outcome parameters, every textual read of self._compiled / self.policy an input of its own) = the dispatch "
                     "protocol (compiled function present and returns: its value, one shared read `_compiled`, no read of `policy` — the eFn step of "
                     "Conc.expectedEvalMiss; absent or raised: dispatch on `\"policies\" in <1st read of self.policy>`, evaluation of the <2nd read>; the "
                     "interpreter's exception propagates; torn-read hazard stated), and Generated.Src.guard_init (Guard.__init__ with _recompute_etag in "
                     "place) constructs the initial state of the C08/C09 models: generation 0, etag and compiled function computed from the constructor's "
                     "policy by the functions set_policy uses, `_compiled` assigned whenever the compiler is importable (None only if it raised)")


def translated_vs_python(run: lib.Run, facts: dict) -> tuple[bool, str]:
    """the translated `_decide_async` / `__init__` (Generated.Src.guard_decide_async / guard_init, evaluated by `lake env lean --run
    Rbacx/Run/SrcEvalDecide.lean`) against the SAME methods compiled from the source text and run by CPython (pytolean_decide.as_python):
    (1) `_decide_async` on a real event loop with the real `asyncio.to_thread` and `EVAL_LOOP`, stub `decide_policyset` / `decide_policy` and a
    stub compiled function that answer (a value that names the function and ITS ARGUMENTS) or raise, on an object whose `policy` /
    `_compiled` yield a DIFFERENT value at every read and log the read — compiled None / returns a dict / a non-dict / None / raises × first
    read of `policy` a set document / a single policy / None / a number / a str containing "policies" / lists × second read a set / a single
    document × set evaluator ok / raises × single evaluator ok / raises: value AND order of shared reads; (2) `__init__` + `_recompute_etag`
    with stub compiler (ok / raises / not importable), `BasicObligationChecker` and `threading.Lock` (ok / raise), serialisable /
    unserialisable policy, truthy / falsy checker argument, several `strict_types`: all thirteen fields."""
    import asyncio
    import hashlib
    import itertools
    import subprocess
    import types
    from datetime import datetime

    import pytolean_decide as pd
    import rbacx.core.engine as reng
    from extractors import src_translation_decide as plug
    try:
        src, cfgs, now = plug.configs(real.REPO)
    except pd.pp.Unsupported as e:
        return False, str(e)
    for name in plug.ORDER_OF_TARGETS:
        if [now[name][k] for k in ("lead", "attrs", "inputs")] != [facts[name][k] for k in ("lead", "attrs", "inputs")]:
            return False, f"{name}: the signature extracted now differs from the one in Generated.lean"
    outcome = lambda o: {"ok": proto.enc(o[1])} if o[0] == "ok" else {"raised": True}  # noqa: E731
    calls = []      # (fn, args, ext, flags, wanted)

    # ---- (1) _decide_async
    tgt, cfg = cfgs["guard_decide_async"]
    sig = facts["guard_decide_async"]
    if sig["attrs"] != ["_compiled#1", "policy#1", "policy#2", "policy#3"] or sig["inputs"] != ["env"]:
        return False, (f"guard_decide_async: unexpected inputs {sig['attrs']} {sig['inputs']} (the comparison feeds the 1st dynamic read of "
                       "self.policy to policy#1 and the 2nd to policy#2 / policy#3)")
    env = {"subject": {"id": "u", "roles": []}, "action": "read", "resource": {"type": "doc", "id": "1"}, "context": {}}
    firsts = [{"algorithm": "deny-overrides", "policies": []}, {"rules": []}, None, 5, "xpoliciesx", ["policies"], ["x"], {}]
    seconds = [{"policies": [{"rules": []}], "id": "B-set"}, {"rules": [], "id": "B-single"}]
    compiled = [("absent",), ("ok", {"decision": "permit", "by": "compiled"}), ("ok", 7), ("ok", None), ("raised",)]
    loop = asyncio.new_event_loop()
    try:
        for comp, a, b, s_out, p_out in itertools.product(compiled, firsts, seconds, ("ok", "raised"), ("ok", "raised")):
            log: list = []

            def mk(name, out):
                def f(policy, e):
                    if out == "raised":
                        raise RuntimeError(f"{name} raised")
                    return {"by": name, "policy": policy, "env": e}
                return f

            def compiled_fn(e, comp=comp):
                if comp[0] == "raised":
                    raise RuntimeError("compiled raised")
                return comp[1]
            try:
                fns = pd.as_python(src, tgt, cfg, vars(reng), overrides={"decide_policyset": mk("set", s_out), "decide_policy": mk("single", p_out)})
            except pd.pp.Unsupported as e:
                return False, f"guard_decide_async: {e}"

            class Me:
                _reads = {"policy": [a, b, "THIRD-READ"], "_compiled": [None if comp[0] == "absent" else compiled_fn, "SECOND-READ"]}

                def __getattribute__(self, name, log=log):
                    if name in plug.SHARED:
                        log.append(["rd", name])
                        return type(self)._reads[name].pop(0)
                    return object.__getattribute__(self, name)
            try:
                got = loop.run_until_complete(fns["_decide_async"](Me(), copy.deepcopy(env)))
                want = {"out": got, "trace": log}
            except Exception as e:  # noqa: BLE001
                want = {"raised": type(e).__name__, "trace": log}
            fn_val = None if comp[0] == "absent" else "<compiled fn>"
            ext = {"run_compiled": [[[proto.enc(fn_val), proto.enc(env)], outcome(comp)]] if comp[0] != "absent" else {"raised": True},
                   # one row per value a read of self.policy can yield: the answer names the policy the evaluator was handed
                   "decide_policyset": [[[proto.enc(x), proto.enc(env)], outcome((s_out, {"by": "set", "policy": x, "env": env}))] for x in (b, a, "THIRD-READ")],
                   "decide_policy": [[[proto.enc(x), proto.enc(env)], outcome((p_out, {"by": "single", "policy": x, "env": env}))] for x in (b, a, "THIRD-READ")]}
            calls.append(("guard_decide_async", [fn_val, a, b, b, env], ext, {}, want))
    finally:
        loop.close()
    n_decide = len(calls)

    # ---- (2) __init__
    tgt, cfg = cfgs["guard_init"]
    sig = facts["guard_init"]
    params = ["policy", "logger_sink", "metrics", "obligation_checker", "role_resolver", "relationship_checker", "cache", "cache_ttl", "strict_types"]
    if sig["attrs"] != plug.INIT_FIELDS or sig["inputs"] != params or sig["outputs"] != ["self." + a for a in plug.INIT_FIELDS]:
        return False, f"guard_init: unexpected fields / parameters {sig['attrs']} {sig['inputs']}"
    pols = [("P-json", {"rules": [{"id": "r", "effect": "permit"}], "algorithm": "deny-overrides"}),
            ("P-set", {"policies": [{"rules": []}]}), ("P-datetime", {"rules": [], "issued": datetime(2024, 6, 1)})]
    for (pname, pol_), comp, chk, basic, lock, strict in itertools.product(pols, ("ok", "raised", "absent"), ("CHK", "", None), ("ok", "raised"),
                                                                         ("ok", "raised"), (False, True, 0, "yes", None)):
        if run.tier == "quick" and strict not in (False, "yes") and (basic, lock) != ("ok", "ok"):
            continue

        def compile_stub(p, comp=comp, pname=pname):
            if comp == "raised":
                raise RuntimeError("compile raised")
            return f"FN({pname})"

        def ctor(name, how):
            def f():
                if how == "raised":
                    raise RuntimeError(f"{name} raised")
                return f"<{name}>"
            return f
        try:
            fns = pd.as_python(src, tgt, cfg, vars(reng), overrides={"compile_policy": None if comp == "absent" else compile_stub,
                                                                     "BasicObligationChecker": ctor("basic", basic),
                                                                     "threading": types.SimpleNamespace(Lock=ctor("lock", lock))})
        except pd.pp.Unsupported as e:
            return False, f"guard_init: {e}"

        class Obj:
            _recompute_etag = fns["_recompute_etag"]
        me = Obj()
        kwargs = {"logger_sink": "SINK", "metrics": None, "obligation_checker": chk, "role_resolver": "RR", "relationship_checker": None,
                  "cache": "CACHE", "cache_ttl": 300, "strict_types": strict}
        try:
            fns["__init__"](me, pol_, **kwargs)
            want = {"out": [getattr(me, a) for a in plug.INIT_FIELDS], "trace": []}
        except RuntimeError as e:
            want = {"raised": str(e), "trace": []}
        try:
            text = ("ok", json.dumps(pol_, sort_keys=True))
            digest = ("ok", hashlib.sha3_256(text[1].encode("utf-8")).hexdigest())
        except Exception:  # noqa: BLE001
            text, digest = ("raised",), ("raised",)
        ext = {"dumps_sorted_utf8": outcome(text), "sha3_256_hex": outcome(digest),
               "compile_policy": {"raised": True} if comp != "ok" else {"ok": f"FN({pname})"},
               "new_basic_checker": outcome((basic, "<basic>")), "new_lock": outcome((lock, "<lock>"))}
        prior = [f"PRIOR-{i}" for i in range(len(plug.INIT_FIELDS))]
        calls.append(("guard_init", prior + [pol_] + [kwargs[p] for p in params[1:]], ext, {"compile_policy_present": comp != "absent"}, want))
    n_init = len(calls) - n_decide

    lines = [json.dumps({"fn": fn, "args": [proto.enc(a) for a in args], "ext": ext, "flags": flags}) for fn, args, ext, flags, _ in calls]
    p = subprocess.run(["lake", "env", "lean", "--run", "Rbacx/Run/SrcEvalDecide.lean"], cwd=lib.LEAN, input="\n".join(lines) + "\n",
                       capture_output=True, text=True, timeout=1800)
    outs = [ln for ln in p.stdout.split("\n") if ln]
    if p.returncode != 0 or len(outs) != len(lines):
        return False, "SrcEvalDecide: " + (p.stderr or p.stdout)[-800:]
    bad = 0
    for (fn, args, ext, flags, want), ln in zip(calls, outs):
        got = json.loads(ln)
        run.count(f"translated-decide: {fn}")
        w = {"trace": want["trace"], **({"raised": True} if "raised" in want else {"out": proto.enc(want["out"])})}
        if got != w:
            bad += 1
            if bad == 1:
                run.disagreements.append({"part": "translated source vs python", "target": fn, "args": args, "outcomes": ext, "flags": flags,
                                          "impl": {"python": w}, "model": got,
                                          "what": f"the translated {fn} (Generated.Src) and the same method run by CPython differ"})
    run.evaluations += len(calls)
    return bad == 0, (f"{bad} of {len(calls)} evaluations differ" if bad else
                      f"agree on {len(calls)} evaluations ({n_decide} _decide_async runs, {n_init} constructor runs)")


def compiled_installed_probe(run: lib.Run) -> None:
    """what `guard_init_compiled_assigned` / `guard_set_policy_eq` leave to the real compiler: on the policies the schedules use (single
    policies AND sets) the compiler is importable and does not raise, so `_compiled` is a function after `__init__` and after
    `set_policy` — the evaluator then takes the path with ONE shared read (`_compiled`), the only one the interleaving model has.  A
    policy for which no compiled function is installed is a broken correspondence (the fallback reads `self.policy` twice)."""
    import rbacx.core.engine as reng
    for i in (1, 2, 3, 101, 103):
        g = Guard(pol(i))
        first = object.__getattribute__(g, "_compiled")
        g.set_policy(pol(i + 1))
        second = object.__getattribute__(g, "_compiled")
        run.evaluations += 1
        run.count("compiled-installed-probe")
        if reng.compile_policy is None or first is None or second is None:
            run.disagreements.append({"part": "compiled function installed", "policy": pol(i) if first is None else pol(i + 1),
                                      "what": "no compiled function is installed for this policy (after __init__ / set_policy): evaluations take the "
                                              "interpreter fallback of _decide_async, whose two separate reads of self.policy the interleaving model "
                                              "Rbacx.Conc does not have"})
            return


def decide_obligation(run: lib.Run, audit: dict, differential: bool = True) -> tuple[bool, bool, str]:
    """run and register the per-run obligation C09_decide_translated (and, with `differential`, the comparison with CPython); returns
    (obligation discharged, comparison ok, Lean's message or the comparison's)"""
    tr = audit["facts"].get("translated_decide")
    untranslatable = isinstance(tr, dict) and "extraction_failed" in tr
    ok_tr, detail_tr = lib.run_obligation("C09_decide_translated")
    run.obligation(DECIDE_TRANSLATED, ok_tr, "discharged" if ok_tr else (str(tr["extraction_failed"]) if untranslatable else detail_tr))
    if not differential:
        return ok_tr, True, detail_tr
    if untranslatable or not isinstance(tr, dict):
        ok_py, detail_py = True, "skipped: _decide_async / __init__ are not in the translatable subset (see C09_decide_translated)"
    else:
        ok_py, detail_py = translated_vs_python(run, tr)
    run.obligation("translated _decide_async / __init__ evaluate like the same methods run by CPython (pytolean_decide + Model/PyDecide.lean vs CPython: "
                   "asyncio.to_thread outcomes, the try/except around the compiled function inside try/finally, `in` raising on a non-container, "
                   "which read of self.policy feeds which evaluator, the constructor's fields)", ok_py, detail_py)
    return ok_tr, ok_py, (detail_tr if not ok_tr else detail_py)


def check(run: lib.Run, audit: dict) -> int:
    run.rule = ("schedules of access steps on real threads: 1 evaluator × 1 set_policy (all schedules with ≤2 (quick) / ≤4 (thorough) pre-emptions), "
                "2 evaluations × A→B→A and 2 evaluators (two requests) × 1 set_policy (≤1 / ≤2 pre-emptions), a policy set replaced by a single "
                "policy and single → set → single, plus random schedules, with the built-in "
                "and a dict cache; after each schedule the engine is drained and probed; an evaluation paused at every call its decision function "
                "makes to the matcher / evaluator while another request (other action and type) is evaluated on a second thread, with and without a "
                "replacement in between, with and without cache. non-trivial = an evaluation returned and the policy was "
                "replaced within the schedule")
    run.assumptions = ["a single attribute load/store and a cache call are atomic in CPython; threading.Lock is a mutex (trusted base)",
                       "sha3-256 of the sorted policy JSON is injective on the policies used"]
    if not audit["ok"]:
        raise lib.CheckError(f"Lean build/audit failed at {audit['stage']}: {audit.get('log') or audit.get('forbidden') or audit.get('bad_axioms')}")
    ok, detail = lib.run_obligation("C09_shape")
    run.obligation("C09_shape: ShapeOk Generated.guardEvalMiss/Hit/SetPolicy", ok, detail if not ok else "discharged")
    run.extra["traced_programs"] = audit["facts"].get("guard_programs")
    # tie by regeneration: the SOURCE TEXT of the cache range of the evaluation and of set_policy, translated, is proved to store nothing
    # when the generation moved and to be the updater program for every outcome of every collaborator (the trace above is one run)
    ok_tr, detail_tr = lib.run_obligation("C08_translated")
    tr = audit["facts"].get("translated_cacheproto")
    run.obligation("C08_translated (C09's share): Generated.Src.engine_cache_proto stores nothing if the generation read at store time differs from the "
                   "one read at the start, and whatever it stores is this evaluation's decision under this evaluation's key "
                   "(engine_cache_proto_gen_moved / _stored); Generated.Src.guard_set_policy is the updater program Conc.expectedSetPolicy inside one "
                   "lock block, for every outcome of serialiser, sha3, compiler and cache.clear (guard_set_policy_eq / _program / _locked)",
                   ok_tr, "discharged" if ok_tr else (str(tr["extraction_failed"]) if isinstance(tr, dict) and "extraction_failed" in tr else detail_tr))
    # … and of _decide_async / __init__: the evaluator's read of `_compiled` (and NO read of `policy`) when the compiled function answers,
    # the fallback's two separate reads of `policy`, the consistently installed initial state
    ok_dec, ok_dec_py, detail_dec = decide_obligation(run, audit)
    if not ok_dec_py and not any(d.get("part") == "translated source vs python" for d in run.disagreements):
        run.disagreements.append({"part": "translated source vs python", "what": detail_dec})
    compiled_installed_probe(run)
    # … and the evaluator's whole ACCESS PROGRAM from the text: the cache range with lock blocks / generation reads as effects, `_cache_key`
    # expanded to the reads it makes, `_decide_async` to the accesses of its translation = Conc.expectedEvalMiss / expectedEvalHit
    prog = (audit["facts"].get("translated_decide") or {}).get("engine_eval_program") if isinstance(audit["facts"].get("translated_decide"), dict) else None
    ok_prog, detail_prog = lib.run_obligation("C09_eval_program")
    run.obligation("C09_eval_program: Generated.Src.engine_eval_program (the cache range of Guard._evaluate_core_async with lock acquire/release and the "
                   "reads of _policy_gen as effects, _cache_key / _decide_async as labelled calls), with _cache_key expanded to Generated.Src.cacheKeyReads "
                   "(what _cache_key reads of self, from the text) and _decide_async to the access sequence of Generated.Src.guard_decide_async, is "
                   "Conc.expectedEvalMiss (miss, generation unchanged) / Conc.expectedEvalHit (hit), for every outcome of every collaborator; generation "
                   "moved: no cache.set, lock released", ok_prog,
                   "discharged" if ok_prog else (str(prog["failed"]) if isinstance(prog, dict) and "failed" in prog else detail_prog))
    ok_shape, ok = ok, ok and ok_tr and ok_dec and ok_prog
    if ok_shape and not ok_tr:
        detail = detail_tr
    elif ok_shape and not ok_dec:
        detail = detail_dec
    elif ok_shape and not ok_prog:
        detail = detail_prog
    run_cases(run, audit, scale=run.boost)
    inside_decision_probes(run)
    violations = []
    if (run.disagreements or not ok) and not run.spec_failures:
        run_cases(run, audit, scale=6)
    if run.spec_failures:
        path = run.write_replay("spec", {"what": "C09 violated on real threads under a concrete schedule", "case": run.spec_failures[0],
                                         "count": len(run.spec_failures)})
        violations.append((path, True))
    elif not ok:
        path = run.write_replay("obligation", {"what": ("per-run obligation Rbacx/Run/C09_shape.lean no longer checks: the Guard's shared-access order is "
                                                        "not the one theorems Rbacx.C09.* are about" if not ok_shape else
                                                        "per-run obligation Rbacx/Run/C09_decide_translated.lean no longer checks: the translated source of "
                                                        "Guard._decide_async / Guard.__init__ is not proved to be the dispatch the evaluator program of "
                                                        "Rbacx.Conc assumes (the compiled function's value after ONE read of _compiled and no read of policy; "
                                                        "fallback: dispatch on the first read of self.policy, evaluation of the second, exceptions propagate) / "
                                                        "the consistently installed initial state (generation 0, etag and compiled function of the "
                                                        "constructor's policy)" if ok_tr and not ok_dec else
                                                        "per-run obligation Rbacx/Run/C09_eval_program.lean no longer checks: the access program of the "
                                                        "evaluation read off the source text (lock blocks, generation reads, the read of policy_etag inside "
                                                        "_cache_key, the lookup, the accesses of _decide_async, the conditional store) is not "
                                                        "Conc.expectedEvalMiss / expectedEvalHit, the programs theorems Rbacx.C09.* are about" if ok_tr else
                                                        "per-run obligation Rbacx/Run/C08_translated.lean no longer checks: the translated source of the "
                                                        "cache range of the evaluation / of set_policy is not proved to be the evaluator / updater program "
                                                        "theorems Rbacx.C09.* are about (store only if the generation is unchanged; bump, publish, clear "
                                                        "inside the lock)"), "traced": audit["facts"].get("guard_programs"), "lean": detail[-1500:],
                                               "first_disagreement": run.disagreements[:1]})
        violations.append((path, False))
    elif run.disagreements:
        path = run.write_replay("correspondence", {"what": "real threads and model Rbacx.Conc disagree under the same schedule; theorems Rbacx.C09.* no "
                                                   "longer speak about this code", "first": run.disagreements[0], "count": len(run.disagreements)})
        violations.append((path, False))
    return run.finish(audit, violations)


def replay(run: lib.Run, audit: dict, path: str) -> int:
    rp = json.load(open(path))
    c = rp.get("case") or rp.get("first")
    if c and c.get("part") == "inside the decision":
        inside_decision_probes(run)
        now = [f for f in run.spec_failures if f.get("part") == "inside the decision"]
        print("now:", json.dumps(now[0], default=str)[:2000] if now else "every paused evaluation returned its own request's decision")
        print("recorded:", json.dumps(c, default=str)[:2000])
        return 1 if now else 0
    if c and c.get("part") in ("translated source vs python", "compiled function installed"):
        print("recorded:", json.dumps(c, default=str)[:2000])
        if c["part"] == "compiled function installed":
            compiled_installed_probe(run)
            print("now:", run.disagreements[:1] or "a compiled function is installed for every probed policy")
        return 0
    if c and "p0" in c:
        snap = run_real(c["p0"], c["progs"], c["schedule"], c["cache"])
        print("now:", snap, "->", spec_check(c["p0"], c["progs"], snap))
    return 0
