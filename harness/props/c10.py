"""C10 — hot reload is fail-safe, version-tag gated and converges to the source.

Tie: histories (source changes, faults, clock advances, plain / forced / async / overlapping
checks) are executed on a real `HotReloader` + real `Guard` (+ counting `DefaultInMemoryCache`)
with `time.time` and `random.uniform` injected, over
  * scripted custom sync and async sources (tagged / `None` tag / non-str tag),
  * the real `FilePolicySource` on a temp dir (exact mtimes through `os.utime`),
  * the real `HTTPPolicySource` over a stub `requests` module (ETag / no ETag / 304 / error status),
  * the real `S3PolicySource` over a fake client (etag / version-id / checksum; missing key; HEAD failing),
and on the Lean model (`Rbacx.Reloader.wcheck` / `stepThread` over `worldSource`) through the driver
command `reload-ops`.  Compared after every op: result(s), active policy, `last_etag`,
`suppressed_until`, `last_error is None`, number of `etag()` / `load()` calls, number of cache clears.
The C10 spec predicates (`Rbacx/Spec/Reload.lean` + convergence on the settle suffix) are evaluated
by the driver on the implementation's own trace.

All times are multiples of 1/64 s (and the literal 0.2), so every value is exact both as a binary
float and as an integer number of microseconds (the model's time unit).

Tie by regeneration: `check_and_reload_async`, `_register_error` and the state-creating statements of `__init__` are translated from
the CURRENT source text on every run (harness/pytolean_state.py, plugin extractors/src_translation_reloader.py); the per-run obligation
`Rbacx/Run/C10_translated.lean` proves the translation equal to the model's `check` / `registerError` / `init` (and histories of
translated checks equal to `run`), and `translated_vs_python` (harness/reloader_tr.py, evaluator `Rbacx/Run/SrcEvalReloader.lean`) runs the
translation against the real methods with scripted collaborators.  When the obligation does not check, the search is widened; a history on
which the real reloader violates a clause is reported as `VIOLATION … replay=…`, else the undischarged obligation itself is."""
from __future__ import annotations

import asyncio
import hashlib
import itertools
import json
import os
import queue
import random
import sys
import tempfile
import threading
import types
from typing import Any

import lib
import proto
import real  # noqa: F401  (sets sys.path to the repo under test)
import http_tr
import reloader_tr
from rbacx.core.cache import DefaultInMemoryCache
from rbacx.core.engine import Guard
from rbacx.policy import loader as rloader
from rbacx.policy.loader import HotReloader
from rbacx.store.file_store import FilePolicySource
from rbacx.store.http_store import HTTPPolicySource
from rbacx.store.s3_store import S3PolicySource

NOW0 = 1_000_000_000          # µs: the injected clock starts at 1000.0 s
MT0 = 1_700_000_000_000_000_000
SETTLE_DT = 64_000_000        # far beyond any back-off window of CFGS
POLICY0 = {"marker": "init", "rules": []}

KINDS: dict[str, dict] = {
    "custom": {"type": "custom", "tag_mode": "str", "async": False},
    "custom_async": {"type": "custom", "tag_mode": "str", "async": True},
    "custom_none": {"type": "custom", "tag_mode": "none", "async": False},
    "custom_nonstr": {"type": "custom", "tag_mode": "nonstr", "async": False},
    "file": {"type": "file", "mtime_in_tag": False},
    "file_mtime": {"type": "file", "mtime_in_tag": True},
    # the configured path is a symbolic link; every write is an atomic rollout: new target file, link re-pointed, old target removed
    "file_link": {"type": "file", "mtime_in_tag": False, "link": True},
    "http_etag": {"type": "http", "server_etags": True},
    "http_plain": {"type": "http", "server_etags": False},
    "s3_etag": {"type": "s3", "detector": "etag", "prefer": "sha256"},
    "s3_vid": {"type": "s3", "detector": "version_id", "prefer": "sha256"},
    "s3_ck": {"type": "s3", "detector": "checksum", "prefer": "sha256"},
    "s3_ck_crc": {"type": "s3", "detector": "checksum", "prefer": "crc32c"},
}

# (backoff_min µs, backoff_max µs, jitter_ratio [num, den]) — every product backoff*ratio*u below is a multiple of 1/64 s
CFGS = [
    {"backoff_min": 500_000, "backoff_max": 2_000_000, "ratio": [1, 2]},
    {"backoff_min": 125_000, "backoff_max": 250_000, "ratio": [1, 2]},      # reaches the 0.2 floor
    {"backoff_min": 1_000_000, "backoff_max": 500_000, "ratio": [1, 4]},    # min > max
    {"backoff_min": 250_000, "backoff_max": 4_000_000, "ratio": [0, 1]},    # no jitter
]
US = [[1, 1], [-1, 1], [1, 2], [0, 1], [-1, 2]]

FIELDS = ["results", "policy", "last_etag", "suppressed_until", "error_set", "etag_calls", "loads", "cache_epoch"]


class HTTPError(RuntimeError):
    pass


class NoSuchKey(Exception):
    pass


def make_exc(cls: str) -> Exception:
    if cls == "JSONDecodeError":
        return json.JSONDecodeError("scripted", "doc", 0)
    if cls == "FileNotFoundError":
        return FileNotFoundError("scripted")
    if cls == "ValueError":
        return ValueError("scripted")
    if cls == "KeyError":
        return KeyError("scripted")
    if cls == "OSError":
        return OSError("scripted")
    if cls == "HTTPError":
        return HTTPError("scripted")
    return RuntimeError("scripted")


def marker(policy: Any) -> str:
    if isinstance(policy, dict):
        if "marker" in policy:
            return str(policy["marker"])
        if not policy:
            return "{}"
    return "?" + repr(policy)[:40]


# ----------------------------------------------------------------------------- injected clock / PRNG / requests


class _Current:
    env: "Env | None" = None


class _FakeTime:
    @staticmethod
    def time() -> float:
        return _Current.env.clock_us / 1e6

    def __getattr__(self, name):  # anything else the module might use
        import time as _t
        return getattr(_t, name)


class _FakeRandom:
    @staticmethod
    def uniform(a: float, b: float) -> float:
        env = _Current.env
        u = env.u_by_thread.get(threading.get_ident(), env.u)
        assert a <= u <= b
        return u

    def __getattr__(self, name):
        import random as _r
        return getattr(_r, name)


class _Resp:
    def __init__(self, status: int, headers: dict, text: str):
        self.status_code = status
        self.headers = headers
        self.text = text

    def json(self):
        return json.loads(self.text)

    def raise_for_status(self):
        if self.status_code >= 400:
            raise HTTPError(f"HTTP {self.status_code}")


class FakeServer:
    def __init__(self, server_etags: bool):
        self.server_etags = server_etags
        self.blob: dict | None = None
        self.fail_next = False
        self.gets = 0
        self.conditional = 0


SERVERS: dict[str, FakeServer] = {}


def _fake_get(url, headers=None, timeout=None, **kw):
    srv = SERVERS[url]
    srv.gets += 1
    headers = headers or {}
    if "If-None-Match" in headers:
        srv.conditional += 1
    if srv.fail_next:
        how, srv.fail_next = srv.fail_next, False
        if how == "ConnectionError":
            raise ConnectionError("connection refused")        # the transport itself fails: no response object at all
        if how == "Timeout":
            raise TimeoutError("read timed out")
        return _Resp(500, {}, "server error")
    if srv.blob is None:
        return _Resp(404, {}, "not found")
    tag = srv.blob["etag"] if srv.server_etags else None
    if tag and headers.get("If-None-Match") == tag:
        return _Resp(304, {"ETag": tag}, "")
    h = {"Content-Type": "application/json"}
    if tag:
        h["ETag"] = tag
    return _Resp(200, h, srv.blob["content"])


class _Patched:
    """time/random of rbacx.policy.loader and the `requests` module, replaced for the duration of a run"""

    def __enter__(self):
        self.old = (rloader.time, rloader.random, sys.modules.get("requests"))
        rloader.time = _FakeTime()
        rloader.random = _FakeRandom()
        stub = types.ModuleType("requests")
        stub.get = _fake_get
        stub.HTTPError = HTTPError
        sys.modules["requests"] = stub
        return self

    def __exit__(self, *a):
        rloader.time, rloader.random = self.old[0], self.old[1]
        if self.old[2] is None:
            sys.modules.pop("requests", None)
        else:
            sys.modules["requests"] = self.old[2]
        _Current.env = None


class _Body:
    def __init__(self, data: bytes):
        self.data = data

    def read(self):
        return self.data

    def close(self):
        pass


_CK_KEYS = {"sha256": "ChecksumSHA256", "crc32c": "ChecksumCRC32C", "sha1": "ChecksumSHA1", "crc32": "ChecksumCRC32",
            "crc64nvme": "ChecksumCRC64NVME"}


class FakeS3:
    exceptions = types.SimpleNamespace(NoSuchKey=NoSuchKey)

    def __init__(self):
        self.obj: dict | None = None
        self.head_fails = False
        self.attrs_fail = False
        self.get_fault: str | None = None

    def head_object(self, Bucket, Key):
        if self.head_fails:
            raise RuntimeError("network down")
        if self.obj is None:
            raise NoSuchKey()
        out = {}
        if self.obj["etag"] is not None:
            out["ETag"] = self.obj["etag"]
        if self.obj["vid"] is not None:
            out["VersionId"] = self.obj["vid"]
        return out

    def get_object_attributes(self, Bucket, Key, ObjectAttributes):
        if self.attrs_fail:
            raise RuntimeError("not permitted")
        if self.obj is None:
            raise NoSuchKey()
        return {_CK_KEYS[a]: v for a, v in self.obj["cks"]}

    def get_object(self, Bucket, Key):
        if self.get_fault:
            cls, self.get_fault = self.get_fault, None
            raise make_exc(cls)
        if self.obj is None:
            raise NoSuchKey()
        out = {"Body": _Body(self.obj["content"].encode("utf-8"))}
        if self.obj["etag"] is not None:
            out["ETag"] = self.obj["etag"]
        return out


# ----------------------------------------------------------------------------- sources


class Scripted:
    """custom source: what `Rbacx.Reloader.customSource` models"""

    def __init__(self, tag_mode: str):
        self.tag_mode = tag_mode
        self.cur: dict | None = None
        self.etag_fault: str | None = None
        self.load_fault: str | None = None

    def _etag(self):
        if self.etag_fault:
            cls, self.etag_fault = self.etag_fault, None
            raise make_exc(cls)
        if self.tag_mode == "none":
            return None
        if self.tag_mode == "nonstr":
            return 12345
        return self.cur["sha"] if self.cur is not None else None

    def _load(self):
        if self.load_fault:
            cls, self.load_fault = self.load_fault, None
            raise make_exc(cls)
        if self.cur is None:
            raise FileNotFoundError("scripted: missing")
        doc = json.loads(self.cur["content"])
        if self.tag_mode == "none" and isinstance(doc, dict):
            # a document that is not JSON-serialisable (a YAML date scalar arrives like this): the engine cannot hash it, every such
            # document has "no content tag" — they must still replace one another
            import datetime as _dt
            doc["issued"] = _dt.date(2024, 1, 1)
        return doc

    def etag(self):
        return self._etag()

    def load(self):
        return self._load()


class _Gate:
    """awaitable on which a hand-driven coroutine is parked until the harness resumes it"""

    def __await__(self):
        yield self


class _Yield:
    """a bare suspension point (what `asyncio.sleep(0)` does); works under any driver"""

    def __await__(self):
        yield


class SyncProxy:
    """what the reloader is given: counts calls, records loaded documents, lets the harness hold a
    call (overlapping checks) and change the source right after the first source call of a check.
    `etag`/`load` are plain functions (the constructor primes with `etag()`); when two checks are
    interleaved as coroutines (`env.coop`) they return an awaitable parked on a gate instead."""

    def __init__(self, env: "Env", inner):
        self.env, self.inner = env, inner

    def _etag(self):
        try:
            return self.inner.etag()
        finally:
            self.env.first_call_done()

    def _load(self):
        try:
            d = self.inner.load()
            self.env.loaded_now.append(marker(d))
            return d
        finally:
            self.env.first_call_done()

    async def _parked(self, fn):
        await _Gate()
        return fn()

    def etag(self):
        self.env.etag_calls += 1
        self.env.in_source_call()
        if self.env.coop:
            return self._parked(self._etag)
        self.env.gate()
        return self._etag()

    def load(self):
        self.env.load_calls += 1
        self.env.in_source_call()
        if self.env.coop:
            return self._parked(self._load)
        self.env.gate()
        return self._load()


class AsyncProxy(SyncProxy):
    async def etag(self):
        self.env.etag_calls += 1
        self.env.in_source_call()
        if self.env.coop:
            await _Gate()
        else:
            self.env.gate()
        await _Yield()
        return self._etag()

    async def load(self):
        self.env.load_calls += 1
        self.env.in_source_call()
        if self.env.coop:
            await _Gate()
        else:
            self.env.gate()
        await _Yield()
        return self._load()


_env_counter = itertools.count()


class Env:
    """one history's world"""

    def __init__(self, kindname: str, tmpdir: str):
        self.kindname = kindname
        self.kind = KINDS[kindname]
        self.etag_calls = 0
        self.load_calls = 0
        self.loaded_now: list[str] = []
        self.pending_mid: list | None = None
        self.gates: dict[int, Any] = {}
        self.coop = False
        self.lock_violations: list[str] = []
        self.reloader = None
        self.clock_us = NOW0
        self.u = 0.0
        self.u_by_thread: dict[int, float] = {}
        self.id = next(_env_counter)
        t = self.kind["type"]
        self.path = None
        self.version = 0
        self.server = None
        self.client = None
        if t == "custom":
            self.inner = Scripted(self.kind["tag_mode"])
        elif t == "file":
            self.path = os.path.join(tmpdir, f"policy_{self.id}.json")
            self.inner = FilePolicySource(self.path, include_mtime_in_etag=self.kind["mtime_in_tag"])
        elif t == "http":
            url = f"http://policy.invalid/{self.id}"
            self.url = url
            self.server = SERVERS[url] = FakeServer(self.kind["server_etags"])
            self.inner = HTTPPolicySource(url)
        elif t == "s3":
            self.client = FakeS3()
            self.inner = S3PolicySource("s3://bucket/policy.json", client=self.client, validate_schema=False,
                                        change_detector=self.kind["detector"], prefer_checksum=self.kind["prefer"])
        else:  # pragma: no cover
            raise lib.CheckError(f"unknown kind {t}")
        self.proxy = AsyncProxy(self, self.inner) if self.kind.get("async") else SyncProxy(self, self.inner)

    def close(self):
        if self.path and os.path.islink(self.path):
            tgt = os.path.realpath(self.path)
            os.unlink(self.path)
            if os.path.exists(tgt):
                os.unlink(tgt)
        if self.path and os.path.exists(self.path):
            os.unlink(self.path)
        if self.server is not None:
            SERVERS.pop(self.url, None)

    def gate(self):
        g = self.gates.get(threading.get_ident())
        if g is not None:
            g()

    def in_source_call(self):
        """a source call must not be made with the reloader lock held (blocks 2 and 3 are unlocked)"""
        rl = self.reloader
        if rl is not None and rl.__dict__.get("_armed") and rl._lock._is_owned():
            self.lock_violations.append("source call with the reloader lock held")

    def first_call_done(self):
        if self.pending_mid is not None:
            ops, self.pending_mid = self.pending_mid, None
            for op in ops:
                self.apply(op)

    def apply(self, op: dict) -> None:
        k, t = op["k"], self.kind["type"]
        if t == "custom":
            if k == "write":
                self.inner.cur = op
            elif k == "delete":
                self.inner.cur = None
            elif k == "fault_etag":
                self.inner.etag_fault = op["cls"]
            elif k == "fault_load":
                self.inner.load_fault = op["cls"]
        elif t == "file":
            if k == "write" and self.kind.get("link"):
                self.version += 1
                target = f"{self.path}.v{self.version}"
                with open(target, "wb") as f:
                    f.write(op["content"].encode("utf-8"))
                os.utime(target, ns=(op["mtime"], op["mtime"]))
                old = os.path.realpath(self.path) if os.path.islink(self.path) else None
                os.symlink(os.path.basename(target), self.path + ".new")
                os.replace(self.path + ".new", self.path)
                if old and old != target and os.path.exists(old):
                    os.unlink(old)
                st = os.stat(self.path)
                if st.st_mtime_ns != op["mtime"] or st.st_size != op["size"]:
                    raise lib.CheckError("file system does not keep exact mtimes/sizes")
            elif k == "write":
                with open(self.path, "wb") as f:
                    f.write(op["content"].encode("utf-8"))
                os.utime(self.path, ns=(op["mtime"], op["mtime"]))
                st = os.stat(self.path)
                if st.st_mtime_ns != op["mtime"] or st.st_size != op["size"]:
                    raise lib.CheckError("file system does not keep exact mtimes/sizes")
            elif k == "delete":
                if os.path.islink(self.path):
                    tgt = os.path.realpath(self.path)
                    os.unlink(self.path)
                    if os.path.exists(tgt):
                        os.unlink(tgt)
                elif os.path.exists(self.path):
                    os.unlink(self.path)
            elif k == "touch":
                if os.path.exists(self.path):
                    os.utime(self.path, ns=(op["mtime"], op["mtime"]))
        elif t == "http":
            if k == "write":
                self.server.blob = op
            elif k == "delete":
                self.server.blob = None
            elif k == "fault_load":
                self.server.fail_next = op.get("cls") or True
        elif t == "s3":
            if k == "write":
                self.client.obj = op
            elif k == "delete":
                self.client.obj = None
            elif k == "fault_load":
                self.client.get_fault = op["cls"]
            elif k == "head_fails":
                self.client.head_fails = bool(op["v"])
            elif k == "attrs_fail":
                self.client.attrs_fail = bool(op["v"])


GUARDED = ("_last_etag", "_suppress_until", "_backoff", "_last_error")


class WatchedReloader(HotReloader):
    """the real HotReloader; every write to the state the model treats as updated in a locked block is
    checked to happen with the reloader's lock held (the atomic-block assumption of `stepThread`)"""

    def __setattr__(self, name, value):
        if name in GUARDED and self.__dict__.get("_armed"):
            lock = self.__dict__.get("_lock")
            if lock is not None and not lock._is_owned():
                self.__dict__["_env"].lock_violations.append("unlocked write to " + name)
        object.__setattr__(self, name, value)


class WatchedGuard(Guard):
    reloader = None

    def set_policy(self, policy):
        rl = self.reloader
        if rl is not None and rl.__dict__.get("_armed") and not rl._lock._is_owned():
            rl.__dict__["_env"].lock_violations.append("set_policy outside the reloader lock")
        super().set_policy(policy)


class CountingCache(DefaultInMemoryCache):
    def __init__(self):
        super().__init__()
        self.clears = 0

    def clear(self):
        self.clears += 1
        super().clear()


# ----------------------------------------------------------------------------- abstract events → concrete ops


class Concretizer:
    """turns abstract source events into concrete contents with their oracle facts (hashes computed
    with hashlib here, never by rbacx)"""

    def __init__(self, kindname: str):
        self.type = KINDS[kindname]["type"]
        self.serial = 0
        self.mtick = 0
        self.cur: dict | None = None

    def _content(self, doc: str, valid: bool, pad: int) -> str:
        if valid:
            # one rule whose id is the document's marker: what the engine ENFORCES can be probed (see `snap`)
            return json.dumps({"marker": doc, "rules": [{"id": doc, "effect": "permit", "actions": ["read"], "resource": {"type": "doc"}}],
                               "pad": "x" * pad})
        return '{"marker": "%s", "rules": [' % doc + "x" * pad

    def src(self, e: dict) -> dict:
        k = e["e"]
        if k == "write":
            self.serial += 1
            n = self.serial
            doc = f"d{n:04d}"
            valid = bool(e.get("valid", True))
            same = bool(e.get("same_sig")) and self.type == "file" and self.cur is not None and self.cur["valid"] and valid
            pad = self.cur["pad"] if same else n % 3
            content = self._content(doc, valid, pad)
            data = content.encode("utf-8")
            if same:
                mtime = self.cur["mtime"]
            else:
                self.mtick += 1
                mtime = MT0 + self.mtick * 1_000_000
            etag = None if n % 7 == 6 else (f"e{n:04d}" if n % 5 == 4 else f'"e{n:04d}"')
            vid = None if n % 4 == 3 else f"v{n}"
            cks = [[["crc32c", f"c{n}"], ["sha1", f"s{n}"]], [["crc32", f"r{n}"], ["sha256", f"h{n}"], ["crc32c", f"c{n}"]], []][n % 3]
            op = {"k": "write", "serial": n, "doc": doc, "valid": valid, "sha": hashlib.sha256(data).hexdigest(),
                  "size": len(data), "mtime": mtime, "etag": etag, "vid": vid, "cks": cks, "content": content, "pad": pad}
            self.cur = op
            return op
        if k == "delete":
            self.cur = None
            return {"k": "delete"}
        if k == "touch":
            self.mtick += 1
            mtime = MT0 + self.mtick * 1_000_000
            if self.cur is not None:
                self.cur = dict(self.cur, mtime=mtime)
            return {"k": "touch", "mtime": mtime}
        if k == "fault":
            return {"k": "fault_etag" if e["on"] == "etag" else "fault_load", "cls": e["cls"]}
        if k == "flag":
            return {"k": e["name"], "v": bool(e["v"])}
        raise lib.CheckError(f"unknown source event {e}")

    def op(self, e: dict) -> dict:
        k = e["e"]
        if k == "advance":
            return {"op": "advance", "dt": int(e["dt"])}
        if k == "check":
            return {"op": "check", "force": bool(e.get("force")), "mode": e.get("mode", "sync"), "u": list(e.get("u", [0, 1])),
                    "mid": [self.src(m) for m in e.get("mid", [])], "settle": bool(e.get("settle"))}
        if k == "conc":
            sched = []
            for it in e["sched"]:
                sched.append({"t": it} if isinstance(it, int) else {"src": [self.src(m) for m in it["src"]]})
            return {"op": "conc", "mode": e.get("mode", "threads"), "checks": [{"force": bool(c.get("force")), "u": list(c.get("u", [0, 1]))} for c in e["checks"]],
                    "sched": sched}
        return {"op": "src", "ops": [self.src(e)]}


def strip_content(op: Any) -> Any:
    """drop the bulky fields the driver does not read"""
    if isinstance(op, dict):
        return {k: strip_content(v) for k, v in op.items() if k not in ("content", "pad")}
    if isinstance(op, list):
        return [strip_content(x) for x in op]
    return op


# ----------------------------------------------------------------------------- running a case on the real code


def drive(coro):
    """run a coroutine to completion by hand (no event loop): every suspension is resumed at once"""
    while True:
        try:
            coro.send(None)
        except StopIteration as stop:
            return stop.value


def call_check(rl: HotReloader, force: bool, mode: str):
    try:
        if mode == "async":
            r = asyncio.run(rl.check_and_reload_async(force=force))
        elif mode == "drive":
            r = drive(rl.check_and_reload_async(force=force))
        else:
            r = rl.check_and_reload(force=force)
    except Exception as e:  # noqa: BLE001
        return "raised:" + type(e).__name__
    return r if isinstance(r, bool) else "nonbool:" + repr(r)[:30]


def run_tasks(env: Env, rl: HotReloader, op: dict) -> list:
    """two (or n) overlapping `check_and_reload_async` coroutines on one thread, resumed in the order
    of the schedule; a coroutine is parked inside the source call it is making"""
    checks = op["checks"]
    n = len(checks)
    coros: list = [None] * n
    state = ["new"] * n
    results: list = [None] * n

    def advance(i: int) -> None:
        if state[i] == "done":
            return
        if state[i] == "new":
            coros[i] = rl.check_and_reload_async(force=checks[i]["force"])
        env.u = checks[i]["u"][0] / checks[i]["u"][1]
        while True:
            try:
                y = coros[i].send(None)
            except StopIteration as stop:
                r = stop.value
                results[i] = r if isinstance(r, bool) else "nonbool:" + repr(r)[:30]
                state[i] = "done"
                return
            except Exception as e:  # noqa: BLE001
                results[i] = "raised:" + type(e).__name__
                state[i] = "done"
                return
            if isinstance(y, _Gate):
                state[i] = "blocked"
                return

    env.coop = True
    try:
        for it in op["sched"]:
            if "src" in it:
                for o in it["src"]:
                    env.apply(o)
            else:
                advance(it["t"])
        for i in range(n):
            guard = 0
            while state[i] != "done" and guard < 8:
                advance(i)
                guard += 1
    finally:
        env.coop = False
    return results


def run_conc(env: Env, rl: HotReloader, op: dict) -> list:
    checks = op["checks"]
    n = len(checks)
    note: queue.Queue = queue.Queue()
    sems = [threading.Semaphore(0) for _ in range(n)]
    results: list = [None] * n
    state = ["new"] * n
    threads: list = [None] * n

    def worker(i: int) -> None:
        ident = threading.get_ident()

        def gate():
            note.put((i, "blocked"))
            sems[i].acquire()

        env.gates[ident] = gate
        env.u_by_thread[ident] = checks[i]["u"][0] / checks[i]["u"][1]
        try:
            results[i] = call_check(rl, checks[i]["force"], "sync")
        except BaseException as e:  # noqa: BLE001
            results[i] = "raised:" + type(e).__name__
        finally:
            env.gates.pop(ident, None)
            env.u_by_thread.pop(ident, None)
            note.put((i, "done"))

    def wait_for(i: int) -> None:
        while True:
            try:
                j, what = note.get(timeout=6)
            except queue.Empty:
                for sem in sems:            # let the parked checks go so that the threads end
                    sem.release()
                raise OverlapStuck("overlapping checks: a check neither reached its next source call nor finished "
                                   "(blocked on the reloader lock while another check is inside a source call?)")
            state[j] = what
            if j == i:
                return

    def advance(i: int) -> None:
        if state[i] == "new":
            threads[i] = threading.Thread(target=worker, args=(i,), daemon=True)
            threads[i].start()
            wait_for(i)
        elif state[i] == "blocked":
            sems[i].release()
            wait_for(i)

    for it in op["sched"]:
        if "src" in it:
            for o in it["src"]:
                env.apply(o)
        else:
            advance(it["t"])
    for i in range(n):   # an incomplete schedule: let everybody finish, in index order (the model does not; it reports it)
        guard = 0
        while state[i] != "done" and guard < 8:
            advance(i)
            guard += 1
    for t in threads:
        if t is not None:
            t.join(30)
    return results


_GUARD: list = []


def _guard() -> Guard:
    """one real Guard for the whole run (its constructor allocates an event loop); every history resets
    its policy and gives it a fresh cache"""
    if not _GUARD:
        _GUARD.append(WatchedGuard(dict(POLICY0), cache=CountingCache()))
    return _GUARD[0]


def to_us(x: float) -> int:
    return int(round(x * 1e6))


def execute(case: dict, tmpdir: str) -> tuple[list[dict], list[dict], list[dict]]:
    """run the case on the real code; returns (concrete init ops, concrete history ops, impl records)"""
    env = Env(case["kind"], tmpdir)
    _Current.env = env
    try:
        cz = Concretizer(case["kind"])
        init_ops = [cz.src(e) for e in case.get("init", [])]
        ops = [cz.op(e) for e in case["history"]]
        for o in init_ops:
            env.apply(o)
        if env.kind.get("link"):
            # the source object is created when the link (if the initial operations made one) is already in place, as a deployment does
            env.inner = FilePolicySource(env.path, include_mtime_in_etag=env.kind["mtime_in_tag"])
            env.proxy = SyncProxy(env, env.inner)
        cfg = CFGS[case["cfg"]]
        cache = CountingCache()
        guard = _guard()
        guard.cache = cache
        guard.set_policy(dict(POLICY0))
        cache.clears = 0
        guard.reloader = None
        rl = WatchedReloader(guard, env.proxy, initial_load=bool(case["initial_load"]), poll_interval=None,
                             backoff_min=cfg["backoff_min"] / 1e6, backoff_max=cfg["backoff_max"] / 1e6,
                             jitter_ratio=cfg["ratio"][0] / cfg["ratio"][1])
        rl.__dict__["_env"] = env
        rl.__dict__["_armed"] = True
        env.reloader = rl
        guard.reloader = rl

        def enforced() -> str:
            """the id of the rule that decides a probe request = the marker of the document the engine decides by"""
            try:
                d = guard.evaluate_sync(real.Subject("probe"), real.Action("read"), real.Resource("doc", "1"), None)
                return "init" if d.rule_id is None else str(d.rule_id)
            except Exception as e:  # noqa: BLE001
                return "raised:" + type(e).__name__

        def snap(results: list) -> dict:
            # probe after every check that applied something (nothing else replaces the engine's policy)
            probe = any(r is True for r in results)
            return {"results": results, "policy": marker(guard.policy), "enforced": enforced() if probe else None, "last_etag": rl.last_etag,
                    "suppressed_until": to_us(rl.suppressed_until), "error_set": rl.last_error is not None,
                    "etag_calls": env.etag_calls, "loads": env.load_calls, "cache_epoch": cache.clears,
                    "loaded": list(env.loaded_now)}

        recs = [snap([])]
        for op in ops:
            env.loaded_now = []
            cache.set("sentinel", 1)
            clears0 = cache.clears
            k = op["op"]
            results: list = []
            if k == "src":
                for o in op["ops"]:
                    env.apply(o)
            elif k == "advance":
                env.clock_us += op["dt"]
            elif k == "check":
                env.u = op["u"][0] / op["u"][1]
                env.pending_mid = list(op["mid"])
                results = [call_check(rl, op["force"], op.get("mode", "sync"))]
                env.first_call_done()   # no source call was made: the change happens after the check
            elif k == "conc":
                env.pending_mid = None
                results = run_tasks(env, rl, op) if op.get("mode") == "tasks" else run_conc(env, rl, op)
            r = snap(results)
            # the cache really is emptied exactly when clear() was called
            gone = cache.get("sentinel") is None
            if gone != (cache.clears != clears0):
                r["cache_epoch"] = -1
            recs.append(r)
        recs[-1]["lock_violations"] = sorted(set(env.lock_violations))
        return init_ops, ops, recs
    finally:
        env.close()


def driver_cmd(case: dict, init_ops: list, ops: list, impl: list | None) -> dict:
    cmd = {"cmd": "reload-ops", "cfg": CFGS[case["cfg"]], "kind": KINDS[case["kind"]],
           "initial_load": bool(case["initial_load"]), "init_src": strip_content(init_ops), "policy0": "init",
           "now0": NOW0, "history": strip_content(ops)}
    if impl is not None:
        cmd["impl"] = impl
    return cmd


def proj(rec: dict) -> list:
    return [rec[f] for f in FIELDS]


def first_diff(impl: list[dict], model: list[dict], fields: list[str] = FIELDS) -> dict | None:
    if len(impl) != len(model):
        return {"at": -1, "why": f"trace lengths {len(impl)} / {len(model)}"}
    for i, (a, b) in enumerate(zip(impl, model)):
        if [a[f] for f in fields] != [b[f] for f in fields]:
            return {"at": i - 1, "impl": {f: a[f] for f in FIELDS}, "model": {f: b[f] for f in FIELDS},
                    "fields": [f for f in fields if a[f] != b[f]]}
    return None


FIELDS_NO_TIMING = [f for f in FIELDS if f != "suppressed_until"]


def spec_fails(spec: dict) -> list[str]:
    bad = [k for k in ("inert", "installed", "no_raise", "backoff", "forced", "latest") if spec.get(k)]
    c = spec.get("converge") or {}
    if c.get("applicable") and not c.get("ok"):
        bad.append("converge")
    return bad


# ----------------------------------------------------------------------------- case generation


def ev_check(force=False, mode="sync", mid=None, settle=False) -> dict:
    e = {"e": "check", "force": force, "mode": mode, "mid": list(mid or [])}
    if settle:
        e["settle"] = True
    return e


W = {"e": "write", "valid": True}
INV = {"e": "write", "valid": False}
DEL = {"e": "delete"}
SETTLE = [{"e": "advance", "dt": SETTLE_DT}, ev_check(mode="drive", settle=True), ev_check(mode="drive", settle=True),
          ev_check(mode="drive", settle=True)]


def kind_fault(kindname: str) -> dict:
    t = KINDS[kindname]["type"]
    if t == "custom":
        return {"e": "fault", "on": "etag", "cls": "RuntimeError"}
    if t == "file":
        return {"e": "touch"}
    if t == "http":
        return {"e": "fault", "on": "load", "cls": "HTTPError"}
    return {"e": "flag", "name": "head_fails", "v": True}


def kind_fault2(kindname: str) -> dict | None:
    """a one-shot failure of load() that leaves the tag as it is (custom, S3) / a content change that keeps
    the (size, mtime) signature (file)"""
    t = KINDS[kindname]["type"]
    if t == "custom":
        return {"e": "fault", "on": "load", "cls": "ValueError"}
    if t == "s3":
        return {"e": "fault", "on": "load", "cls": "RuntimeError"}
    if t == "file":
        return dict(W, same_sig=True)
    if t == "http":
        return {"e": "fault", "on": "load", "cls": "ConnectionError"}     # transport-level: requests.get itself raises
    return None


def orders(n_a: int = 3, n_b: int = 3) -> list[list[int]]:
    """all interleavings of thread 0's and thread 1's steps (start / etag returns / load returns)"""
    out = []
    for pos in itertools.combinations(range(n_a + n_b), n_a):
        out.append([0 if i in pos else 1 for i in range(n_a + n_b)])
    return out


ORDERS = orders()


def conc_event(order_idx: int, forces=(False, False), src_at: int | None = None, src=None, mode: str = "threads") -> dict:
    sched: list = list(ORDERS[order_idx % len(ORDERS)])
    if src_at is not None:
        sched.insert(src_at, {"src": [src or W]})
    return {"e": "conc", "mode": mode, "checks": [{"force": bool(forces[0])}, {"force": bool(forces[1])}], "sched": sched}


def alphabet(kindname: str) -> list[dict]:
    """the alphabet of the exhaustive enumeration: 10 events, plus an 11th for custom / S3 / file kinds
    ("X" = two overlapping checks, its schedule is picked by position, see `with_params`)"""
    a = [W, INV, DEL, ev_check(), ev_check(force=True), ev_check(mid=[W]),
         {"e": "advance", "dt": 250_000}, {"e": "advance", "dt": 8_000_000}, kind_fault(kindname), {"e": "X"}]
    extra = kind_fault2(kindname)
    return a + [extra] if extra is not None else a


def with_params(hist: list[dict], salt: int) -> list[dict]:
    """give checks their PRNG draw and expand X, deterministically from the position"""
    out = []
    c = salt
    for e in hist:
        if e["e"] == "check":
            c += 1
            out.append(dict(e, u=US[c % len(US)]))
        elif e["e"] == "X":
            c += 1
            k = c * 7 + salt
            ev = conc_event(k, forces=((k // 20) % 2 == 1, (k // 40) % 3 == 2), src_at=(k % 9 if k % 9 < 7 else None),
                            mode="threads" if c % 8 == 0 else "tasks")
            for j, ch in enumerate(ev["checks"]):
                ch["u"] = US[(c + j) % len(US)]
            out.append(ev)
        elif e["e"] == "conc":
            c += 1
            ev = json.loads(json.dumps(e))
            for j, ch in enumerate(ev["checks"]):
                ch.setdefault("u", US[(c + j) % len(US)])
            out.append(ev)
        else:
            out.append(e)
    return out


def mk_case(kind: str, hist: list[dict], initial_load: bool, cfg: int, salt: int, init=None, label: str = "") -> dict:
    return {"kind": kind, "cfg": cfg % len(CFGS), "initial_load": initial_load, "init": [W] if init is None else init,
            "history": with_params(hist + SETTLE, salt), "label": label}


def enum_cases(kind: str, full_len: int, sample: dict[int, int], seed: int):
    """every history over the alphabet up to `full_len`, longer lengths with a deterministic stride"""
    alpha = alphabet(kind)
    idx = 0
    for n in range(0, max([full_len] + list(sample)) + 1):
        stride = 1 if n <= full_len else sample.get(n)
        if stride is None:
            continue
        for seq in itertools.product(range(len(alpha)), repeat=n):
            idx += 1
            if stride > 1 and (idx + seed) % stride:
                continue
            for il in (False, True):
                yield mk_case(kind, [alpha[i] for i in seq], il, idx + (1 if il else 0), idx,
                              label=f"enum:{kind}:{''.join(map(str, seq))}:il={int(il)}")


def conc_cases(kind: str, stride: int, seed: int, mode: str = "threads"):
    """two overlapping checks: every order of their source calls × forced flags × a source change at
    every position, in three contexts (fresh / after a failure inside the back-off window / after a load)"""
    contexts = [[], [INV, ev_check()], [ev_check(), W]]
    idx = 0
    for ci, ctx in enumerate(contexts):
        for oi in range(len(ORDERS)):
            for forces in ((False, False), (True, False), (False, True), (True, True)):
                for src_at in [None, 0, 1, 2, 3, 4, 5, 6]:
                    for src in ((W,) if src_at is None else (W, INV, DEL)):
                        idx += 1
                        if stride > 1 and (idx + seed) % stride:
                            continue
                        ev = conc_event(oi, forces, src_at, src, mode)
                        yield mk_case(kind, ctx + [ev], idx % 2 == 0, idx, idx, label=f"conc-{mode}:{kind}:{ci}:{oi}:{forces}:{src_at}")


def random_cases(r: random.Random, n: int, maxlen: int):
    kinds = list(KINDS)
    classes = ["RuntimeError", "ValueError", "JSONDecodeError", "FileNotFoundError", "KeyError", "OSError"]
    for i in range(n):
        kind = kinds[i % len(kinds)] if r.random() < 0.7 else r.choice(kinds)
        t = KINDS[kind]["type"]
        hist: list[dict] = []
        for _ in range(r.randint(1, maxlen)):
            x = r.random()
            if x < 0.14:
                hist.append(dict(W, same_sig=True) if t == "file" and r.random() < 0.15 else W)
            elif x < 0.20:
                hist.append(INV)
            elif x < 0.25:
                hist.append(DEL)
            elif x < 0.33:
                if t == "custom":
                    hist.append({"e": "fault", "on": r.choice(["etag", "load"]), "cls": r.choice(classes)})
                elif t == "file":
                    hist.append({"e": "touch"})
                elif t == "http":
                    hist.append({"e": "fault", "on": "load", "cls": r.choice(["HTTPError", "HTTPError", "ConnectionError", "Timeout"])})
                else:
                    y = r.random()
                    if y < 0.4:
                        hist.append({"e": "flag", "name": "head_fails", "v": r.random() < 0.5})
                    elif y < 0.7:
                        hist.append({"e": "flag", "name": "attrs_fail", "v": r.random() < 0.5})
                    else:
                        hist.append({"e": "fault", "on": "load", "cls": r.choice(classes)})
            elif x < 0.48:
                hist.append({"e": "advance", "dt": r.choice([125_000, 250_000, 500_000, 1_000_000, 2_000_000, 8_000_000])})
            elif x < 0.56:
                hist.append(conc_event(r.randrange(len(ORDERS)), (r.random() < 0.3, r.random() < 0.3),
                                       r.choice([None, None, 0, 1, 2, 3, 4, 5, 6]), r.choice([W, W, INV, DEL]),
                                       "threads" if r.random() < 0.3 else "tasks"))
            else:
                mid = []
                if r.random() < 0.25:
                    mid = [r.choice([W, W, INV, DEL])]
                    if r.random() < 0.2:
                        mid.append(W)
                hist.append(ev_check(force=r.random() < 0.25, mode="async" if r.random() < 0.3 else "sync", mid=mid))
        init = r.choice([[W], [W], [W], [], [INV], [W, W]])
        yield mk_case(kind, hist, r.random() < 0.5, r.randrange(len(CFGS)), r.randrange(1000), init=init, label=f"random#{i}")


def corpus_cases() -> list[tuple[str, dict]]:
    d = os.path.join(lib.VERIF, "corpus")
    out = []
    if os.path.isdir(d):
        for fn in sorted(os.listdir(d)):
            if fn.startswith("C10_") and fn.endswith(".json"):
                out.append((os.path.join("corpus", fn), json.load(open(os.path.join(d, fn)))))
    return out


def all_cases(run: lib.Run, scale: int = 1):
    quick = run.tier == "quick"
    s = run.seed
    others = [k for k in KINDS if k != "custom"]
    if quick:
        yield from enum_cases("custom", 3, {4: 8 if scale == 1 else 1}, s)
        for kind in others:
            yield from enum_cases(kind, 2, {3: 7, 4: 100} if scale == 1 else {3: 1, 4: 12}, s)
        yield from conc_cases("custom", 1, s, "tasks")
        yield from conc_cases("custom", 4 if scale == 1 else 1, s, "threads")
        for kind in others:
            yield from conc_cases(kind, 10 if scale == 1 else 2, s, "tasks")
        for kind in ("custom_async", "file", "http_etag", "s3_vid"):
            yield from conc_cases(kind, 30 if scale == 1 else 6, s, "threads")
    else:
        yield from enum_cases("custom", 4, {5: 12 if scale == 1 else 3}, s)
        for kind in others:
            yield from enum_cases(kind, 3, {4: 8, 5: 110} if scale == 1 else {4: 2, 5: 30}, s)
        for kind in KINDS:
            yield from conc_cases(kind, 1, s, "tasks")
            yield from conc_cases(kind, 1 if kind in ("custom", "file", "http_etag") else 6, s, "threads")
    r = random.Random(run.seed * 7919 + 10)
    yield from random_cases(r, (350 if quick else 4000) * scale, 40)


# ----------------------------------------------------------------------------- evaluation


class Tally:
    def __init__(self):
        self.http_cached_ok = 0
        self.http_remote_ok = 0
        self.http_cases = 0
        self.http_distinguishing = 0
        self.f9_hits: list[dict] = []
        self.kinds: dict[str, int] = {}
        self.checks = 0
        self.timing_only: list[dict] = []


def evaluate_batch(run: lib.Run, batch: list[tuple[dict, list, list, list]], tally: Tally, record: bool = True) -> list[dict]:
    """send a batch to the driver; returns one verdict dict per case"""
    cmds = [driver_cmd(case, init_ops, ops, impl) for case, init_ops, ops, impl in batch]
    answers = proto.run_driver(cmds)
    # cases whose trace differs from the model's exact back-off arithmetic are run again with the model as a
    # monitor that adopts the implementation's own windows (each bounded by the spec predicate `backoff`)
    redo = []
    for k, ((case, init_ops, ops, impl), ans) in enumerate(zip(batch, answers)):
        is_http = KINDS[case["kind"]]["type"] == "http"
        if first_diff(impl, ans["model"]) is not None and (not is_http or first_diff(impl, ans["model_remote"]) is not None):
            redo.append(k)
    adopted = {}
    if redo:
        cmds2 = []
        for k in redo:
            case, init_ops, ops, impl = batch[k]
            c = driver_cmd(case, init_ops, ops, impl)
            c["adopt"] = [r["suppressed_until"] for r in impl]
            cmds2.append(c)
        adopted = dict(zip(redo, proto.run_driver(cmds2)))
    verdicts = []
    for k, ((case, init_ops, ops, impl), ans) in enumerate(zip(batch, answers)):
        is_http = KINDS[case["kind"]]["type"] == "http"
        d_cached = first_diff(impl, ans["model"])
        d_remote = first_diff(impl, ans["model_remote"]) if is_http else None
        spec = ans["spec"]
        bad = spec_fails(spec)
        # the engine must DECIDE by the document it holds (a reload that swaps `Guard.policy` but keeps deciding by an older document
        # applies nothing): the deciding rule of a probe request carries the marker of the document in force
        for rec in impl:
            held = rec.get("policy", "")
            if (held == "init" or (held.startswith("d") and held[1:].isdigit())) and rec.get("enforced") not in (None, held):
                spec = dict(spec, enforced=[{"engine_holds": held, "engine_decides_by": rec.get("enforced")}])
                bad = bad + ["enforced"]
                break
        timing_only = False
        if k in adopted and not bad:
            a2 = adopted[k]
            ok_c = first_diff(impl, a2["model"], FIELDS_NO_TIMING) is None and a2["same_failures"]
            ok_r = is_http and first_diff(impl, a2["model_remote"], FIELDS_NO_TIMING) is None and a2["same_failures_remote"]
            if ok_c or ok_r:
                timing_only = True
                tally.timing_only.append({"case": case, "first_difference": d_cached})
                d_cached = None if ok_c else d_cached
                d_remote = None if ok_r else d_remote
        variant = None
        if is_http:
            variant = "cached" if d_cached is None else ("remote" if d_remote is None else None)
            disagree = d_cached is not None and d_remote is not None
        else:
            disagree = d_cached is not None
        lockv = impl[-1].get("lock_violations") or []
        if lockv:
            disagree = True   # the model's atomic blocks are not the code's: correspondence broken, whatever the traces say
        # F9 signature: HTTP source, server sends ETags, the only failing clause is convergence (the engine does
        # not enforce the server's document), and the trace is exactly what the cached-tag variant predicts
        cm, cr = ans.get("converge_model") or {}, ans.get("converge_model_remote") or {}
        # (the remote-tag variant either converges on this history or its own trace ends with the source not loadable — a one-shot
        # fault it has not consumed because it contacts the server at other moments — in which case the clause says nothing about it;
        # what excludes F9 is the remote-tag variant ALSO failing to converge)
        f9 = (case["kind"] == "http_etag" and bad == ["converge"] and d_cached is None
              and cm.get("applicable") and not cm.get("ok") and (cr.get("ok") or not cr.get("applicable")))
        v = {"case": case, "ops": strip_content(ops), "impl": impl, "diff": d_cached if not is_http else (d_cached, d_remote),
             "converge_of_the_cached_tag_model": cm, "converge_of_the_remote_tag_model": cr,
             "disagree": disagree, "lock_violations": lockv, "spec": spec, "bad": bad, "f9": bool(f9), "variant": variant,
             "model": ans["model"], "model_remote": ans["model_remote"]}
        verdicts.append(v)
        if not record:
            continue
        # bookkeeping
        tally.kinds[case["kind"]] = tally.kinds.get(case["kind"], 0) + 1
        if is_http:
            tally.http_cases += 1
            tally.http_cached_ok += d_cached is None
            tally.http_remote_ok += d_remote is None
            tally.http_distinguishing += (d_cached is None) != (d_remote is None)
        n_checks = 0
        for op, rec in zip(ops, impl[1:]):
            if op["op"] in ("check", "conc"):
                for res in rec["results"]:
                    n_checks += 1
                    run.count("check:" + ("true" if res is True else "false" if res is False else str(res)))
                if op["op"] == "conc":
                    run.count("overlapping-pair")
        run.count("failed-checks(error registered)", sum(1 for a, b in zip(impl, impl[1:]) if b["suppressed_until"] != a["suppressed_until"]))
        conv = spec.get("converge") or {}
        run.count("converge:" + ("n/a" if not conv.get("applicable") else "ok" if conv.get("ok") else "FAILED"))
        loads = impl[-1]["loads"]
        fails = any(b["suppressed_until"] != a["suppressed_until"] for a, b in zip(impl, impl[1:]))
        policies = {r["policy"] for r in impl}
        nontrivial = len(policies) >= 2 and (fails or any(op["op"] == "conc" or (op["op"] == "check" and op["mid"]) for op in ops))
        run.case([case["kind"], case["cfg"], case["initial_load"], case["init"], case["history"]], nontrivial,
                 {"kind": case["kind"], "initial_load": case["initial_load"], "cfg": CFGS[case["cfg"]], "history": case["history"],
                  "impl_trace": [{f: r[f] for f in FIELDS} for r in impl]} if (nontrivial and loads >= 2) else None)
        tally.checks += n_checks
        if f9:
            tally.f9_hits.append(v)
        elif bad:
            run.spec_failures.append(v)
        if disagree:
            run.disagreements.append(v)
    return verdicts


class OverlapStuck(lib.CheckError):
    """two overlapping checks could not be interleaved at their source calls: one of them waits for the reloader lock while the other
    sits inside etag()/load() — the lock is held across a source call, which the model's four atomic blocks exclude"""


def run_cases(run: lib.Run, tally: Tally, cases, tmpdir: str) -> None:
    batch = []
    stuck = 0
    for case in cases:
        if stuck and any(e.get("e") == "conc" for e in case["history"]):
            continue                 # the overlap scheduler cannot drive this code: skip further overlapping pairs (counted below)
        try:
            init_ops, ops, impl = execute(case, tmpdir)
        except OverlapStuck as e:
            stuck += 1
            run.count("overlap:not-interleavable")
            run.disagreements.append({"case": case, "bad": [], "disagree": True, "f9": False, "ops": [], "impl": [], "model": [], "spec": {},
                                      "diff": str(e), "lock_violations": ["reloader lock held across a source call"]})
            continue
        batch.append((case, init_ops, ops, impl))
        if len(batch) >= 4000:
            evaluate_batch(run, batch, tally)
            batch = []
    if batch:
        evaluate_batch(run, batch, tally)


def run_one(case: dict, tmpdir: str) -> dict:
    init_ops, ops, impl = execute(case, tmpdir)
    return evaluate_batch(lib.Run("C10", "quick", 0), [(case, init_ops, ops, impl)], Tally(), record=False)[0]


def shrink(v: dict, tmpdir: str) -> dict:
    """drop events (and mid-check changes) while the implementation still fails the same clauses"""
    case = v["case"]
    want = set(v["bad"])
    hist = case["history"]
    cut = next((i for i, e in enumerate(hist) if e.get("settle")), len(hist))
    if cut > 0 and hist[cut - 1].get("e") == "advance" and hist[cut - 1].get("dt") == SETTLE_DT:
        cut -= 1
    head, tail = hist[:cut], hist[cut:]

    def fails(h: list) -> bool:
        vv = run_one(dict(case, history=h + tail), tmpdir)
        return bool(want & set(vv["bad"])) and not vv["f9"]

    head = lib.shrink_list(head, fails, budget=80)
    return run_one(dict(case, history=head + tail), tmpdir)


def replay_payload(v: dict, what: str) -> dict:
    return {"what": what, "failing_clauses": v["bad"], "case": v["case"], "concrete_ops": v["ops"],
            "impl_trace": [{f: r[f] for f in FIELDS + ["loaded"]} for r in v["impl"]], "spec": v["spec"],
            "model_trace": v["model"], "first_difference": v["diff"],
            "atomic_block_assumption_broken": v.get("lock_violations") or []}


translated_vs_python = reloader_tr.translated_vs_python      # the comparison itself lives in harness/reloader_tr.py


F9_LINE = ("F9 HTTPPolicySource.etag() is the locally cached tag: server change after a load is never seen "
           "(witness corpus/C10_F9_http_etag.json)")


def library_writer(run: lib.Run, tmpdir: str) -> list[dict]:
    """the shipped file source fed by the library's OWN writer: documents are published with rbacx.store.file_store.atomic_write (what the
    histories above do with open/write/utime at chosen mtimes).  Rounds on ONE FilePolicySource + HotReloader + Guard: the file is given
    an mtime far in the past (so that "now" differs from it whatever the clock granularity — no sleeping), the reloader settles (≤2
    checks), then a NEW document is published through atomic_write — of the SAME byte length as the one it replaces in half of the
    rounds — and at most two unforced checks later the engine must decide by it (a probe decision, not the held document).
    Both tag modes, JSON and YAML, initial_load on and off.  The clock of the reloader never enters a back-off window (no failures)."""
    import itertools as it
    from rbacx.core.model import Action, Context, Resource, Subject
    from rbacx.store import file_store as fs
    failures: list[dict] = []

    def doc(i: int, effect: str, pad: int = 0) -> dict:
        return {"algorithm": "deny-overrides", "marker": f"lw{i:03d}" + "x" * pad,
                "rules": [{"id": f"r{i:03d}", "effect": effect, "actions": ["read"], "resource": {"type": "doc"}}]}

    def text_of(dump, i: int, effect: str, size: int) -> str:
        """the document of round i rendered to exactly `size` bytes (the marker is padded)"""
        base = len(dump(doc(i, effect)).encode())
        if size < base:
            raise lib.CheckError("library_writer: target size below the document's own size")
        t = dump(doc(i, effect, size - base))
        assert len(t.encode()) == size
        return t

    def probe(g) -> tuple:
        d = g.evaluate_sync(Subject(id="u"), Action("read"), Resource(type="doc", id="1"), Context())
        return (d.effect, d.rule_id)
    for ext, mt, initial in it.product((".json", ".yaml"), (False, True), (True, False)):
        path = os.path.join(tmpdir, f"libwriter{int(mt)}{int(initial)}{ext}")
        dump = (lambda d: json.dumps(d)) if ext == ".json" else (lambda d: json.dumps(d, indent=1))   # JSON text is YAML
        try:
            with open(path, "w", encoding="utf-8") as f:
                f.write(text_of(dump, 0, "deny", 400))
            os.utime(path, ns=(BASE_LW, BASE_LW))
            g = Guard(dict(POLICY0))
            src = fs.FilePolicySource(path, include_mtime_in_etag=mt)
            env = types.SimpleNamespace(clock_us=10_000_000, u=0.0, u_by_thread={})
            _Current.env = env
            rl = HotReloader(g, src, initial_load=initial, poll_interval=1.0)
            trace: list = []
            for i in range(1, 7):
                # settle: whatever is on disk now has been seen (or, with initial_load off, is the reloader's baseline)
                for _ in range(2):
                    env.clock_us += 1_000_000
                    rl.check_and_reload()
                os.utime(path, ns=(BASE_LW + i, BASE_LW + i))        # content unchanged; mtime in the past, distinct per round
                for _ in range(2):
                    env.clock_us += 1_000_000
                    rl.check_and_reload()
                same_len = i % 2 == 1
                effect = "permit" if i % 3 else "deny"
                old_size = os.path.getsize(path)
                text = text_of(dump, i, effect, old_size if same_len else old_size + 3 + i)
                fs.atomic_write(path, text)
                results = []
                for _ in range(2):
                    env.clock_us += 1_000_000
                    results.append(rl.check_and_reload())
                got = probe(g)
                want = (effect, f"r{i:03d}")
                trace.append({"round": i, "same_byte_length": len(text.encode()) == old_size, "checks": results, "decides": list(got), "expected": list(want)})
                run.evaluations += 1
                run.count("library-writer-rounds")
                run.nontrivial.add(f"lw{ext}{mt}{initial}{i}")
                if got != want:
                    failures.append({"part": "library writer", "ext": ext, "include_mtime_in_etag": mt, "initial_load": initial, "rounds": trace,
                                     "what": "a document published through rbacx.store.file_store.atomic_write (the file's previous mtime lies in the past) "
                                             "is not enforced after two unforced checks outside any back-off window: C10 convergence on the shipped file source"})
                    break
        finally:
            _Current.env = None
            if os.path.exists(path):
                os.unlink(path)
        if failures:
            break
    return failures


BASE_LW = 1_600_000_000 * 10 ** 9


def check(run: lib.Run, audit: dict) -> int:
    run.rule = ("exhaustive: every history of length ≤3 (quick) / ≤4 (thorough) over the event alphabet {write new valid doc, "
                "write invalid doc, delete, check, forced check, check with a change between etag() and load(), short advance, "
                "long advance, kind-specific fault (etag() raises / touch / HTTP error status / S3 HEAD failing), two overlapping checks, "
                "and for custom/S3/file/HTTP kinds an 11th event: one-shot load() failure / same-signature file write} "
                "× initial_load on/off for the scripted custom source, the next length with a deterministic stride; the other 11 source "
                "kinds (async custom, None/non-str tag, file ± mtime tag, file behind a symbolic link re-pointed on every write, HTTP ± server ETags (HTTP status and transport faults), S3 etag / version_id / checksum×2) "
                "exhaustive to length 2 (quick) / 3 (thorough) and strided above; every order of the source calls of two overlapping "
                "checks × forced flags × a source change at every position × 3 contexts; seeded random histories of length ≤40 over "
                "the extended alphabet (all exception classes, async checks, same-signature file writes, S3 flags). Every history ends "
                "with a settle suffix (long advance + 3 unforced checks) on which convergence is judged. evaluations = histories "
                "executed on the real HotReloader; non-trivial = the active policy changed at least once and the history contains a "
                "failed check, an overlapping pair or a mid-check source change")
    run.exhaustive = True
    run.assumptions = [
        "exceptions raised by sources derive from Exception (BaseException subclasses such as KeyboardInterrupt/CancelledError are outside the model)",
        "every written document is new (fresh content, fresh tag): a source that returns to an earlier content after a mid-check change (ABA) is outside the property's alphabet",
        "file source: content changes come with a size or mtime change (the property's proviso); same-signature writes are generated, compared with the model, and excluded from the convergence clause only",
        "real network and S3 behaviour are faked (stub `requests.get`, fake boto client); wall-clock jumps backwards are not generated",
        "overlap is controlled at the source calls (a check can be held inside etag()/load()); the two locked blocks are atomic by the RLock",
    ]
    if not audit["ok"]:
        raise lib.CheckError(f"Lean build/audit failed at {audit['stage']}: {audit.get('log') or audit.get('forbidden') or audit.get('bad_axioms')}")
    findings = {f["id"]: f for f in lib.load_findings() if f.get("property") == "C10"}
    violations: list[tuple[str, bool]] = []
    tally = Tally()
    # check_and_reload_async / _register_error as they are written NOW, translated into Lean, are proved equal to the model's check /
    # registerError (per-run obligation); the translation itself is run against the real methods
    tr = audit["facts"].get("translated_reloader")
    untranslatable = isinstance(tr, dict) and "extraction_failed" in tr
    ok_tr, detail_tr = lib.run_obligation("C10_translated")
    run.obligation(reloader_tr.OBLIGATION, ok_tr, "discharged" if ok_tr else (str(tr["extraction_failed"]) if untranslatable else detail_tr))
    tr_diffs: list[dict] = []
    if untranslatable or not isinstance(tr, dict):
        ok_py, detail_py = True, "skipped: the methods are not in the translatable subset (see C10_translated)"
    else:
        ok_py, detail_py = translated_vs_python(run, tr, tr_diffs)
    run.obligation(reloader_tr.DIFFERENTIAL, ok_py, detail_py)
    # HTTPPolicySource.load / etag / __init__ as they are written NOW, translated into Lean (plugin src_translation_http), are proved equal to
    # the model's httpLoad / httpEtag under the stated refinement (per-run obligation); the translation is run against the real methods
    htr = audit["facts"].get("translated_http")
    h_untranslatable = isinstance(htr, dict) and "extraction_failed" in htr
    ok_h, detail_h = lib.run_obligation("C10_http_translated")
    run.obligation(http_tr.OBLIGATION, ok_h, "discharged" if ok_h else (str(htr["extraction_failed"]) if h_untranslatable else detail_h))
    h_diffs: list[dict] = []
    if h_untranslatable or not isinstance(htr, dict):
        ok_hpy, detail_hpy = True, "skipped: the methods are not in the translatable subset (see C10_http_translated)"
    else:
        ok_hpy, detail_hpy = http_tr.translated_vs_python(run, htr, h_diffs)
    run.obligation(http_tr.DIFFERENTIAL, ok_hpy, detail_hpy)
    with tempfile.TemporaryDirectory(prefix="c10_") as tmpdir, _Patched():
        # 1. corpus: finding witnesses and past disagreements first
        f9_witness_reproduces = False
        for rel, case in corpus_cases():
            v = run_one(case, tmpdir)
            fid = case.get("finding")
            status = (findings.get(fid) or {}).get("status")
            run.count(f"corpus:{fid or 'case'}:{'reproduces' if (v['bad'] or v['disagree']) else 'clean'}")
            if fid == "F9":
                f9_witness_reproduces = v["f9"]
                if v["bad"] and not v["f9"]:
                    run.spec_failures.append(v)
                run.notes.append(f"F9 witness {rel}: " + ("reproduces (code refines the cached-tag variant)" if v["f9"] else
                                 "does not reproduce (code refines the remote-tag variant)" if not v["bad"] else "fails differently: " + ",".join(v["bad"])))
            elif status == "fixed":
                if v["bad"]:
                    print(f"[C10] fixed finding {fid} reproduces on the real code: clause(s) {','.join(v['bad'])} fail on its witness")
                    violations.append((rel, True))
                elif v["disagree"]:
                    run.disagreements.append(v)
            elif v["bad"]:
                run.spec_failures.append(v)
            elif v["disagree"]:
                run.disagreements.append(v)
        # 2. enumeration + random
        run_cases(run, tally, all_cases(run, scale=run.boost * (1 if (ok_tr and ok_h) else 2)), tmpdir)
        if (run.disagreements or not ok_tr or not ok_h) and not run.spec_failures and not violations:
            run_cases(run, tally, all_cases(run, scale=4 if run.boost == 1 else 2), tmpdir)   # correspondence broke: widen the search for a failing input
        # 2b. the shipped file source fed by the library's own writer (directed; real FilePolicySource / HotReloader / Guard)
        lw = library_writer(run, tmpdir)
        if lw and not run.spec_failures:
            path = run.write_replay("spec", lw[0])
            violations.append((path, True))
        # 3. verdicts
        if run.spec_failures:
            v = min(run.spec_failures, key=lambda x: (any(e["e"] == "conc" for e in x["case"]["history"]), len(x["case"]["history"])))
            v = shrink(v, tmpdir) if v["bad"] else v
            if not v["bad"]:
                v = run.spec_failures[0]
            path = run.write_replay("spec", replay_payload(v, "the implementation's own trace violates C10 clause(s) " + ",".join(v["bad"]) +
                                                           " (Rbacx/Spec/Reload.lean, evaluated by the Lean driver)") | {"more": len(run.spec_failures) - 1})
            violations.append((path, True))
        elif run.disagreements and not violations:
            v = min(run.disagreements, key=lambda x: (any(e["e"] == "conc" for e in x["case"]["history"]), len(x["case"]["history"])))
            path = run.write_replay("correspondence", replay_payload(v, "model (Rbacx.Reloader.wcheck/stepThread over worldSource) and implementation "
                                                                     "disagree on the observable trace; theorems Rbacx.C10.* no longer speak about this code")
                                    | {"count": len(run.disagreements)})
            violations.append((path, False))
        if not violations and not ok_tr:
            path = run.write_replay("obligation", {
                "what": "per-run obligation Rbacx/Run/C10_translated.lean no longer checks: the translated source of "
                        "HotReloader.check_and_reload_async / _register_error is not proved equal to the model's check / registerError, the "
                        "functions theorems Rbacx.C10.* are about; the widened search found no history on which the real reloader violates C10",
                "translation": tr if untranslatable else {k: v for k, v in (tr or {}).items() if k != "lean"}, "lean": detail_tr[-1500:],
                "translated_vs_python": detail_py, "first_disagreement": tr_diffs[:1]})
            violations.append((path, False))
        elif not violations and not ok_py:
            path = run.write_replay("correspondence", {
                "what": "translated source vs python: " + detail_py + "; the obligation C10_translated rests on a translation that CPython "
                        "contradicts (or that could not be evaluated)", "first": tr_diffs[:1]})
            violations.append((path, False))
        if not violations and not ok_h:
            path = run.write_replay("obligation_http", {
                "what": "per-run obligation Rbacx/Run/C10_http_translated.lean no longer checks: the translated source of HTTPPolicySource.load / "
                        "etag / __init__ is not proved to be the model's httpLoad / httpEtag (Model/Sources.lean), the functions theorems "
                        "Rbacx.C10.c10_converges_http_partial / c10_http_* and the HTTP rows of the differential run are about; the widened "
                        "search found no history on which the real reloader over the real HTTP source violates C10",
                "translation": htr if h_untranslatable else {k: v for k, v in (htr or {}).items() if k != "lean"}, "lean": detail_h[-1500:],
                "translated_vs_python": detail_hpy, "first_disagreement": h_diffs[:1],
                "statements_of_the_theorems_violated_on_the_real_code": run.extra.get("http_source_clauses_violated_on_the_real_code")})
            violations.append((path, False))
        elif not violations and not ok_hpy:
            path = run.write_replay("correspondence_http", {
                "what": "translated HTTP source vs python: " + detail_hpy + "; the obligation C10_http_translated rests on a translation that "
                        "CPython contradicts (or that could not be evaluated)", "first": h_diffs[:1]})
            violations.append((path, False))
    # 4. F9: which variant does the code refine?
    variant = ("cached" if tally.http_cases and tally.http_cached_ok == tally.http_cases else
               "remote" if tally.http_cases and tally.http_remote_ok == tally.http_cases else "neither")
    run.extra["http_variant_matched"] = {"variant": variant, "http_cases": tally.http_cases, "agree_cached": tally.http_cached_ok,
                                         "agree_remote": tally.http_remote_ok, "cases_where_variants_differ": tally.http_distinguishing,
                                         "convergence_failures_with_F9_signature": len(tally.f9_hits)}
    run.extra["cases_per_source_kind"] = dict(sorted(tally.kinds.items()))
    run.extra["checks_executed_on_real_reloader"] = tally.checks
    if tally.timing_only:
        run.extra["backoff_schedule_differs_from_model"] = {"cases": len(tally.timing_only), "first": tally.timing_only[0]}
        run.notes.append(f"{len(tally.timing_only)} histories: the implementation's suppression windows differ from the modelled formula "
                         "(min(backoff_max, max(backoff_min, 2·backoff)) + jitter, floor 0.2) but every observed window satisfies the bound "
                         "and everything else agrees with the model run on the implementation's own windows: the property holds on these "
                         "traces; theorems c10_backoff_bounded* speak about the modelled formula, not about this schedule")
    if f9_witness_reproduces or tally.f9_hits:
        if (findings.get("F9") or {}).get("status") == "known":
            run.known.append(F9_LINE)
        else:
            violations.append((os.path.join("corpus", "C10_F9_http_etag.json"), True))
    return run.finish(audit, violations)


def replay(run: lib.Run, audit: dict, path: str) -> int:
    if not os.path.exists(path) and os.path.exists(os.path.join(lib.VERIF, path)):
        path = os.path.join(lib.VERIF, path)
    rp = json.load(open(path))
    case = rp.get("case") or rp
    if rp.get("part") == "library writer":
        with tempfile.TemporaryDirectory(prefix="c10_") as tmpdir, _Patched():
            lw = library_writer(run, tmpdir)
        print("now:", json.dumps(lw[0], default=str)[:3000] if lw else "every document published through atomic_write is enforced within two checks")
        print("recorded:", json.dumps(rp, default=str)[:3000])
        return 1 if lw else 0
    if "history" not in case:
        # an undischarged obligation / a translated-vs-python disagreement: nothing to re-execute on the reloader histories; show the record
        tr = audit["facts"].get("translated_reloader")
        ok_tr, detail_tr = lib.run_obligation("C10_translated")
        print("recorded:", json.dumps({k: v for k, v in rp.items() if k != "translation"}, default=str)[:3000])
        print("obligation C10_translated now:", "discharged" if ok_tr else detail_tr[:1500])
        htr = audit["facts"].get("translated_http")
        ok_h, detail_h = lib.run_obligation("C10_http_translated")
        print("obligation C10_http_translated now:", "discharged" if ok_h else detail_h[:1500])
        if isinstance(htr, dict) and "extraction_failed" not in htr:
            hsink: list = []
            print("translated HTTP source vs python now:", http_tr.translated_vs_python(run, htr, hsink)[1], json.dumps(hsink[:1], default=str)[:1500])
        ok_tr = ok_tr and ok_h
        if isinstance(tr, dict) and "extraction_failed" not in tr:
            sink: list = []
            print("translated vs python now:", translated_vs_python(run, tr, sink)[1], json.dumps(sink[:1], default=str)[:1500])
        return 0 if ok_tr else 1
    with tempfile.TemporaryDirectory(prefix="c10_") as tmpdir, _Patched():
        v = run_one(case, tmpdir)
    print(f"kind={case['kind']} initial_load={case['initial_load']} cfg={CFGS[case['cfg']]}")
    for i, (op, rec) in enumerate(zip([{"op": "construct"}] + v["ops"], v["impl"])):
        m = v["model"][i]
        flag = "" if proj(rec) == proj(m) else "   <-- model: " + json.dumps({f: m[f] for f in FIELDS if m[f] != rec[f]})
        print(f"{i - 1:3d} {json.dumps(op)[:110]:110s} -> {json.dumps({f: rec[f] for f in FIELDS})}{flag}")
    print("spec on the implementation's trace:", json.dumps(v["spec"]))
    print("failing clauses:", v["bad"], "| F9 signature:", v["f9"], "| model/impl disagree:", v["disagree"],
          "| atomic-block assumption broken:", v["lock_violations"])
    print("convergence clause on the cached-tag model's own trace:", v.get("converge_of_the_cached_tag_model"),
          "| on the remote-tag model's:", v.get("converge_of_the_remote_tag_model"))
    return 1 if (v["bad"] or v["disagree"]) else 0
