"""C11 — truthful explanations, agreeing audit trail.

Tie: real `Guard` with recording (sync / async / raising) metric and log sinks, evaluated cold,
cached and cached-after-an-obligation-flip, against the model (`guardEval` + events) on
(rule_id, reason, policy_id, obligations, challenge, events); the statement (`Rbacx.Spec.c11`) is
evaluated by the Lean driver on the implementation's Decision, and the one-audit-one-metric /
same-fields / sinks-cannot-change-the-decision clauses are checked on the captured sink calls."""
from __future__ import annotations

import guardcases as gc
import lib
import proto
import real
from rbacx.core.cache import DefaultInMemoryCache


def audit_ok(d: dict, cfg: dict) -> str | None:
    evs = d["events"]
    n_inc = sum(1 for e in evs if e["ev"] == "inc")
    n_obs = sum(1 for e in evs if e["ev"] == "observe")
    n_aud = sum(1 for e in evs if e["ev"] == "audit")
    if cfg.get("metrics") and (n_inc != 1 or n_obs != 1):
        return f"metrics: {n_inc} inc / {n_obs} observe calls for one evaluation"
    if cfg.get("logger") and n_aud != 1:
        return f"audit: {n_aud} records for one evaluation"
    for e in evs:
        if e["ev"] in ("inc", "observe") and e["decision"] != d["effect"]:
            return "metric label differs from the decision's effect"
        if e["ev"] == "audit" and (e["decision"], e["allowed"], e["rule_id"], e["reason"]) != (d["effect"], d["allowed"], d["rule_id"], d["reason"]):
            return "audit record differs from the returned decision"
    return None


def set_id_cases(quick: bool):
    """sets of 2–3 children × every pattern of child ids (absent, empty, named) × permit/deny/non-matching children × 3 algorithms,
    rule ids unique across the document: policy_id must name the child that holds the reported rule (or be null when that child has
    no id), whichever children come before or after it."""
    import itertools
    import gen
    kinds = {"P": ("permit", ["read"]), "D": ("deny", ["read"]), "N": ("permit", ["write"])}
    ids = [None, "", "A", "B"]
    req = gc.REQUESTS[0]
    pool = [(k, i) for k in kinds for i in ids]
    for n in (2, 3):
        for m, combo in enumerate(itertools.product(pool, repeat=n)):
            if n == 3 and (m % (6 if quick else 2)):
                continue
            kids = []
            for j, (k, cid) in enumerate(combo):
                eff, acts = kinds[k]
                c = {"rules": [{"id": f"c{j}{k}", "effect": eff, "actions": acts, "resource": {"type": "doc"},
                                "obligations": [{"type": "require_mfa", "on": "permit"}] if (j + m) % 4 == 0 else []}]}
                if cid is not None:
                    c["id"] = cid
                kids.append(c)
            for algo in gen.ALGOS:
                yield {"algorithm": algo, "policies": kids}, req, {"strict": False}


class FlakyLogger:
    """a log sink that fails on chosen calls and works otherwise (a backend that hiccups and recovers)"""

    def __init__(self, events: list, fail_on: set):
        self.events, self.fail_on, self.n = events, fail_on, 0

    def log(self, payload):
        self.n += 1
        self.events.append(real._audit_event(payload))
        if self.n in self.fail_on:
            raise RuntimeError("log backend hiccup")


def flaky_sink_sequence(run: lib.Run, pol, req, cfg, rr) -> None:
    """one Guard, several DIFFERENT requests in a row, the log sink failing on some calls: every evaluation emits exactly one audit
    record, and it is the record of THAT evaluation's decision (a failure of the sink is not made up for later)"""
    import gen
    reqs = [req] + [gen.gen_request(rr, pol) for _ in range(3)]
    evs: list = []
    try:
        g = real.make_guard(pol, {k: v for k, v in cfg.items() if k not in ("logger", "metrics", "sink_mode")}, evs)
    except Exception:  # noqa: BLE001
        return
    g.logger_sink = FlakyLogger(evs, {1, 3} if rr.random() < 0.5 else {2})
    run.count("flaky-sink-sequence")
    for k, q in enumerate(reqs):
        del evs[:]
        try:
            d = real.call_guard(g, q, "async" if k % 2 else "sync")
        except Exception:  # noqa: BLE001
            return
        out = real.render_decision(d, list(evs))
        why = audit_ok(out, {"logger": True})
        if why:
            run.spec_failures.append({"policy": pol, "request": q, "cfg": cfg, "impl": out, "model": None, "sequence_index": k,
                                      "requests": reqs, "spec": "log sink failing on some calls: " + why})
            return


def sink_swap_sequence(run: lib.Run, pol, req, cfg) -> None:
    """one long-lived Guard whose sinks are replaced between evaluations (sync → async → sync → none → sync): every evaluation still
    emits exactly one audit record and one metric pair to the sinks that are configured at that moment"""
    evs: list = []
    try:
        g = real.make_guard(pol, {k: v for k, v in cfg.items() if k not in ("logger", "metrics", "sink_mode")}, evs)
    except Exception:  # noqa: BLE001
        return
    run.count("sink-swap-sequence")
    plan = [("sync", real.RecLogger, real.RecMetrics), ("async", real.AsyncRecLogger, real.AsyncRecMetrics),
            ("sync", real.RecLogger, real.RecMetrics), ("none", None, None), ("async", real.AsyncRecLogger, real.AsyncRecMetrics)]
    for k, (kind, L, M) in enumerate(plan):
        g.logger_sink = L(evs) if L else None
        g.metrics = M(evs) if M else None
        del evs[:]
        try:
            d = real.call_guard(g, req, "async" if k % 2 else "sync")
        except Exception:  # noqa: BLE001
            return
        out = real.render_decision(d, list(evs))
        why = audit_ok(out, {"logger": L is not None, "metrics": M is not None})
        if L is None and evs:
            why = "events emitted although no sink is configured"
        if why:
            run.spec_failures.append({"policy": pol, "request": req, "cfg": cfg, "impl": out, "model": None, "sequence_index": k, "sinks": kind,
                                      "spec": "sinks replaced on a long-lived Guard: " + why})
            return


# ---------------------------------------------------------------------- the translated sink block vs the same statements run by CPython
# how a sink attribute is written: missing, None, or a method in one of the THREE spellings the ports allow (`-> None | Awaitable[None]`):
# "plain" = `def` doing its work when called, "coroFn" = `async def`, "awaitable" = a plain `def` RETURNING an awaitable (alternately a
# coroutine object and an object with `__await__`) whose awaiting does the work; × the work returns / raises (where it runs)
SPELLINGS = ("plain", "coroFn", "awaitable")
SINK_KINDS = ["missing", "none"] + [(sp, r) for sp in SPELLINGS for r in (False, True)]
_AWAITABLE_TOGGLE = [0]


class _AwaitableObj:
    """an awaitable that is not a coroutine object (what a Future or a client library's lazy call looks like)"""

    def __init__(self, work):
        self.work = work

    def __await__(self):
        self.work()
        return None
        yield  # noqa: unreachable — makes __await__ a generator function


def make_holder(spec: dict, record: list, prefix: str):
    """a sink object whose attributes are as `spec` says — "missing", "none" (the attribute is None), or a method written as a plain
    `def`, an `async def`, or a plain `def` returning an awaitable, whose work returns / raises.  A record (label, spelling, positional
    arguments) is appended WHEN THE SINK'S WORK RUNS — for the two asynchronous spellings: when what the call returned is awaited; an
    awaitable that is dropped has emitted nothing"""
    ns: dict = {}
    for name, kind in spec.items():
        if kind == "missing":
            continue
        if kind == "none":
            ns[name] = None
            continue
        spelling, raises = kind
        label = f"{prefix}.{name}"

        def work(args, _l=label, _r=raises, _s=spelling):
            record.append((_l, _s, args))
            if _r:
                raise RuntimeError("sink down")
        if spelling == "coroFn":
            async def f(self, *args, _w=work):
                _w(args)
        elif spelling == "awaitable":
            _AWAITABLE_TOGGLE[0] += 1
            if _AWAITABLE_TOGGLE[0] % 2:
                def f(self, *args, _w=work):
                    async def later():
                        _w(args)
                    return later()
            else:
                def f(self, *args, _w=work):
                    return _AwaitableObj(lambda: _w(args))
        else:
            def f(self, *args, _w=work):
                _w(args)
        ns[name] = f
    return type("Holder", (), ns)()


def sink_configs():
    """(metrics spec | None, logger spec | None): every combination of the three sinks' kinds, and the objects not configured"""
    import itertools
    mets = [None] + [{"inc": a, "observe": b} for a, b in itertools.product(SINK_KINDS, SINK_KINDS)]
    logs = [None] + [{"log": a} for a in SINK_KINDS]
    return list(itertools.product(mets, logs))


def decision_shapes(fields):
    import itertools
    import rbacx.core.engine as reng
    for t in itertools.product((True, False), ("permit", "deny"), ([], [{"type": "require_mfa"}]), (None, "mfa"), (None, "r"),
                               (None, "p"), ("matched", "obligation_failed", None)):
        yield reng.Decision(**dict(zip(fields, t)))


def translated_vs_python(run: lib.Run, facts: dict) -> tuple[bool, str]:
    """the translated sink block of `Guard._evaluate_core_async` (Generated.Src.engine_sinks, evaluated by `lake env lean --run
    Rbacx/Run/SrcEvalSinks.lean`) against the SAME statements of the current source text, compiled as a real `async def` and driven by
    CPython (pytolean_sinks.block_as_python) with RECORDING sink objects: every combination of {attribute missing, attribute None, `def`,
    `async def`} × {returns, raises} for `metrics.inc`, `metrics.observe` and `logger_sink.log`, `metrics=None`, `logger_sink=None`, over
    Decision objects of every shape — compared on the list of calls (which sinks' work ran — an awaitable counts when it was awaited —, arguments) and on the returned value
    (which must be the very Decision object handed in).  `getattr`, `inspect.iscoroutinefunction`, `await`, the three try/except blocks
    and `max(0.0, _now() - start)` are CPython's own.  Validates the readings the obligation C11_sinks_translated trusts."""
    import dataclasses
    import json
    import subprocess

    import pytolean_async as pa
    import pytolean_sinks as ps
    import rbacx.core.engine as reng
    from extractors import src_translation_sinks as plug
    src, cfg = plug.config(real.REPO)
    try:
        pyrun, opaque_values, tf = ps.block_as_python(src, plug.METHOD, plug.START, cfg, vars(reng))
    except pa.Unsupported as e:
        return False, f"sink block: {e}"
    fr = facts[plug.LEAN_NAME]
    if tf["inputs"] != fr["inputs"] or tf["sinks"] != fr["sinks"] or [o["param"] for o in tf["opaque"]] != [o["param"] for o in fr["opaque"]]:
        return False, f"sink block: inputs of the imported module {tf['inputs']} / {tf['sinks']} differ from the extracted ones"
    holders = sorted({a for a, _, _ in fr["sinks"]})
    if any(h not in ("self.metrics", "self.logger_sink") for h in holders):
        return False, f"sink block: unexpected sink holders {holders}"
    param = {(a, n): p for a, n, p in fr["sinks"]}
    fields = facts["decision_fields"]
    shapes = list(decision_shapes(fields))
    envs = [{}, {"subject": {"id": "u", "roles": ["a"], "attrs": {}}, "action": "read", "__strict_types__": True}]
    quick = run.tier == "quick"
    cases = []
    k = 0
    for met, log in sink_configs():
        for _ in range(2 if quick else 6):
            cases.append((met, log, shapes[(k * 37) % len(shapes)], envs[k % 2], (10.0, 12.5) if k % 3 else (10.0, 9.0)))
            k += 1
    some = [c for i, c in enumerate(sink_configs()) if i % 29 == 0]
    for d in shapes:
        met, log = some[k % len(some)]
        cases.append((met, log, d, envs[k % 2], (1.0, 1.25)))
        k += 1
    lines, wants = [], []

    def rec(obj):
        return {f.name: getattr(obj, f.name) for f in dataclasses.fields(obj)}
    for met, log, d, env, (start, now) in cases:
        record: list = []
        hold = {"self.metrics": None if met is None else make_holder(met, record, "self.metrics"),
                "self.logger_sink": None if log is None else make_holder(log, record, "self.logger_sink")}
        values = {"d": d, "env": env, "start": start}
        if any(v not in values and v not in hold for v in tf["inputs"]) or any(v not in values for o in tf["opaque"] for v in o["reads"]):
            return False, f"sink block: an input the harness has no value for: {tf['inputs']} / {[o['reads'] for o in tf['opaque']]}"
        clock = (lambda now=now: now)
        try:
            end = pyrun(values, hold, clock)
            opq = opaque_values(values, clock)
        except Exception as e:  # noqa: BLE001
            return False, f"sink block as python: {type(e).__name__}: {e}"
        same = True
        if end[0] == "returned":
            ending = {"returned": proto.enc(rec(end[1])) if dataclasses.is_dataclass(end[1]) else "<not a Decision>"}
            same = end[1] is d
        else:
            ending = "raised"
        wants.append(({"calls": [{"callee": c, "args": [proto.enc(a) for a in args]} for c, _sp, args in record], "ending": ending}, same))
        sinks = {}
        for (a, n), p in param.items():
            spec = met if a == "self.metrics" else log
            kind = "missing" if spec is None else spec[n]
            sinks[p] = None if kind in ("missing", "none") else {"spelling": kind[0], "raises": kind[1]}
        args = {"self.metrics": None if met is None else "<metrics>", "self.logger_sink": None if log is None else "<logger>",
                "d": proto.enc(rec(d)), "env": proto.enc(env)}
        lines.append(json.dumps({"sinks": sinks, "opaque": {p: proto.enc(v) for p, v in opq.items()},
                                 "args": {v: args[v] for v in tf["inputs"]}}))
    p = subprocess.run(["lake", "env", "lean", "--run", "Rbacx/Run/SrcEvalSinks.lean"], cwd=lib.LEAN, input="\n".join(lines) + "\n",
                       capture_output=True, text=True, timeout=1800)
    outs = [ln for ln in p.stdout.split("\n") if ln]
    if p.returncode != 0 or len(outs) != len(lines):
        return False, "SrcEvalSinks: " + (p.stderr or p.stdout)[-800:]
    bad = 0
    for (met, log, d, env, clk), (want, same), ln, line in zip(cases, wants, outs, lines):
        got = json.loads(ln)
        run.count("translated-sinks")
        if got != want or not same:
            bad += 1
            if bad == 1:
                run.disagreements.append({"part": "translated source vs python", "range": "engine_sinks", "metrics": repr(met), "logger": repr(log),
                                          "line": json.loads(line), "impl": {"python": want, "returned_the_object_handed_in": same}, "model": got,
                                          "what": "the translated sink block (Generated.Src.engine_sinks) and the same statements run by CPython differ"})
    run.evaluations += len(cases)
    return bad == 0, f"{bad} of {len(cases)} evaluations differ" if bad else f"agree on {len(cases)} evaluations"


def sink_matrix_on_engine(run: lib.Run) -> None:
    """the property's clause on the REAL engine for every kind of sink: a Guard with recording `metrics` / `logger_sink` objects of every
    combination of {attribute missing, None, `def`, `async def`} × {returns, raises}, a permit, a deny and a permit revoked by the
    obligation gate, cold and on a cache hit, through the sync and the async API: the returned Decision equals the one of a Guard without
    sinks, exactly one `inc` / `observe` / `log` call reaches every sink that is there, in this order, carrying the returned Decision's
    fields"""
    import asyncio
    from rbacx.core.engine import Guard
    pol = {"algorithm": "deny-overrides", "rules": [
        {"id": "p", "effect": "permit", "actions": ["read"], "resource": {"type": "doc"}},
        {"id": "m", "effect": "permit", "actions": ["pay"], "resource": {"type": "doc"}, "obligations": [{"type": "require_mfa", "on": "permit"}]},
        {"id": "x", "effect": "deny", "actions": ["drop"], "resource": {"type": "doc"}}]}
    reqs = [real.make_request({"sid": "u", "roles": [], "sattrs": {}, "action": a, "rtype": "doc", "rid": "1", "rattrs": {}, "ctx": {}})
            for a in ("read", "pay", "drop", "other")]
    plain = Guard(pol)
    base = [plain.evaluate_sync(*rq) for rq in reqs]
    fields = ("allowed", "effect", "obligations", "challenge", "rule_id", "policy_id", "reason")
    for n, (met, log) in enumerate(sink_configs()):
        record: list = []
        g = Guard(pol, metrics=None if met is None else make_holder(met, record, "self.metrics"),
                  logger_sink=None if log is None else make_holder(log, record, "self.logger_sink"),
                  cache=DefaultInMemoryCache(16) if n % 2 else None)
        for j, rq in enumerate(reqs):
            for rep in range(2 if n % 2 else 1):
                del record[:]
                run.evaluations += 1
                run.count("sink-matrix")
                why = None
                try:
                    d = asyncio.run(g.evaluate_async(*rq)) if (n + j) % 2 else g.evaluate_sync(*rq)
                except Exception as e:  # noqa: BLE001
                    why, d = f"the evaluation raised {type(e).__name__} (a sink's failure propagated)", None
                if d is not None:
                    want = []
                    for holder, spec, names in (("self.metrics", met, ("inc", "observe")), ("self.logger_sink", log, ("log",))):
                        for nm in names:
                            if spec is not None and isinstance(spec[nm], tuple):
                                want.append(f"{holder}.{nm}")
                    got = [c for c, _, _ in record]
                    if any(getattr(d, f) != getattr(base[j], f) for f in fields):
                        why = "the sinks changed the returned decision"
                    elif got != want:
                        why = (f"the sinks whose work ran (an awaitable counts when it was awaited) are {got} for one evaluation, expected "
                               f"exactly {want}")
                    else:
                        for c, _, args in record:
                            if c.endswith("log"):
                                pl = args[0]
                                if (pl.get("decision"), pl.get("allowed"), pl.get("rule_id"), pl.get("policy_id"), pl.get("reason"), pl.get("obligations")) != \
                                        (d.effect, d.allowed, d.rule_id, d.policy_id, d.reason, d.obligations):
                                    why = "audit record differs from the returned decision"
                            elif args[-1] != {"decision": d.effect}:
                                why = "metric label differs from the decision's effect"
                if why:
                    run.spec_failures.append({"policy": pol, "request": {"action": rq[1].name},
                                              "cfg": {"metrics": repr(met), "logger": repr(log), "cache": bool(n % 2), "repeat": rep},
                                              "impl": {"sink_work_that_ran": [(c, sp) for c, sp, _ in record]}, "model": None,
                                              "spec": "sinks of every kind: " + why})
                    return


def sinks_obligation(run: lib.Run, audit: dict) -> tuple[bool, bool, str, dict | None]:
    """run and register the per-run obligation C11_sinks_translated and the comparison with CPython; returns (obligation discharged,
    comparison ok, Lean's message or the comparison's, the extracted translation)"""
    tr = audit["facts"].get("translated_sinks")
    untranslatable = isinstance(tr, dict) and ("extraction_failed" in tr or "failed" in tr.get("engine_sinks", {}))
    if untranslatable and "extraction_failed" not in tr:
        tr = {**tr, "extraction_failed": tr["engine_sinks"]["failed"]}
    ok_tr, detail_tr = lib.run_obligation("C11_sinks_translated", deps=["C01_translated"])
    run.obligation("C11_sinks_translated: Generated.Src.engine_sinks (the current source text of Guard._evaluate_core_async from `if self.metrics "
                   "is not None:` to `return d`, as a sink-call trace; the three sinks as parameters: absent / def / async def / def returning an awaitable, returning / raising) "
                   "returns the Decision it was handed and ends `returned` whatever the sinks do, makes exactly one inc, one observe, one log call in "
                   "this order (each iff its object is configured and has the attribute) with the labels / payload of Src.engine_metric_labels / "
                   "Src.engine_audit_payload = the events of the model's finishDecision",
                   ok_tr, "discharged" if ok_tr else (str(tr["extraction_failed"]) if untranslatable else detail_tr))
    if untranslatable or not isinstance(tr, dict):
        ok_py, detail_py = True, "skipped: the sink block is not in the translatable subset (see C11_sinks_translated)"
    else:
        ok_py, detail_py = translated_vs_python(run, tr)
    run.obligation("translated sink block evaluates like the same statements run by CPython with recording sinks (pytolean_sinks + "
                   "Model/PySinks.lean vs CPython: getattr, await maybe_await, try/except, def / async def / awaitable-returning / raising / missing sinks)",
                   ok_py, detail_py)
    return ok_tr, ok_py, (detail_tr if not ok_tr else detail_py), tr


def republication_sequence(run: lib.Run) -> None:
    """ONE engine (audit + metric sinks, with and without a decision cache), documents published one after the other with set_policy /
    update_policy — among them documents json.dumps cannot write (a datetime / a set as a condition operand: no fingerprint), twins
    that differ in a rule id only, sets and single policies: after EVERY publication every probe request is explained by the document
    that is current — decision fields and audit record equal those of a fresh engine holding that document."""
    import copy
    import itertools as it
    from datetime import datetime, timezone

    def pol(tag: str, effect: str, extra=None, obligations=None) -> dict:
        rule = {"id": f"{tag}-rule", "effect": effect, "actions": ["read"], "resource": {"type": "doc"}}
        if extra is not None:
            rule["condition"] = extra
        if obligations:
            rule["obligations"] = obligations
        return {"algorithm": "deny-overrides", "rules": [rule]}
    after = {"after": [{"attr": "context.now"}, datetime(2020, 1, 1, tzinfo=timezone.utc)]}
    before = {"before": [{"attr": "context.now"}, datetime(2099, 1, 1, tzinfo=timezone.utc)]}
    docs = {
        "q3 (unserialisable, permit+mfa)": pol("q3", "permit", after, [{"type": "require_mfa"}]),
        "q4 (unserialisable, deny)": pol("q4", "deny", before),
        "q5 (unserialisable, permit)": pol("q5", "permit", before),
        "plain permit": pol("plain", "permit"),
        "plain deny": pol("stop", "deny"),
        "set": {"algorithm": "permit-overrides", "policies": [{"id": "inner", **pol("inner", "permit")}]},
        "set (unserialisable)": {"algorithm": "permit-overrides", "policies": [{"id": "inner2", **pol("inner2", "permit", after)}]},
    }
    probes = [{"sid": "u", "roles": [], "sattrs": {}, "action": "read", "rtype": "doc", "rid": "1", "rattrs": {},
               "ctx": {"now": datetime(2024, 6, 1, tzinfo=timezone.utc), "mfa": m}} for m in (True, False)]
    fields = ("allowed", "effect", "rule_id", "reason", "policy_id", "obligations", "challenge", "events")
    names = list(docs)
    seqs = [list(x) for x in it.permutations(names, 2)] + [list(x) for x in it.permutations(names[:5], 3)]
    for seq in seqs:
        for cached in (False, True):
            evs: list = []
            try:
                g = real.make_guard(copy.deepcopy(docs[seq[0]]), {"metrics": True, "logger": True}, evs,
                                    cache=DefaultInMemoryCache(64) if cached else None)
            except Exception as e:  # noqa: BLE001
                run.spec_failures.append({"part": "republication", "sequence": seq, "spec": f"engine construction raised {type(e).__name__}"})
                return
            for step, name in enumerate(seq):
                if step:
                    (g.set_policy if step % 2 else g.update_policy)(copy.deepcopy(docs[name]))
                for q in probes:
                    outs = []
                    for eng in (g, None):
                        evs2: list = []
                        if eng is None:
                            eng = real.make_guard(copy.deepcopy(docs[name]), {"metrics": True, "logger": True}, evs2)
                        else:
                            evs2 = evs
                            evs.clear()
                        try:
                            d = real.call_guard(eng, q)
                            outs.append(real.render_decision(d, list(evs2)))
                        except Exception as e:  # noqa: BLE001
                            outs.append({"raised": type(e).__name__})
                    run.evaluations += 1
                    run.count("republication")
                    got, want = outs
                    if "raised" in got or "raised" in want:
                        same = got == want
                    else:
                        same = all(proto.json.dumps(got[f], sort_keys=True, default=str) == proto.json.dumps(want[f], sort_keys=True, default=str) for f in fields)
                    if not same:
                        run.spec_failures.append({"part": "republication", "sequence": seq, "publication": step, "current_document": name,
                                                  "decision_cache": cached, "mfa_in_context": q["ctx"]["mfa"],
                                                  "long_lived_engine": {k: v for k, v in got.items() if k != "events"},
                                                  "fresh_engine_on_current_document": {k: v for k, v in want.items() if k != "events"},
                                                  "spec": "after a publication the engine explains a decision by a rule / reason / obligations that are not those "
                                                          "of the current document (a fresh engine holding it answers differently)"})
                        return
            run.nontrivial.add(f"republish{seq}{cached}")


def run_cases(run: lib.Run, audit: dict, scale: int = 1):
    quick = run.tier == "quick"
    consts = audit["facts"]["consts"]
    cases = []
    for pol, req, cfg in gc.enum_cases(quick):
        cases.append((pol, req, {**cfg, "metrics": True, "logger": True}))
    for pol, req, cfg in set_id_cases(quick):
        cases.append((pol, req, {**cfg, "metrics": True, "logger": True}))
    n_enum = len(cases)
    import random
    r = random.Random(run.seed + 11)
    for pol, req, cfg in gc.random_cases(run.seed * 13 + 11, (2000 if quick else 20000) * scale, hostile=0.1, rel=0.15, nested=0.4):
        cfg = {**cfg, "metrics": r.random() < 0.7, "logger": r.random() < 0.8}
        cases.append((pol, req, cfg))
    flav = ["sync", "async", "sync-collab-async"]
    res = gc.run_batch(cases, consts, flavour_of=lambda i: flav[i % 3] if i >= n_enum else "sync")
    for i, (pol, req, cfg, out, model, extra) in enumerate(res):
        run.count(gc.outcome_class(out))
        nontrivial = "ok" in out and out["ok"]["rule_id"] is not None
        run.case([pol, req, cfg], nontrivial, {"policy": pol, "request": req, "cfg": cfg, "impl": out} if i >= n_enum and nontrivial else None)
        case = {"policy": pol, "request": req, "cfg": cfg, "impl": out, "model": model}
        keys = ("rule_id", "reason", "policy_id", "obligations", "challenge", "events")
        proj = (lambda o: ("raised",) if "raised" in o else tuple(proto.json.dumps(o["ok"][k], sort_keys=True) for k in keys))
        if proj(out) != proj(model):
            run.disagreements.append(case)
        if extra.get("hyp_c11"):
            run.count("theorem-hypotheses-hold")
            if extra.get("spec_c11") is None:
                run.disagreements.append({**case, "what": "within the hypotheses of c11_truthful but Spec.c11 is undefined on the implementation's decision"})
        if extra.get("spec_c11") is False:
            run.spec_failures.append({**case, "spec": "explanation not truthful (Rbacx.Spec.c11)"})
        if "ok" in out:
            why = audit_ok(out["ok"], cfg)
            if why:
                run.spec_failures.append({**case, "spec": why})
        if "ok" in out and i % 6 == 1:
            flaky_sink_sequence(run, pol, req, cfg, r)
        if "ok" in out and i % 12 == 2:
            sink_swap_sequence(run, pol, req, cfg)
        # repeated evaluation with a cache (hit, and hit after an obligation flip) + raising sinks
        if "ok" in out and i % 4 == 0:
            evs: list = []
            try:
                g = real.make_guard(pol, {**cfg, "metrics": True, "logger": True, "sink_mode": "raise" if i % 8 == 0 else "sync"}, evs,
                                    cache=DefaultInMemoryCache(64))
                seq = []
                for _ in range(3):
                    evs.clear()
                    d = real.call_guard(g, req)
                    seq.append(real.render_decision(d, list(evs)))
            except Exception as e:  # noqa: BLE001
                run.spec_failures.append({**case, "spec": f"repeated/cached evaluation with sinks raised {type(e).__name__}"})
                continue
            run.count("repeat3")
            for k, d in enumerate(seq):
                why = audit_ok(d, {"metrics": True, "logger": True})
                same = all(d[f] == out["ok"][f] for f in ("allowed", "effect", "rule_id", "reason", "policy_id", "obligations", "challenge"))
                if why or not same:
                    run.spec_failures.append({**case, "repeat_index": k, "repeat": d,
                                              "spec": why or "cached / sink-failing evaluation returned a different decision"})
                    break


def check(run: lib.Run, audit: dict) -> int:
    run.rule = ("sets of 2–3 children × every child-id pattern (absent/empty/named) × permit/deny/non-matching × 3 algorithms with document-unique "
                "rule ids; as C01 (template-pool exhaustive + random grammar incl. nested sets with ids, rel, hostile), every case with recording metric+log "
                "sinks (sync/async), every fourth case evaluated three times on a cached engine (cold, hit, hit after flip) with sinks that "
                "raise on half of them; every sixth case as a sequence of four different requests on one Guard whose log sink fails on some calls. non-trivial = a rule id is reported")
    run.exhaustive = True
    run.assumptions = ["as C01"]
    if not audit["ok"]:
        raise lib.CheckError(f"Lean build/audit failed at {audit['stage']}: {audit.get('log') or audit.get('forbidden') or audit.get('bad_axioms')}")
    # what the sinks are handed (`labels = …`, `payload = …`) and the Decision they are computed from, as the engine is written NOW, are
    # proved to be the events / the Decision of the model's finishDecision (C01's obligation; its comparison with CPython runs there)
    from props import c01 as _c01
    ok_tr, _, detail_tr, tr = _c01.translated_obligation(run, audit, differential=False)
    # the sink block itself (which sinks are called, how often, in which order, with what; that nothing they do reaches the Decision) as
    # the engine is written NOW: a sink-call trace proved equal to its specification and to the model's events
    ok_sk, ok_sk_py, detail_sk, tr_sk = sinks_obligation(run, audit)
    # … and that block is run exactly once per evaluation, and is the only place that touches the sinks (the assembly of the method; C14's)
    from props import c14 as _c14
    ok_asm, detail_asm = _c14.core_assembly_obligation(run, audit)
    which = "Rbacx/Run/C11_sinks_translated.lean"
    if not ok_asm and ok_sk:
        ok_sk, detail_sk, which = False, detail_asm, ("Rbacx/Run/C14_core_assembly.lean (the sink block is no longer the only place that touches the "
                                                      "sinks, or is no longer run exactly once per evaluation)")
    sink_matrix_on_engine(run)
    republication_sequence(run)
    run_cases(run, audit, scale=run.boost * (1 if ok_tr and ok_sk else 2))
    violations = []
    if (run.disagreements or not ok_tr or not ok_sk) and not run.spec_failures:
        run_cases(run, audit, scale=4)
    if run.spec_failures:
        path = run.write_replay("spec", {"what": "C11 violated on the real engine", "case": run.spec_failures[0], "count": len(run.spec_failures)})
        violations.append((path, True))
    elif not ok_sk and ok_tr:
        path = run.write_replay("obligation", {"what": "per-run obligation " + which + " no longer checks: the translated source of "
                                               "the engine's sink block (Guard._evaluate_core_async from `if self.metrics is not None:` to `return d`) "
                                               "is not proved to return the Decision it was handed, to call inc / observe / log exactly once in this "
                                               "order whatever the sinks do, or to hand them the labels / payload of the model's events "
                                               "(Rbacx.C11.c11_one_audit_one_metric, c11_sinks_cannot_change_decision); the sink matrix on the real "
                                               "engine and the widened search found no case on which the audit trail is untruthful",
                                               "translation": tr_sk, "lean": detail_sk[-1500:], "first_disagreement": run.disagreements[:1]})
        violations.append((path, False))
    elif not ok_tr:
        path = run.write_replay("obligation", {"what": "per-run obligation Rbacx/Run/C01_translated.lean no longer checks: the translated source of the "
                                               "engine's decision core (gate, Decision, audit payload, metric labels) is not proved equal to the "
                                               "model's finishDecision, the object Rbacx.C11.c11_one_audit_one_metric is about; the widened search "
                                               "found no case on which the explanation or the audit trail is untruthful",
                                               "translation": tr, "lean": detail_tr[-1500:], "first_disagreement": run.disagreements[:1]})
        violations.append((path, False))
    elif not ok_sk_py or any(d.get("part") == "translated source vs python" for d in run.disagreements):
        first = next((d for d in run.disagreements if d.get("part") == "translated source vs python"),
                     {"part": "translated source vs python", "what": detail_sk})
        path = run.write_replay("correspondence", {"what": "translated source vs python: " + str(first.get("what")) + "; the obligation "
                                                   "C11_sinks_translated rests on a translation that CPython contradicts (or that could not be evaluated)",
                                                   "first": first, "count": len(run.disagreements)})
        violations.append((path, False))
    elif run.disagreements:
        path = run.write_replay("correspondence", {"what": "model and engine disagree on (rule_id, reason, policy_id, obligations, challenge, events); "
                                                   "theorems Rbacx.C11.* no longer speak about this code", "first": run.disagreements[0],
                                                   "count": len(run.disagreements)})
        violations.append((path, False))
    return run.finish(audit, violations)


def replay(run: lib.Run, audit: dict, path: str) -> int:
    import json
    rp = json.load(open(path))
    c = rp.get("case") or rp.get("first")
    if c and c.get("part") == "republication":
        republication_sequence(run)
        now = [f for f in run.spec_failures if f.get("part") == "republication"]
        print("now:", json.dumps(now[0], default=str)[:2000] if now else "after every publication every probe is explained by the current document")
        print("recorded:", json.dumps(c, default=str)[:2000])
        return 1 if now else 0
    if not c or "policy" not in c or str(c.get("spec", "")).startswith("sinks of every kind") or c.get("part") == "translated source vs python":
        print("recorded:", json.dumps(c or rp.get("what"), default=str)[:2000])
        if c and str(c.get("spec", "")).startswith("sinks of every kind"):
            before = len(run.spec_failures)
            sink_matrix_on_engine(run)
            print("sink matrix on the engine now:", run.spec_failures[before:] or "no failure")
        return 0
    print("impl now:", real.run_guard(c["policy"], c["request"], c["cfg"]))
    print("recorded:", c["impl"], "model:", c["model"])
    return 0
