"""C11 — truthful explanations, agreeing audit trail.

Tie: real `Guard` with recording (sync / async / raising) metric and log sinks, evaluated cold,
cached and cached-after-an-obligation-flip, against the model (`guardEval` + events) on
(rule_id, reason, policy_id, obligations, challenge, events); the statement (`Rbacx.Spec.c11`) is
evaluated by the Lean driver on the implementation's Decision, and the one-audit-one-metric /
same-fields / sinks-cannot-change-the-decision clauses are checked on the captured sink calls."""
from __future__ import annotations

import guardcases as gc
import lib
import proto
import real
from rbacx.core.cache import DefaultInMemoryCache


def audit_ok(d: dict, cfg: dict) -> str | None:
    evs = d["events"]
    n_inc = sum(1 for e in evs if e["ev"] == "inc")
    n_obs = sum(1 for e in evs if e["ev"] == "observe")
    n_aud = sum(1 for e in evs if e["ev"] == "audit")
    if cfg.get("metrics") and (n_inc != 1 or n_obs != 1):
        return f"metrics: {n_inc} inc / {n_obs} observe calls for one evaluation"
    if cfg.get("logger") and n_aud != 1:
        return f"audit: {n_aud} records for one evaluation"
    for e in evs:
        if e["ev"] in ("inc", "observe") and e["decision"] != d["effect"]:
            return "metric label differs from the decision's effect"
        if e["ev"] == "audit" and (e["decision"], e["allowed"], e["rule_id"], e["reason"]) != (d["effect"], d["allowed"], d["rule_id"], d["reason"]):
            return "audit record differs from the returned decision"
    return None


def set_id_cases(quick: bool):
    """sets of 2–3 children × every pattern of child ids (absent, empty, named) × permit/deny/non-matching children × 3 algorithms,
    rule ids unique across the document: policy_id must name the child that holds the reported rule (or be null when that child has
    no id), whichever children come before or after it."""
    import itertools
    import gen
    kinds = {"P": ("permit", ["read"]), "D": ("deny", ["read"]), "N": ("permit", ["write"])}
    ids = [None, "", "A", "B"]
    req = gc.REQUESTS[0]
    pool = [(k, i) for k in kinds for i in ids]
    for n in (2, 3):
        for m, combo in enumerate(itertools.product(pool, repeat=n)):
            if n == 3 and (m % (6 if quick else 2)):
                continue
            kids = []
            for j, (k, cid) in enumerate(combo):
                eff, acts = kinds[k]
                c = {"rules": [{"id": f"c{j}{k}", "effect": eff, "actions": acts, "resource": {"type": "doc"},
                                "obligations": [{"type": "require_mfa", "on": "permit"}] if (j + m) % 4 == 0 else []}]}
                if cid is not None:
                    c["id"] = cid
                kids.append(c)
            for algo in gen.ALGOS:
                yield {"algorithm": algo, "policies": kids}, req, {"strict": False}


class FlakyLogger:
    """a log sink that fails on chosen calls and works otherwise (a backend that hiccups and recovers)"""

    def __init__(self, events: list, fail_on: set):
        self.events, self.fail_on, self.n = events, fail_on, 0

    def log(self, payload):
        self.n += 1
        self.events.append(real._audit_event(payload))
        if self.n in self.fail_on:
            raise RuntimeError("log backend hiccup")


def flaky_sink_sequence(run: lib.Run, pol, req, cfg, rr) -> None:
    """one Guard, several DIFFERENT requests in a row, the log sink failing on some calls: every evaluation emits exactly one audit
    record, and it is the record of THAT evaluation's decision (a failure of the sink is not made up for later)"""
    import gen
    reqs = [req] + [gen.gen_request(rr, pol) for _ in range(3)]
    evs: list = []
    try:
        g = real.make_guard(pol, {k: v for k, v in cfg.items() if k not in ("logger", "metrics", "sink_mode")}, evs)
    except Exception:  # noqa: BLE001
        return
    g.logger_sink = FlakyLogger(evs, {1, 3} if rr.random() < 0.5 else {2})
    run.count("flaky-sink-sequence")
    for k, q in enumerate(reqs):
        del evs[:]
        try:
            d = real.call_guard(g, q, "async" if k % 2 else "sync")
        except Exception:  # noqa: BLE001
            return
        out = real.render_decision(d, list(evs))
        why = audit_ok(out, {"logger": True})
        if why:
            run.spec_failures.append({"policy": pol, "request": q, "cfg": cfg, "impl": out, "model": None, "sequence_index": k,
                                      "requests": reqs, "spec": "log sink failing on some calls: " + why})
            return


def sink_swap_sequence(run: lib.Run, pol, req, cfg) -> None:
    """one long-lived Guard whose sinks are replaced between evaluations (sync → async → sync → none → sync): every evaluation still
    emits exactly one audit record and one metric pair to the sinks that are configured at that moment"""
    evs: list = []
    try:
        g = real.make_guard(pol, {k: v for k, v in cfg.items() if k not in ("logger", "metrics", "sink_mode")}, evs)
    except Exception:  # noqa: BLE001
        return
    run.count("sink-swap-sequence")
    plan = [("sync", real.RecLogger, real.RecMetrics), ("async", real.AsyncRecLogger, real.AsyncRecMetrics),
            ("sync", real.RecLogger, real.RecMetrics), ("none", None, None), ("async", real.AsyncRecLogger, real.AsyncRecMetrics)]
    for k, (kind, L, M) in enumerate(plan):
        g.logger_sink = L(evs) if L else None
        g.metrics = M(evs) if M else None
        del evs[:]
        try:
            d = real.call_guard(g, req, "async" if k % 2 else "sync")
        except Exception:  # noqa: BLE001
            return
        out = real.render_decision(d, list(evs))
        why = audit_ok(out, {"logger": L is not None, "metrics": M is not None})
        if L is None and evs:
            why = "events emitted although no sink is configured"
        if why:
            run.spec_failures.append({"policy": pol, "request": req, "cfg": cfg, "impl": out, "model": None, "sequence_index": k, "sinks": kind,
                                      "spec": "sinks replaced on a long-lived Guard: " + why})
            return


def run_cases(run: lib.Run, audit: dict, scale: int = 1):
    quick = run.tier == "quick"
    consts = audit["facts"]["consts"]
    cases = []
    for pol, req, cfg in gc.enum_cases(quick):
        cases.append((pol, req, {**cfg, "metrics": True, "logger": True}))
    for pol, req, cfg in set_id_cases(quick):
        cases.append((pol, req, {**cfg, "metrics": True, "logger": True}))
    n_enum = len(cases)
    import random
    r = random.Random(run.seed + 11)
    for pol, req, cfg in gc.random_cases(run.seed * 13 + 11, (2000 if quick else 20000) * scale, hostile=0.1, rel=0.15, nested=0.4):
        cfg = {**cfg, "metrics": r.random() < 0.7, "logger": r.random() < 0.8}
        cases.append((pol, req, cfg))
    flav = ["sync", "async", "sync-collab-async"]
    res = gc.run_batch(cases, consts, flavour_of=lambda i: flav[i % 3] if i >= n_enum else "sync")
    for i, (pol, req, cfg, out, model, extra) in enumerate(res):
        run.count(gc.outcome_class(out))
        nontrivial = "ok" in out and out["ok"]["rule_id"] is not None
        run.case([pol, req, cfg], nontrivial, {"policy": pol, "request": req, "cfg": cfg, "impl": out} if i >= n_enum and nontrivial else None)
        case = {"policy": pol, "request": req, "cfg": cfg, "impl": out, "model": model}
        keys = ("rule_id", "reason", "policy_id", "obligations", "challenge", "events")
        proj = (lambda o: ("raised",) if "raised" in o else tuple(proto.json.dumps(o["ok"][k], sort_keys=True) for k in keys))
        if proj(out) != proj(model):
            run.disagreements.append(case)
        if extra.get("hyp_c11"):
            run.count("theorem-hypotheses-hold")
            if extra.get("spec_c11") is None:
                run.disagreements.append({**case, "what": "within the hypotheses of c11_truthful but Spec.c11 is undefined on the implementation's decision"})
        if extra.get("spec_c11") is False:
            run.spec_failures.append({**case, "spec": "explanation not truthful (Rbacx.Spec.c11)"})
        if "ok" in out:
            why = audit_ok(out["ok"], cfg)
            if why:
                run.spec_failures.append({**case, "spec": why})
        if "ok" in out and i % 6 == 1:
            flaky_sink_sequence(run, pol, req, cfg, r)
        if "ok" in out and i % 12 == 2:
            sink_swap_sequence(run, pol, req, cfg)
        # repeated evaluation with a cache (hit, and hit after an obligation flip) + raising sinks
        if "ok" in out and i % 4 == 0:
            evs: list = []
            try:
                g = real.make_guard(pol, {**cfg, "metrics": True, "logger": True, "sink_mode": "raise" if i % 8 == 0 else "sync"}, evs,
                                    cache=DefaultInMemoryCache(64))
                seq = []
                for _ in range(3):
                    evs.clear()
                    d = real.call_guard(g, req)
                    seq.append(real.render_decision(d, list(evs)))
            except Exception as e:  # noqa: BLE001
                run.spec_failures.append({**case, "spec": f"repeated/cached evaluation with sinks raised {type(e).__name__}"})
                continue
            run.count("repeat3")
            for k, d in enumerate(seq):
                why = audit_ok(d, {"metrics": True, "logger": True})
                same = all(d[f] == out["ok"][f] for f in ("allowed", "effect", "rule_id", "reason", "policy_id", "obligations", "challenge"))
                if why or not same:
                    run.spec_failures.append({**case, "repeat_index": k, "repeat": d,
                                              "spec": why or "cached / sink-failing evaluation returned a different decision"})
                    break


def check(run: lib.Run, audit: dict) -> int:
    run.rule = ("sets of 2–3 children × every child-id pattern (absent/empty/named) × permit/deny/non-matching × 3 algorithms with document-unique "
                "rule ids; as C01 (template-pool exhaustive + random grammar incl. nested sets with ids, rel, hostile), every case with recording metric+log "
                "sinks (sync/async), every fourth case evaluated three times on a cached engine (cold, hit, hit after flip) with sinks that "
                "raise on half of them; every sixth case as a sequence of four different requests on one Guard whose log sink fails on some calls. non-trivial = a rule id is reported")
    run.exhaustive = True
    run.assumptions = ["as C01"]
    if not audit["ok"]:
        raise lib.CheckError(f"Lean build/audit failed at {audit['stage']}: {audit.get('log') or audit.get('forbidden') or audit.get('bad_axioms')}")
    # what the sinks are handed (`labels = …`, `payload = …`) and the Decision they are computed from, as the engine is written NOW, are
    # proved to be the events / the Decision of the model's finishDecision (C01's obligation; its comparison with CPython runs there)
    from props import c01 as _c01
    ok_tr, _, detail_tr, tr = _c01.translated_obligation(run, audit, differential=False)
    run_cases(run, audit, scale=run.boost * (1 if ok_tr else 2))
    violations = []
    if (run.disagreements or not ok_tr) and not run.spec_failures:
        run_cases(run, audit, scale=4)
    if run.spec_failures:
        path = run.write_replay("spec", {"what": "C11 violated on the real engine", "case": run.spec_failures[0], "count": len(run.spec_failures)})
        violations.append((path, True))
    elif not ok_tr:
        path = run.write_replay("obligation", {"what": "per-run obligation Rbacx/Run/C01_translated.lean no longer checks: the translated source of the "
                                               "engine's decision core (gate, Decision, audit payload, metric labels) is not proved equal to the "
                                               "model's finishDecision, the object Rbacx.C11.c11_one_audit_one_metric is about; the widened search "
                                               "found no case on which the explanation or the audit trail is untruthful",
                                               "translation": tr, "lean": detail_tr[-1500:], "first_disagreement": run.disagreements[:1]})
        violations.append((path, False))
    elif run.disagreements:
        path = run.write_replay("correspondence", {"what": "model and engine disagree on (rule_id, reason, policy_id, obligations, challenge, events); "
                                                   "theorems Rbacx.C11.* no longer speak about this code", "first": run.disagreements[0],
                                                   "count": len(run.disagreements)})
        violations.append((path, False))
    return run.finish(audit, violations)


def replay(run: lib.Run, audit: dict, path: str) -> int:
    import json
    rp = json.load(open(path))
    c = rp.get("case") or rp.get("first")
    print("impl now:", real.run_guard(c["policy"], c["request"], c["cfg"]))
    print("recorded:", c["impl"], "model:", c["model"])
    return 0
